#!/venv/bin/python
"""py2v_sum: small fail-closed translator for the figure-computing functions behind the summaries
(biom/util.py compute_counts_per_sample_stats).  Every numpy / builtin / Table operation becomes a
named primitive of the hand-written prelude coq/Gen/SumPrelude.v, typed by the signature file.
Statements become nested lets (a later binding of a name shadows the earlier one; the rest of a block
is repeated in both branches of an if); a `for` over Table.iter() becomes a fold_left whose state is
the tuple of the names the body assigns; the value of the function is a tuple whose positions are
typed by the signature (an integer at a rational position is embedded by q_of_Z).
Called names are resolved through the module's top-level bindings (`from numpy import min` makes
`min` numpy.min, an unbound name is a builtin); a name bound twice at top level is refused.

usage: main.py [--repo DIR] [--out DIR] [--stdout] [--hashes] [target ...]
Any AST node, name, attribute, call, keyword, type combination not covered by the signature file gives
exit code 2 and NO file is written.  Methods the primitives stand for are pinned by AST hash.
Output is deterministic; a file is rewritten only when its text changed.  Source text is never copied
into the output.  (Sibling of tools/py2v, py2v_dyn, py2v_eq, py2v_part; docs/translator.md,
"Summary mode".)"""
import ast
import glob
import hashlib
import json
import os
import sys

HERE = os.path.dirname(os.path.abspath(__file__))


class Unsupported(Exception):
    def __init__(self, node, msg):
        Exception.__init__(self, 'line %s: %s' % (getattr(node, 'lineno', 0), msg))


def dump_hash(nodes, extra=''):
    text = ast.dump(ast.Module(body=nodes, type_ignores=[]), annotate_fields=False, include_attributes=False)
    return hashlib.sha256((text + extra).encode()).hexdigest()[:16]


def strip_doc(body):
    if body and isinstance(body[0], ast.Expr) and isinstance(getattr(body[0], 'value', None), ast.Constant) \
            and isinstance(body[0].value.value, str):
        return body[1:]
    return body


def ast_hash(fn):
    return dump_hash(strip_doc(fn.body), '|' + ast.dump(fn.args, annotate_fields=False, include_attributes=False))


def paren(t):
    t = t.strip()
    if ' ' not in t or (t[0] == '(' and t[-1] == ')' and balanced(t[1:-1])):
        return t
    return '(' + t + ')'


def balanced(t):
    d = 0
    for ch in t:
        d += ch == '('
        d -= ch == ')'
        if d < 0:
            return False
    return d == 0


def top_bindings(tree):
    """name -> qualified origin for the module's top-level bindings; a name bound twice -> 'AMBIGUOUS'"""
    b = {}

    def put(name, origin):
        b[name] = 'AMBIGUOUS' if name in b else origin
    for n in tree.body:
        if isinstance(n, ast.ImportFrom):
            for a in n.names:
                put(a.asname or a.name, '%s%s.%s' % ('.' * n.level, n.module or '', a.name))
        elif isinstance(n, ast.Import):
            for a in n.names:
                put((a.asname or a.name).split('.')[0], 'module:' + a.name)
        elif isinstance(n, (ast.FunctionDef, ast.ClassDef)):
            put(n.name, 'local:' + n.name)
        elif isinstance(n, (ast.Assign, ast.AugAssign, ast.AnnAssign)):
            for t in (n.targets if isinstance(n, ast.Assign) else [n.target]):
                for x in ast.walk(t):
                    if isinstance(x, ast.Name):
                        put(x.id, 'global:' + x.id)
        elif isinstance(n, (ast.Expr, ast.If, ast.Try)):
            for x in ast.walk(n):   # conditional rebinding: treat every name stored below as ambiguous
                if isinstance(x, ast.Name) and isinstance(x.ctx, ast.Store):
                    b[x.id] = 'AMBIGUOUS'
                elif isinstance(x, (ast.Import, ast.ImportFrom)):
                    for a in x.names:
                        b[(a.asname or a.name).split('.')[0]] = 'AMBIGUOUS'
                elif isinstance(x, (ast.FunctionDef, ast.ClassDef)):
                    b[x.name] = 'AMBIGUOUS'
        else:
            raise Unsupported(n, 'top-level statement %s' % type(n).__name__)
    return b


class Fn:
    def __init__(self, sig, fsig, bindings):
        self.sig, self.fsig, self.bindings = sig, fsig, bindings
        self.aux = []      # auxiliary definitions (loop bodies), emitted before the function
        self.nloop = 0

    # ------------------------------------------------------------------ expressions -> (coq text, type)
    def prim(self, node, entry, args):
        if 'overloads' in entry:
            for o in entry['overloads']:
                if [a[1] for a in args] == o.get('args', []):
                    return self.prim(node, o, args)
            raise Unsupported(node, 'no variant of the signature takes arguments of types %s' % [a[1] for a in args])
        want = entry.get('args', [])
        if len(want) != len(args):
            raise Unsupported(node, 'arity: %d arguments where the signature has %d' % (len(args), len(want)))
        for (txt, ty), w in zip(args, want):
            if ty != w:
                raise Unsupported(node, 'argument of type %s where the signature has %s' % (ty, w))
        return entry['coq'].format(*[paren(a[0]) for a in args]), entry['type']

    def expr(self, e, env):
        if isinstance(e, ast.Name) and isinstance(e.ctx, ast.Load):
            if e.id not in env:
                raise Unsupported(e, 'name %s is not a variable in scope' % e.id)
            return e.id, env[e.id]
        if isinstance(e, ast.Constant) and type(e.value) is int:
            return '(%d)%%Z' % e.value, 'Z'
        if isinstance(e, ast.Constant) and type(e.value) is bool:
            return ('true' if e.value else 'false'), 'bool'
        if isinstance(e, ast.Constant) and type(e.value) is float and e.value == int(e.value) and 'Z->Q' in self.sig.get('coerce', {}):
            return self.sig['coerce']['Z->Q'].format('(%d)%%Z' % int(e.value)), 'Q'
        if isinstance(e, ast.Constant) and isinstance(e.value, str):
            if e.value in self.sig.get('formats', {}):
                return self.sig['formats'][e.value], 'fmt'
            if e.value in self.sig.get('texts', {}):
                return self.sig['texts'][e.value], 'line'
            raise Unsupported(e, 'text constant is not in the signature')
        if isinstance(e, ast.List) and all(isinstance(x, ast.Constant) for x in e.elts):
            ent = self.sig.get('list_literals', {}).get(json.dumps([x.value for x in e.elts]))
            if ent is None:
                raise Unsupported(e, 'list literal is not in the signature')
            return ent['coq'], ent['type']
        if isinstance(e, ast.IfExp):
            a, b = self.expr(e.body, env), self.expr(e.orelse, env)
            if a[1] != b[1]:
                raise Unsupported(e, 'conditional expression of types %s / %s' % (a[1], b[1]))
            return 'if %s then %s else %s' % (self.truth(e.test, env), a[0], b[0]), a[1]
        if isinstance(e, ast.Compare) and len(e.ops) == 1 and isinstance(e.ops[0], ast.Is) \
                and isinstance(e.comparators[0], ast.Constant) and e.comparators[0].value is None:
            l = self.expr(e.left, env)
            ent = self.sig.get('is_none', {}).get(l[1])
            if ent is None:
                raise Unsupported(e, '`is None` on a value of type %s' % l[1])
            return ent.format(paren(l[0])), 'bool'
        if isinstance(e, ast.Subscript) and isinstance(e.ctx, ast.Load) and isinstance(e.slice, ast.Constant) and e.slice.value == 0 \
                and type(e.slice.value) is int:
            v = self.expr(e.value, env)
            ent = self.sig.get('index0', {}).get(v[1])
            if ent is None:
                raise Unsupported(e, '[0] on a value of type %s' % v[1])
            return ent['coq'].format(paren(v[0])), ent['type']
        if isinstance(e, ast.BinOp) and isinstance(e.op, (ast.Add, ast.Mod)) and isinstance(e.left, ast.Constant) \
                and isinstance(e.left.value, str):
            r = self.expr(e.right, env)   # a labelled piece of text: the constant names the line, the rest is its figure
            ent = self.sig.get('labels', {}).get('%s %s %s' % (e.left.value, type(e.op).__name__, r[1]))
            if ent is None:
                raise Unsupported(e, 'text constant with %s of a %s is not in the signature' % (type(e.op).__name__, r[1]))
            return ent['coq'].format(paren(r[0])), ent['type']
        if isinstance(e, ast.UnaryOp) and isinstance(e.op, ast.Not):
            return 'negb %s' % paren(self.truth(e.operand, env)), 'bool'
        if isinstance(e, ast.BoolOp):
            op = {'Or': 'orb', 'And': 'andb'}[type(e.op).__name__]
            parts = [self.truth(v, env) for v in e.values]
            txt = parts[-1]
            for q in reversed(parts[:-1]):   # Python evaluates left to right and stops early; the operands here have no effects
                txt = '%s %s %s' % (op, paren(q), paren(txt))
            return txt, 'bool'
        if isinstance(e, ast.BinOp):
            l, r = self.expr(e.left, env), self.expr(e.right, env)
            key = '%s %s %s' % (l[1], type(e.op).__name__, r[1])
            ent = self.sig.get('binop', {}).get(key)
            if ent is None:
                raise Unsupported(e, 'operation %s is not in the signature' % key)
            return ent['coq'].format(paren(l[0]), paren(r[0])), ent['type']
        if isinstance(e, ast.Attribute) and isinstance(e.ctx, ast.Load):
            recv = self.expr(e.value, env)
            ent = self.sig.get('attrs', {}).get(recv[1], {}).get(e.attr)
            if ent is None:
                raise Unsupported(e, 'attribute %s of a value of type %s is not in the signature' % (e.attr, recv[1]))
            return ent['coq'].format(paren(recv[0])), ent['type']
        if isinstance(e, ast.Dict) and not e.keys and not e.values:
            ent = self.sig['literals'].get('{}')
            if not ent:
                raise Unsupported(e, 'empty dict literal')
            return ent['coq'], ent['type']
        if isinstance(e, ast.Call):
            if any(isinstance(a, ast.Starred) for a in e.args):
                raise Unsupported(e, 'starred argument')
            args = [self.expr(a, env) for a in e.args]
            if isinstance(e.func, ast.Name):
                name = e.func.id
                if name in env:
                    raise Unsupported(e, 'call of the variable %s' % name)
                origin = self.bindings.get(name, 'builtins.' + name)
                return self.fcall(e, name, origin, args)
            if isinstance(e.func, ast.Attribute) and isinstance(e.func.value, ast.Name) and e.func.value.id not in env \
                    and self.bindings.get(e.func.value.id, '').startswith('module:'):
                origin = self.bindings[e.func.value.id][7:] + '.' + e.func.attr
                return self.fcall(e, e.func.attr, origin, args)
            if isinstance(e.func, ast.Attribute) and isinstance(e.func.value, ast.Constant) and isinstance(e.func.value.value, str) \
                    and e.func.attr == 'join' and not e.keywords:
                ent = self.sig.get('joins', {}).get(e.func.value.value)
                if ent is None:
                    raise Unsupported(e, 'join with this separator is not in the signature')
                return self.prim(e, ent, args)
            if isinstance(e.func, ast.Attribute):
                recv = self.expr(e.func.value, env)
                ent = self.sig['methods'].get(recv[1], {}).get(e.func.attr)
                if ent is None:
                    raise Unsupported(e, 'method %s of a value of type %s is not in the signature' % (e.func.attr, recv[1]))
                kws = []
                given = {}
                for k in e.keywords:
                    if k.arg is None or k.arg in given or k.arg not in ent.get('kw', {}):
                        raise Unsupported(e, 'keyword %s of %s is not in the signature' % (k.arg, e.func.attr))
                    given[k.arg] = k.value
                for kname in sorted(ent.get('kw', {})):   # keywords are named in the call or take the default of the signature
                    kent = ent['kw'][kname]
                    if kname in given:
                        v = given[kname]
                        if not (isinstance(v, ast.Constant) and isinstance(v.value, str) and v.value in kent['values']):
                            raise Unsupported(e, 'value of keyword %s is not one of the constants of the signature' % kname)
                        kws.append((kent['values'][v.value], kent['type']))
                    else:
                        kws.append((kent['default'], kent['type']))
                return self.prim(e, dict(ent, args=[recv[1]] + ent.get('args', []) + [k[1] for k in kws]), [recv] + args + kws)
            raise Unsupported(e, 'call of %s' % type(e.func).__name__)
        if isinstance(e, ast.Compare) and len(e.ops) == 1:
            l, r = self.expr(e.left, env), self.expr(e.comparators[0], env)
            key = '%s %s %s' % (l[1], type(e.ops[0]).__name__, r[1])
            ent = self.sig['compare'].get(key)
            if ent is None:
                raise Unsupported(e, 'comparison %s is not in the signature' % key)
            return ent['coq'].format(paren(l[0]), paren(r[0])), ent['type']
        raise Unsupported(e, 'expression %s' % type(e).__name__)

    def fcall(self, e, name, origin, args):
        ent = self.sig['functions'].get(origin)
        if ent is None:
            raise Unsupported(e, 'call of %s (%s) is not in the signature' % (name, origin))
        want = dict(ent.get('kw_exact', {}))
        for k in e.keywords:
            if k.arg in want and ast.dump(k.value, annotate_fields=False) == want[k.arg]:
                del want[k.arg]
            else:
                raise Unsupported(e, 'keyword %s of %s is not as in the signature' % (k.arg, name))
        if want:
            raise Unsupported(e, 'call of %s without the keyword(s) %s of the signature' % (name, sorted(want)))
        return self.prim(e, ent, args)

    def truth(self, e, env):
        txt, ty = self.expr(e, env)
        if ty == 'bool':
            return txt
        t = self.sig.get('truth', {}).get(ty)
        if t is None:
            raise Unsupported(e, 'truth value of a value of type %s' % ty)
        return t.format(paren(txt))

    def coerce(self, node, val, want):
        txt, ty = val
        if ty == want:
            return txt
        c = self.sig.get('coerce', {}).get('%s->%s' % (ty, want))
        if c is None:
            raise Unsupported(node, 'value of type %s where %s is expected' % (ty, want))
        return c.format(paren(txt))

    # ------------------------------------------------------------------ statements
    def append_target(self, s):
        """X.append(v) as a statement, X a plain name: the name, else None"""
        if isinstance(s, ast.Expr) and isinstance(s.value, ast.Call) and isinstance(s.value.func, ast.Attribute) \
                and s.value.func.attr == 'append' and isinstance(s.value.func.value, ast.Name) \
                and len(s.value.args) == 1 and not s.value.keywords:
            return s.value.func.value.id
        return None

    def ignored(self, s):
        return isinstance(s, ast.Expr) and dump_hash([s]) in self.sig.get('ignored_statements', [])

    def assigned(self, stmts):
        out = []
        for s in stmts:
            if self.ignored(s):
                continue
            if self.append_target(s):
                out.append(self.append_target(s))
            elif isinstance(s, ast.Assign) and len(s.targets) == 1:
                t = s.targets[0]
                if isinstance(t, ast.Name):
                    out.append(t.id)
                elif isinstance(t, ast.Tuple) and all(isinstance(x, ast.Name) for x in t.elts):
                    out += [x.id for x in t.elts]
                elif isinstance(t, ast.Subscript) and isinstance(t.value, ast.Name):
                    out.append(t.value.id)
                else:
                    raise Unsupported(s, 'assignment target %s' % type(t).__name__)
            elif isinstance(s, ast.If):
                out += self.assigned(s.body) + self.assigned(s.orelse)
            else:
                raise Unsupported(s, 'statement %s inside a loop' % type(s).__name__)
        return out

    def has_return(self, stmts):
        return any(isinstance(x, ast.Return) for st in stmts for x in ast.walk(st))

    def returns(self, stmts):
        if not stmts:
            return False
        last = stmts[-1]
        return isinstance(last, ast.Return) or (isinstance(last, ast.If) and self.returns(last.body) and self.returns(last.orelse))

    def block(self, stmts, env, final, ind):
        """final: None (the block must end in return) or a function env -> coq term (end of a loop body)"""
        pad = '  ' * ind
        if not stmts:
            if final is None:
                raise Unsupported(ast.Pass(), 'a path falls off the end of the function')
            return pad + final(env)
        s, rest = stmts[0], stmts[1:]
        if self.ignored(s):
            return self.block(rest, env, final, ind)
        if self.append_target(s):
            name = self.append_target(s)
            if name not in env:
                raise Unsupported(s, 'append to %s, which is not a variable in scope' % name)
            v = self.expr(s.value.args[0], env)
            ent = self.sig.get('append', {}).get('%s<-%s' % (env[name], v[1]))
            if ent is None:
                raise Unsupported(s, 'append of a %s to a %s is not in the signature' % (v[1], env[name]))
            return pad + 'let %s := %s in\n' % (name, ent.format(name, paren(v[0]))) + self.block(rest, env, final, ind)
        if isinstance(s, ast.If) and self.sig.get('merge_ifs') and not self.has_return(s.body) and not self.has_return(s.orelse):
            # neither branch returns: the if yields the names it assigns, the statements after it come once
            a, b = self.assigned(s.body), self.assigned(s.orelse)
            state = sorted(n for n in set(a) | set(b) if n in env or (n in a and n in b))
            if not state:
                raise Unsupported(s, 'an if that assigns nothing visible afterwards')
            tup = lambda ns: ns[0] if len(ns) == 1 else '(' + ', '.join(ns) + ')'
            tys = []

            def fin(e2):
                tys.append([e2[n] for n in state])
                return tup(state)
            tb = self.block(list(s.body), env, fin, ind + 1)
            eb = self.block(list(s.orelse), env, fin, ind + 1)
            if len(tys) != 2 or tys[0] != tys[1]:
                raise Unsupported(s, 'the branches of an if leave different types in %s' % state)
            env2 = dict(env)
            for n, ty in zip(state, tys[0]):
                env2[n] = ty
            return (pad + "let %s%s :=\n" % ("'" if len(state) > 1 else '', tup(state)) + pad + '  if %s\n' % self.truth(s.test, env)
                    + pad + '  then (\n' + tb + ')\n' + pad + '  else (\n' + eb + ') in\n' + self.block(rest, env2, final, ind))
        if isinstance(s, ast.Assign) and len(s.targets) == 1 and isinstance(s.targets[0], ast.Tuple):
            t = s.targets[0]
            val = self.expr(s.value, env)
            parts = self.sig.get('tuples', {}).get(val[1])
            if parts is None or len(parts) != len(t.elts) or not all(isinstance(x, ast.Name) for x in t.elts) \
                    or len(set(x.id for x in t.elts)) != len(t.elts):
                raise Unsupported(s, 'unpacking of a value of type %s' % val[1])
            env2 = dict(env)
            for x, ty in zip(t.elts, parts):
                if x.id in self.sig.get('reserved', []):
                    raise Unsupported(s, 'assignment to reserved name %s' % x.id)
                env2[x.id] = ty
            return pad + "let '(%s) := %s in\n" % (', '.join(x.id for x in t.elts), val[0]) + self.block(rest, env2, final, ind)
        if isinstance(s, ast.Assign) and len(s.targets) == 1:
            t = s.targets[0]
            if isinstance(t, ast.Name):
                if t.id in self.sig.get('reserved', []):
                    raise Unsupported(s, 'assignment to reserved name %s' % t.id)
                val = self.expr(s.value, env)
                env2 = dict(env)
                env2[t.id] = val[1]
                return pad + 'let %s := %s in\n' % (t.id, val[0]) + self.block(rest, env2, final, ind)
            if isinstance(t, ast.Subscript) and isinstance(t.value, ast.Name):
                d = self.expr(ast.Name(id=t.value.id, ctx=ast.Load(), lineno=s.lineno), env)
                k = self.expr(t.slice, env)
                v = self.expr(s.value, env)
                ent = self.sig['setitem'].get('%s[%s]=%s' % (d[1], k[1], v[1]))
                if ent is None:
                    raise Unsupported(s, 'item assignment %s[%s]=%s is not in the signature' % (d[1], k[1], v[1]))
                return pad + 'let %s := %s in\n' % (t.value.id, ent.format(paren(d[0]), paren(k[0]), paren(v[0]))) \
                    + self.block(rest, env, final, ind)
            raise Unsupported(s, 'assignment target %s' % type(t).__name__)
        if isinstance(s, ast.If):
            c = (self.truth(s.test, env), 'bool')
            # a branch that ends in return does not reach the statements after the if
            tb = list(s.body) + ([] if self.returns(s.body) else rest)
            eb = list(s.orelse) + ([] if self.returns(s.orelse) else rest)
            return (pad + 'if %s\n' % c[0] + pad + 'then (\n' + self.block(tb, env, final, ind + 1) + ')\n'
                    + pad + 'else (\n' + self.block(eb, env, final, ind + 1) + ')')
        if isinstance(s, ast.Return):
            if final is not None:
                raise Unsupported(s, 'return inside a loop')
            if rest:
                raise Unsupported(rest[0], 'statement after return')
            shape = self.fsig['returns']
            if isinstance(shape, str):
                if s.value is None:
                    raise Unsupported(s, 'bare return')
                return pad + self.coerce(s.value, self.expr(s.value, env), shape)
            if not isinstance(s.value, ast.Tuple) or len(s.value.elts) != len(shape):
                raise Unsupported(s, 'the value returned is not a tuple of %d' % len(shape))
            parts = [self.coerce(x, self.expr(x, env), w) for x, w in zip(s.value.elts, shape)]
            return pad + '(' + ', '.join(parts) + ')'
        if isinstance(s, ast.For):
            if s.orelse:
                raise Unsupported(s, 'for ... else')
            it = self.expr(s.iter, env)
            elems = self.sig['iterables'].get(it[1])
            if elems is None:
                raise Unsupported(s, 'loop over a value of type %s' % it[1])
            if not (isinstance(s.target, ast.Tuple) and len(s.target.elts) == len(elems)
                    and all(isinstance(x, ast.Name) for x in s.target.elts)):
                raise Unsupported(s, 'loop target is not a tuple of %d names' % len(elems))
            names = [x.id for x in s.target.elts]
            state = sorted(set(self.assigned(s.body)))
            if not state or any(n not in env for n in state) or set(names) & set(state) or len(set(names)) != len(names):
                raise Unsupported(s, 'loop body assigns a name that is not bound before the loop, or a loop variable')
            if any(n in env for n in names):
                raise Unsupported(s, 'loop variable shadows a name in scope')
            benv = dict(env)
            for n, ty in zip(names, elems):
                benv[n] = ty
            self.nloop += 1
            lname = '%s_loop%d' % (self.fsig['coq'], self.nloop)
            free = [n for n in sorted(env) if n not in state]
            tup = lambda ns: ns[0] if len(ns) == 1 else '(' + ', '.join(ns) + ')'
            body = self.block(list(s.body), benv, lambda e2: tup(state), 2)
            sty = ' * '.join(self.sig['types'][env[n]] for n in state)
            ity = ' * '.join(self.sig['types'][t] for t in elems)
            self.aux.append('Definition %s %s(st : %s) (it : %s) : %s :=\n  let \'%s := st in\n  let \'%s := it in\n%s.'
                            % (lname, ''.join('(%s : %s) ' % (n, self.sig['types'][env[n]]) for n in free), sty, ity, sty,
                               tup(state) if len(state) > 1 else state[0], '(' + ', '.join(names) + ')', body))
            return (pad + 'let \'%s := fold_left (%s) %s %s in\n'
                    % (tup(state) if len(state) > 1 else state[0], ' '.join([lname] + free), paren(it[0]), tup(state))
                    + self.block(rest, env, final, ind))
        raise Unsupported(s, 'statement %s' % type(s).__name__)


def find_fn(body, name, node=None):
    fs = [n for n in body if isinstance(n, ast.FunctionDef) and n.name == name]
    if len(fs) != 1:
        raise Unsupported(node or ast.Pass(), '%d definitions of %s' % (len(fs), name))
    return fs[0]


def check_pins(sig, repo):
    for pin in sig.get('pinned', []):
        tree = ast.parse(open(os.path.join(repo, pin['source'])).read())
        cls = [n for n in tree.body if isinstance(n, ast.ClassDef) and n.name == pin['class']]
        if len(cls) != 1:
            raise Unsupported(tree, 'class %s of %s' % (pin['class'], pin['source']))
        for name, want in sorted(pin['methods'].items()):
            got = ast_hash(find_fn(cls[0].body, name))
            if got != want:
                raise Unsupported(find_fn(cls[0].body, name),
                                  '%s.%s of %s changed (AST hash %s, pinned %s): the primitives rely on it'
                                  % (pin['class'], name, pin['source'], got, want))


def translate(sigpath, repo):
    sig = json.load(open(sigpath))
    raw = open(os.path.join(repo, sig['source']), 'rb').read()
    tree = ast.parse(raw.decode())
    check_pins(sig, repo)
    bindings = top_bindings(tree)
    for name, origin in sorted(sig.get('require_bindings', {}).items()):
        if bindings.get(name) != origin:
            raise Unsupported(tree, 'the name %s is %s at the top level of the module, the signature has %s' % (name, bindings.get(name), origin))
    out = []
    body0 = tree.body
    if sig.get('class'):
        cls = [n for n in tree.body if isinstance(n, ast.ClassDef) and n.name == sig['class']]
        if len(cls) != 1:
            raise Unsupported(tree, 'class %s' % sig['class'])
        body0 = cls[0].body
    for ty in sig['methods']:
        for mname, ent in sig['methods'][ty].items():
            if ent.get('emitted') and mname not in [f['py'] for f in sig['emit']]:
                raise Unsupported(tree, 'method %s is marked as translated but is not in the emit list' % mname)
    for fsig in sig['emit']:
        fn = find_fn(body0, fsig['py'])
        if fn.decorator_list or fn.args.vararg or fn.args.kwarg or fn.args.kwonlyargs or fn.args.posonlyargs:
            raise Unsupported(fn, 'decorators / star arguments')
        params = [a.arg for a in fn.args.args]
        if params != [p['name'] for p in fsig['params']]:
            raise Unsupported(fn, 'parameters %s differ from the signature' % params)
        defaults = [None] * (len(params) - len(fn.args.defaults)) + list(fn.args.defaults)
        for p, d in zip(fsig['params'], defaults):
            got = None if d is None else (repr(d.value) if isinstance(d, ast.Constant) else 'EXPR')
            if got != p.get('default'):
                raise Unsupported(fn, 'default of %s is %s, the signature has %s' % (p['name'], got, p.get('default')))
        for n in ast.walk(fn):
            if isinstance(n, (ast.Global, ast.Nonlocal, ast.FunctionDef, ast.Lambda)) and n is not fn:
                raise Unsupported(n, type(n).__name__)
        env = {p['name']: p['type'] for p in fsig['params']}
        for nm in env:
            if bindings.get(nm) == 'AMBIGUOUS':
                raise Unsupported(fn, 'parameter name %s' % nm)
        for x in ast.walk(fn):   # a called name must have exactly one top-level origin
            if isinstance(x, ast.Call) and isinstance(x.func, ast.Name) and bindings.get(x.func.id) == 'AMBIGUOUS':
                raise Unsupported(x, 'name %s is bound more than once at the top level of the module' % x.func.id)
        f = Fn(sig, fsig, bindings)
        body = f.block(strip_doc(list(fn.body)), env, None, 1)
        out += f.aux
        rty = fsig['returns']
        rty = ': %s ' % sig['types'][rty] if isinstance(rty, str) else ''
        out.append('Definition %s %s%s:=\n%s.' % (fsig['coq'], ''.join('(%s : %s) ' % (p['name'], sig['types'][p['type']])
                                                                      for p in fsig['params']), rty, body))
    head = ['(* GENERATED by tools/py2v_sum from %s%s - do not edit; regenerated on every check. *)'
            % (sig['source'], ' (class %s)' % sig['class'] if sig.get('class') else '')] + sig['header']
    text = '\n'.join(head) + '\n\n' + '\n\n'.join(out) + '\n'
    return sig, text, hashlib.sha256(raw).hexdigest()


def main(argv):
    repo = os.environ.get('BIOM_REPO', '/repo')
    outroot = os.path.dirname(os.path.dirname(HERE))
    to_stdout = hashes = False
    targets = []
    it = iter(argv)
    for a in it:
        if a == '--repo':
            repo = next(it)
        elif a == '--out':
            outroot = next(it)
        elif a == '--stdout':
            to_stdout = True
        elif a == '--hashes':
            hashes = True
        else:
            targets.append(a)
    sigs = sorted(glob.glob(os.path.join(HERE, 'sigs', '*.json')))
    if targets:
        sigs = [s for s in sigs if os.path.basename(s)[:-5] in targets]
        if len(sigs) != len(targets):
            print('py2v_sum: unknown target in %s' % targets, file=sys.stderr)
            return 2
    if hashes:   # maintenance: print the AST hashes the signature files pin
        for s in sigs:
            for pin in json.load(open(s)).get('pinned', []):
                tree = ast.parse(open(os.path.join(repo, pin['source'])).read())
                cls = [n for n in tree.body if isinstance(n, ast.ClassDef) and n.name == pin['class']][0]
                for name in sorted(pin['methods']):
                    print(pin['class'], name, ast_hash(find_fn(cls.body, name)))
        return 0
    failed = False
    for s in sigs:
        src = json.load(open(s))['source']
        try:
            sig, out, sha = translate(s, repo)
        except Unsupported as e:
            print('py2v_sum: REFUSED %s (%s): %s' % (src, os.path.basename(s)[:-5], e), file=sys.stderr)
            failed = True
            continue
        except (OSError, SyntaxError, ValueError, KeyError, IndexError, TypeError, AttributeError, AssertionError) as e:
            print('py2v_sum: REFUSED %s (%s): %s: %s' % (src, os.path.basename(s)[:-5], type(e).__name__, e), file=sys.stderr)
            failed = True
            continue
        if to_stdout:
            sys.stdout.write(out)
            continue
        path = os.path.join(outroot, sig['output'])
        old = open(path).read() if os.path.exists(path) else None
        if old != out:
            os.makedirs(os.path.dirname(path), exist_ok=True)
            tmp = path + '.tmp'
            open(tmp, 'w').write(out)
            os.replace(tmp, path)
            state = 'written'
        else:
            state = 'unchanged'
        print('py2v_sum: %s -> %s %s (source sha256 %s)' % (sig['source'], sig['output'], state, sha))
    return 2 if failed else 0


if __name__ == '__main__':
    sys.exit(main(sys.argv[1:]))
