#!/usr/bin/env python3
"""py2v_json: fail-closed translator for the BIOM 1.0 JSON writer (Table.to_json of biom/table.py)
into Gallina over coq/Gen/JsonPrelude.v.

A Python str is `text` (list of code points, the `str` of Model/Json.v).  Every name is typed
statically from the signature file (tools/py2v_json/sigs/to_json.json).  The method is
specialised on the truth value of the parameter listed under "static_truth" (direct_io): one
definition per value; a test on it is decided at translation time, `direct_io.write(e)` appends e
to a hidden output text which is the result of the streamed variant.  Statements become nested
lets; an `if` whose branches assign becomes a let of the tuple of the assigned names (both
branches must agree on the types, a name assigned in one branch only must exist before); an `if`
with a raising branch is bound with rbind; `x is None` on an Optional becomes a match; a `for`
over enumerate(..) becomes a fold_left over the state of the names its body assigns; a `raise`
becomes RErr, `return e` becomes ROk e.  `%`-formats, f-strings and str.format with %s / %d / {}
are split into their literal pieces at translation time.  Any AST node, name, call, attribute,
keyword, constant, format directive or message text the signature file does not cover -> exit
code 2 and NO file is written.  The methods and helpers the primitives stand for are pinned by
AST hash.  Output is deterministic; a file is rewritten only when its text changed.
"""
import ast
import hashlib
import json
import os
import re
import sys

HERE = os.path.dirname(os.path.abspath(__file__))


class Unsupported(Exception):
    pass


def no(node, why):
    raise Unsupported('line %s: %s' % (getattr(node, 'lineno', '?'), why))


def dump_hash(nodes):
    return hashlib.sha256('|'.join(ast.dump(n) for n in nodes).encode()).hexdigest()[:16]


def strip_doc(body):
    if body and isinstance(body[0], ast.Expr) and isinstance(body[0].value, ast.Constant) \
            and isinstance(body[0].value.value, str):
        return body[1:]
    return body


def ast_hash(fn):
    return dump_hash([fn.args] + strip_doc(list(fn.body)))


def lit(s):
    return '[' + ';'.join(str(ord(c)) for c in s) + ']'


def tup(names):
    if not names:
        return 'tt'
    if len(names) == 1:
        return names[0]
    return '(' + ', '.join(names) + ')'


def pat(names):
    if not names:
        return '_'
    if len(names) == 1:
        return names[0]
    return "'(" + ', '.join(names) + ')'


OUT = 'out_'


class Tr:
    def __init__(self, sig, truth):
        self.sig = sig
        self.static = sig['static_truth']
        self.truth = truth
        self.pruned = []

    # ------------------------------------------------------------ expressions
    def fmt_pieces(self, node, s, args, env, style):
        """split a format string into literal pieces and converted arguments"""
        parts = []
        i = 0
        k = 0
        cur = ''
        while i < len(s):
            c = s[i]
            if style == '%':
                if c == '%':
                    d = s[i + 1:i + 2]
                    if d == '%':
                        cur += '%'
                    elif d in ('s', 'd'):
                        if k >= len(args):
                            no(node, 'too few arguments for the format')
                        if cur:
                            parts.append(lit(cur))
                            cur = ''
                        t, ty = self.expr(args[k], env)
                        k += 1
                        if d == 's':
                            if ty != 'text':
                                no(node, '%%s of a %s' % ty)
                            parts.append(t)
                        else:
                            if ty != 'int':
                                no(node, '%%d of a %s' % ty)
                            parts.append('show_int %s' % t)
                    else:
                        no(node, 'format directive %%%s' % d)
                    i += 2
                    continue
                cur += c
                i += 1
            else:
                if c == '{':
                    d = s[i + 1:i + 2]
                    if d == '{':
                        cur += '{'
                    elif d == '}':
                        if k >= len(args):
                            no(node, 'too few arguments for the format')
                        if cur:
                            parts.append(lit(cur))
                            cur = ''
                        t, ty = self.expr(args[k], env)
                        k += 1
                        if ty != 'text':
                            no(node, '{} of a %s' % ty)
                        parts.append(t)
                    else:
                        no(node, 'format field {%s' % d)
                    i += 2
                    continue
                if c == '}':
                    if s[i + 1:i + 2] != '}':
                        no(node, 'single } in a format')
                    cur += '}'
                    i += 2
                    continue
                cur += c
                i += 1
        if k != len(args):
            no(node, 'too many arguments for the format')
        if cur:
            parts.append(lit(cur))
        return '(' + ' ++ '.join(parts or ['[]']) + ')', 'text'

    def is_self(self, e):
        return isinstance(e, ast.Name) and e.id == 'self'

    def expr(self, e, env):
        sig = self.sig
        if isinstance(e, ast.Name):
            if e.id == self.static:
                no(e, 'use of the specialised parameter %s' % e.id)
            if e.id not in env:
                no(e, 'unknown name %s' % e.id)
            return e.id, env[e.id]
        if isinstance(e, ast.Constant):
            v = e.value
            if isinstance(v, str):
                return lit(v), 'text'
            if v is True or v is False:
                return ('true' if v else 'false'), 'bool'
            if isinstance(v, int) and 0 <= v < 1000:
                return '%d' % v, 'int'
            if isinstance(v, float) and v == 0.0 and repr(v) == '0.0':
                return 'float_zero', 'float'
            no(e, 'constant %r' % (v,))
        if isinstance(e, ast.JoinedStr):
            parts = []
            for v in e.values:
                if isinstance(v, ast.Constant) and isinstance(v.value, str):
                    parts.append(lit(v.value))
                elif isinstance(v, ast.FormattedValue) and v.conversion == -1 and v.format_spec is None:
                    t, ty = self.expr(v.value, env)
                    if ty != 'text':
                        no(v, 'f-string field of a %s' % ty)
                    parts.append(t)
                else:
                    no(v, 'f-string piece')
            return '(' + ' ++ '.join(parts or ['[]']) + ')', 'text'
        if isinstance(e, ast.BinOp) and isinstance(e.op, ast.Mod):
            if not (isinstance(e.left, ast.Constant) and isinstance(e.left.value, str)):
                no(e, '% outside the subset')
            args = e.right.elts if isinstance(e.right, ast.Tuple) else [e.right]
            return self.fmt_pieces(e, e.left.value, args, env, '%')
        if isinstance(e, ast.BinOp) and isinstance(e.op, ast.Sub):
            a, ta = self.expr(e.left, env)
            b, tb = self.expr(e.right, env)
            if (ta, tb) != ('int', 'int'):
                no(e, '- of %s and %s' % (ta, tb))
            return '(%s - %s)' % (a, b), 'int'
        if isinstance(e, ast.UnaryOp) and isinstance(e.op, ast.Not):
            return '(negb %s)' % self.truthy(e.operand, env), 'bool'
        if isinstance(e, ast.BoolOp) and isinstance(e.op, (ast.And, ast.Or)):
            op = ' && ' if isinstance(e.op, ast.And) else ' || '
            return '(' + op.join(self.truthy(v, env) for v in e.values) + ')', 'bool'
        if isinstance(e, ast.IfExp):
            c = self.truthy(e.test, env)
            a, ta = self.expr(e.body, env)
            b, tb = self.expr(e.orelse, env)
            if ta != tb:
                no(e, 'conditional expression of %s and %s' % (ta, tb))
            return '(if %s then %s else %s)' % (c, a, b), ta
        if isinstance(e, ast.Compare) and len(e.ops) == 1:
            a, ta = self.expr(e.left, env)
            b, tb = self.expr(e.comparators[0], env)
            op = type(e.ops[0]).__name__
            table = {('int', 'Eq'): '(%s =? %s)', ('int', 'NotEq'): '(negb (%s =? %s))',
                     ('int', 'Gt'): '(%s >? %s)', ('int', 'Lt'): '(%s <? %s)',
                     ('int', 'GtE'): '(%s >=? %s)', ('int', 'LtE'): '(%s <=? %s)',
                     ('float', 'Eq'): '(float_eqb %s %s)', ('float', 'NotEq'): '(negb (float_eqb %s %s))'}
            if ta != tb or (ta, op) not in table:
                no(e, 'comparison %s of %s and %s' % (op, ta, tb))
            return table[(ta, op)] % (a, b), 'bool'
        if isinstance(e, ast.List):
            ts = [self.expr(x, env) for x in e.elts]
            if any(ty != 'text' for _, ty in ts):
                no(e, 'list of non-str')
            if not ts:
                return '([] : list text)', 'list text'
            return '[' + '; '.join(t for t, _ in ts) + ']', 'list text'
        if isinstance(e, ast.Attribute) and self.is_self(e.value):
            if e.attr not in sig['attrs']:
                no(e, 'attribute self.%s' % e.attr)
            if 'self.' + e.attr in env:
                return 'self_%s_' % e.attr, env['self.' + e.attr]
            a = sig['attrs'][e.attr]
            return a['coq'], a['type']
        if isinstance(e, ast.Subscript):
            if self.is_self(e.value):
                ix = e.slice
                if isinstance(ix, ast.Tuple) and len(ix.elts) == 2 and all(
                        isinstance(x, ast.Constant) and type(x.value) is int and 0 <= x.value < 1000
                        for x in ix.elts):
                    return '(PFloat (tbl_get self %d %d))' % (ix.elts[0].value, ix.elts[1].value), 'pyval'
                no(e, 'self[...] outside the subset')
            a, ta = self.expr(e.value, env)
            if ta == 'item' and isinstance(e.slice, ast.Constant) and e.slice.value in (0, 1, 2) \
                    and type(e.slice.value) is int:
                f, ty = [('it_vals', 'list float'), ('it_id', 'text'), ('it_md', 'json')][e.slice.value]
                return '(%s %s)' % (f, a), ty
            no(e, 'subscript of a %s' % ta)
        if isinstance(e, ast.Call):
            return self.call(e, env)
        no(e, 'expression %s' % type(e).__name__)

    def call(self, e, env):
        sig = self.sig
        f = e.func
        kws = {k.arg: k.value for k in e.keywords}
        if None in kws:
            no(e, '** argument')
        if isinstance(f, ast.Name):
            nargs = len(e.args)
            if f.id in sig['const_calls']:
                c = sig['const_calls'][f.id]
                if kws or ast.dump(ast.Tuple(elts=e.args, ctx=ast.Load())) != c['args_dump']:
                    no(e, 'arguments of %s' % f.id)
                return c['coq'], 'text'
            if kws or nargs != 1:
                no(e, 'call of %s' % f.id)
            a, ta = self.expr(e.args[0], env)
            table = {('dumps', 'text'): ('dumps_str %s', 'text'), ('dumps', 'json'): ('dumps_md %s', 'text'),
                     ('str', 'tidobj'): ('str_of_tid %s', 'text'),
                     ('float', 'float'): ('float_of_float %s', 'float'),
                     ('repr', 'float'): ('fmt %s', 'text'),
                     ('len', 'list text'): ('Z.of_nat (length %s)', 'int')}
            if (f.id, ta) not in table:
                no(e, '%s of a %s' % (f.id, ta))
            t, ty = table[(f.id, ta)]
            return '(' + t % a + ')', ty
        if isinstance(f, ast.Attribute):
            # datetime.now().isoformat()
            if f.attr == 'isoformat' and not e.args and not kws:
                v = f.value
                if isinstance(v, ast.Call) and isinstance(v.func, ast.Attribute) and v.func.attr == 'now' \
                        and isinstance(v.func.value, ast.Name) and v.func.value.id == 'datetime' \
                        and not v.args and not v.keywords and 'datetime' not in env:
                    return 'now_iso', 'text'
                a, ta = self.expr(v, env)
                if ta != 'datetime':
                    no(e, 'isoformat of a %s' % ta)
                return '(dt_isoformat %s)' % a, 'text'
            if self.is_self(f.value):
                key = f.attr + '(' + ','.join(['%s=%r' % (k, v.value) for k, v in sorted(kws.items())
                                              if isinstance(v, ast.Constant)]) + ')'
                if e.args or any(not isinstance(v, ast.Constant) for v in kws.values()) \
                        or key not in sig['self_calls']:
                    no(e, 'call self.%s' % key)
                c = sig['self_calls'][key]
                return c['coq'], c['type']
            if f.attr == 'join' and len(e.args) == 1 and not kws:
                d, td = self.expr(f.value, env)
                a, ta = self.expr(e.args[0], env)
                if td != 'text' or ta != 'list text':
                    no(e, 'join of %s on %s' % (ta, td))
                return '(str_join %s %s)' % (d, a), 'text'
            if f.attr == 'format' and not kws and isinstance(f.value, ast.Constant) \
                    and isinstance(f.value.value, str):
                return self.fmt_pieces(e, f.value.value, e.args, env, '{')
        no(e, 'call outside the subset')

    def truthy(self, e, env):
        if isinstance(e, ast.Call) and isinstance(e.func, ast.Name) and e.func.id == 'isinstance' \
                and len(e.args) == 2 and not e.keywords and isinstance(e.args[1], ast.Name) \
                and e.args[1].id in ('int', 'float', 'str'):
            a, ta = self.expr(e.args[0], env)
            cls = e.args[1].id
            if ta == 'pyval':
                return '(py_is%s %s)' % (cls, a)
            if ta == 'text' and cls == 'str':
                return '(text_isstr %s)' % a
            no(e, 'isinstance of a %s' % ta)
        t, ty = self.expr(e, env)
        if ty == 'bool':
            return t
        if ty == 'list text':
            return '(negb (list_empty %s))' % t
        no(e, 'truth value of a %s' % ty)

    # ------------------------------------------------------------ statements
    def static_test(self, e):
        if isinstance(e, ast.Name) and e.id == self.static:
            return self.truth
        return None

    def flatten(self, ss):
        """decide the tests on the specialised parameter"""
        out = []
        for s in ss:
            if isinstance(s, ast.If):
                st = self.static_test(s.test)
                if st is not None:
                    keep, drop = (s.body, s.orelse) if st else (s.orelse, s.body)
                    self.pruned.append(dump_hash(drop))
                    out.extend(self.flatten(keep))
                    continue
            out.append(s)
        return out

    def assigned(self, ss):
        acc = []

        def add(n):
            if n not in acc:
                acc.append(n)
        for s in self.flatten(ss):
            if isinstance(s, ast.Assign):
                for t in s.targets:
                    for n in (t.elts if isinstance(t, ast.Tuple) else [t]):
                        if not isinstance(n, ast.Name):
                            no(s, 'assignment target')
                        add(n.id)
            elif isinstance(s, ast.Expr) and isinstance(s.value, ast.Call) \
                    and isinstance(s.value.func, ast.Attribute) and isinstance(s.value.func.value, ast.Name):
                n = s.value.func.value.id
                add(OUT if n == self.static else n)
            elif isinstance(s, ast.If):
                for n in self.assigned(s.body) + self.assigned(s.orelse):
                    add(n)
            elif isinstance(s, ast.For):
                for n in self.assigned(s.body):
                    add(n)
            elif isinstance(s, ast.Try):
                for n in self.assigned(s.body):
                    add(n)
            elif isinstance(s, (ast.Raise, ast.Return)):
                pass
            else:
                no(s, 'statement %s' % type(s).__name__)
        return acc

    def raises(self, ss):
        for s in self.flatten(ss):
            if isinstance(s, ast.Raise):
                return True
            if isinstance(s, ast.If) and (self.raises(s.body) or self.raises(s.orelse)):
                return True
            if isinstance(s, ast.For) and self.raises(s.body):
                return True
        return False

    def stmts(self, ss, env, k, ind, top=False):
        """text of the statements followed by k(env); at top level the text is a `result text`"""
        ss = self.flatten(ss)
        if not ss:
            return k(env)
        s, rest = ss[0], ss[1:]
        pad = '  ' * ind

        def cont(env2):
            return self.stmts(rest, env2, k, ind, top)
        if isinstance(s, ast.Assign):
            if len(s.targets) == 1 and isinstance(s.targets[0], ast.Name):
                t, ty = self.expr(s.value, env)
                n = s.targets[0].id
                ty = self.coerce(s, n, ty)
                if ty == 'pyval' and isinstance(s.value, ast.Constant):
                    t = '(PInt %s)' % t
                return pad + 'let %s := %s in\n' % (n, t) + cont(dict(env, **{n: ty}))
            if len(s.targets) == 1 and isinstance(s.targets[0], ast.Tuple):
                names = [n.id for n in s.targets[0].elts if isinstance(n, ast.Name)]
                t, ty = self.expr(s.value, env)
                if len(names) != 2 or len(s.targets[0].elts) != 2 or ty != 'int * int':
                    no(s, 'unpacking of a %s' % ty)
                return pad + "let '(%s, %s) := %s in\n" % (names[0], names[1], t) + \
                    cont(dict(env, **{names[0]: 'int', names[1]: 'int'}))
            no(s, 'assignment outside the subset')
        if isinstance(s, ast.Try):
            # try: a, b = <total attribute> / except: ...   the attribute cannot raise (pinned)
            if len(s.body) == 1 and isinstance(s.body[0], ast.Assign) and not s.orelse and not s.finalbody \
                    and isinstance(s.body[0].value, ast.Attribute) and self.is_self(s.body[0].value.value) \
                    and s.body[0].value.attr in self.sig['total_attrs'] and len(s.handlers) == 1 \
                    and s.handlers[0].type is None \
                    and all(isinstance(h, ast.Assign) for h in s.handlers[0].body):
                self.pruned.append(dump_hash(s.handlers[0].body))
                return self.stmts([s.body[0]] + rest, env, k, ind, top)
            no(s, 'try outside the subset')
        if isinstance(s, ast.Expr):
            c = s.value
            if isinstance(c, ast.Call) and isinstance(c.func, ast.Attribute) and isinstance(c.func.value, ast.Name) \
                    and len(c.args) == 1 and not c.keywords:
                n = c.func.value.id
                a, ta = self.expr(c.args[0], env)
                if n == self.static and c.func.attr == 'write' and self.truth and ta == 'text':
                    return pad + 'let %s := %s ++ %s in\n' % (OUT, OUT, a) + cont(env)
                if c.func.attr == 'append' and env.get(n) == 'list text' and ta == 'text':
                    return pad + 'let %s := %s ++ [%s] in\n' % (n, n, a) + cont(env)
            no(s, 'expression statement outside the subset')
        if isinstance(s, ast.Raise):
            if rest:
                no(s, 'statements after raise')
            c = s.exc
            if isinstance(c, ast.Call) and isinstance(c.func, ast.Name) and c.func.id in self.sig['exceptions'] \
                    and len(c.args) == 1 and not c.keywords and isinstance(c.args[0], ast.Constant) \
                    and c.args[0].value in self.sig['messages']:
                return pad + 'RErr %s\n' % self.sig['exceptions'][c.func.id]
            no(s, 'raise outside the subset')
        if isinstance(s, ast.Return):
            if rest or not top or s.value is None:
                no(s, 'return outside the subset')
            t, ty = self.expr(s.value, env)
            if ty != 'text' or self.truth:
                no(s, 'return of a %s' % ty)
            return pad + 'ROk %s\n' % t
        if isinstance(s, ast.If):
            return self.if_stmt(s, env, cont, ind)
        if isinstance(s, ast.For):
            return self.for_stmt(s, env, cont, ind)
        no(s, 'statement %s' % type(s).__name__)

    def coerce(self, node, name, ty):
        want = self.sig['locals'].get(name)
        if want is None:
            return ty
        if ty == want or (want == 'pyval' and ty == 'int' and isinstance(node.value, ast.Constant)):
            return want
        # a name may change type by a plain assignment (str pieces -> str): allowed when listed
        if ty in self.sig['locals'].get(name + '#also', []):
            return ty
        no(node, '%s : %s, expected %s' % (name, ty, want))

    def block(self, ss, env, names, monadic, ind, types):
        """the statements as an expression of the tuple of `names` (ROk of it when monadic)"""
        def k(env2):
            for n in names:
                if n not in env2:
                    raise Unsupported('name %s is assigned in one branch only' % n)
            types.append([env2[n] for n in names])
            return '  ' * ind + ('ROk ' if monadic else '') + tup(names) + '\n'
        return self.stmts(ss, env, k, ind)

    def if_stmt(self, s, env, cont, ind):
        pad = '  ' * ind
        names = self.assigned([s])
        monadic = self.raises([s])
        if not names and not monadic:
            no(s, 'if without effect')
        types = []
        # x is None on an Optional: a match, the name is narrowed in the other branch
        t = s.test
        if isinstance(t, ast.Compare) and len(t.ops) == 1 and isinstance(t.ops[0], (ast.Is, ast.IsNot)) \
                and (isinstance(t.left, ast.Name) or (isinstance(t.left, ast.Attribute) and self.is_self(t.left.value))) \
                and isinstance(t.comparators[0], ast.Constant) and t.comparators[0].value is None:
            scrut, ty = self.expr(t.left, env)
            if isinstance(t.left, ast.Name):
                n = key = t.left.id
            else:
                n, key = 'self_%s_' % t.left.attr, 'self.' + t.left.attr
            if not ty.startswith('option '):
                no(s, 'is None on a %s' % (ty or 'unknown name'))
            none_b, some_b = (s.body, s.orelse) if isinstance(t.ops[0], ast.Is) else (s.orelse, s.body)
            a = self.block(none_b, env, names, monadic, ind + 2, types)
            b = self.block(some_b, dict(env, **{key: ty[len('option '):]}), names, monadic, ind + 2, types)
            head = 'match %s with\n%s  | None =>\n%s%s  | Some %s =>\n%s%s  end' % (scrut, pad, a, pad, n, b, pad)
        else:
            c = self.truthy(t, env)
            a = self.block(s.body, env, names, monadic, ind + 2, types)
            b = self.block(s.orelse, env, names, monadic, ind + 2, types)
            head = 'if %s then\n%s%s  else\n%s%s ' % (c, a, pad, b, pad)
        if any(ty != types[0] for ty in types):
            no(s, 'branches disagree on the types of %s: %s' % (names, types))
        if not types:
            no(s, 'every branch raises')
        env2 = dict(env)
        env2.update(zip(names, types[0]))
        if monadic:
            return pad + 'rbind (%s) (fun %s =>\n' % (head, pat(names)) + \
                cont(env2) + pad + ')\n'
        cty = {'int': 'Z', 'float': 'Z', 'list float': 'list Z'}
        ann = ' * '.join(cty.get(ty, ty) for ty in types[0])
        return pad + 'let %s := ((%s) : (%s)%%type) in\n' % (pat(names), head, ann) + cont(env2)

    def for_stmt(self, s, env, cont, ind):
        pad = '  ' * ind
        if s.orelse or not (isinstance(s.target, ast.Tuple) and len(s.target.elts) == 2
                            and all(isinstance(n, ast.Name) for n in s.target.elts)):
            no(s, 'for outside the subset')
        it = s.iter
        if not (isinstance(it, ast.Call) and isinstance(it.func, ast.Name) and it.func.id == 'enumerate'
                and len(it.args) == 1 and not it.keywords):
            no(s, 'for not over enumerate(..)')
        src, tsrc = self.expr(it.args[0], env)
        if not tsrc.startswith('list '):
            no(s, 'enumerate of a %s' % tsrc)
        if self.raises(s.body):
            no(s, 'raise inside a loop')
        i, x = s.target.elts[0].id, s.target.elts[1].id
        names = [n for n in self.assigned(s.body) if n in env]
        if not names:
            no(s, 'loop without effect')
        benv = dict(env, **{i: 'int', x: tsrc[len('list '):]})
        types = []
        body = self.block(s.body, benv, names, False, ind + 3, types)
        if types[0] != [env[n] for n in names]:
            no(s, 'loop changes the types of %s' % names)
        cty = {'int': 'Z', 'float': 'Z', 'list float': 'list Z'}
        sty = ' * '.join(cty.get(env[n], env[n]) for n in names)
        ety = cty.get(benv[x], benv[x])
        return pad + 'let %s :=\n%s  fold_left (fun (st_ : (%s)%%type) (it_ : (Z * %s)%%type) =>\n%s    let %s := st_ in let \'(%s, %s) := it_ in\n%s' \
            % (pat(names), pad, sty, ety, pad, pat(names), i, x, body) + \
            pad + '  ) (enumerate_z %s) %s in\n' % (src, tup(names)) + cont(env)

    # ------------------------------------------------------------ the method
    def method(self, fn, name):
        sig = self.sig
        params = [a.arg for a in fn.args.args]
        if params != sig['params'] or fn.args.vararg or fn.args.kwarg or fn.args.kwonlyargs \
                or [ast.dump(d) for d in fn.args.defaults] != sig['defaults_dump']:
            no(fn, 'parameters of %s' % fn.name)
        env = dict(sig['env'])
        body = strip_doc(list(fn.body))
        if self.truth:
            env[OUT] = 'text'
            def k(env2):
                return '  ROk %s\n' % OUT
            text = '  let %s := ([] : text) in\n' % OUT + self.stmts(body, env, k, 1, top=True)
        else:
            def k(env2):
                raise Unsupported('the method can end without return')
            text = self.stmts(body, env, k, 1, top=True)
        return 'Definition %s %s : result text :=\n%s.\n' % (name, sig['binders'], text.rstrip('\n'))


def find_method(tree, cls, name):
    for n in tree.body:
        if isinstance(n, ast.ClassDef) and n.name == cls:
            got = [m for m in n.body if isinstance(m, ast.FunctionDef) and m.name == name]
            if len(got) == 1:
                return got[0]
    raise Unsupported('%s.%s not found (or defined twice)' % (cls, name))


def find_function(tree, name):
    got = [m for m in tree.body if isinstance(m, ast.FunctionDef) and m.name == name]
    if len(got) != 1:
        raise Unsupported('function %s not found (or defined twice)' % name)
    return got[0]


def check_pins(sig, trees):
    for p in sig['pins']:
        tree = trees[p['file']]
        if p['kind'] == 'method':
            h = ast_hash(find_method(tree, p['class'], p['name']))
        elif p['kind'] == 'function':
            h = ast_hash(find_function(tree, p['name']))
        else:
            got = [n for n in tree.body if isinstance(n, ast.Assign) and len(n.targets) == 1
                   and isinstance(n.targets[0], ast.Name) and n.targets[0].id == p['name']]
            if len(got) != 1:
                raise Unsupported('assignment of %s not found' % p['name'])
            h = dump_hash([got[0].value])
        if h != p['hash']:
            raise Unsupported('%s %s of %s changed (AST hash %s, pinned %s): the primitive standing for it is '
                              'no longer justified' % (p['kind'], p['name'], p['file'], h, p['hash']))


HEADER = r'''(* GENERATED by tools/py2v_json from %(src)s (sha256 %(sha)s) - do not edit.
   Table.to_json specialised on the truth value of direct_io: gen_to_json (returned string) and
   gen_to_json_direct (the text written to the handle).  Vocabulary: Gen/JsonPrelude.v.
   Branches decided at translation time (AST hashes): %(pruned)s. *)
From Coq Require Import List Arith ZArith Bool.
From BiomV Require Import Base.Tree Base.ListUtil Base.Matrix Model.Table Model.Json Gen.JsonPrelude.
Import ListNotations.
Open Scope Z_scope.

Section JsonGen.
Variable fmt : Z -> text.
Variable dumps_md : json -> text.

'''


def main(argv):
    import argparse
    ap = argparse.ArgumentParser()
    ap.add_argument('--repo', default='/repo')
    ap.add_argument('--out', default=os.path.dirname(os.path.dirname(HERE)))
    ap.add_argument('--print-hashes', action='store_true')
    ap.add_argument('targets', nargs='*')
    a = ap.parse_args(argv)
    sig = json.load(open(os.path.join(HERE, 'sigs', 'to_json.json')))
    rel = sig['file']
    dest = os.path.join(a.out, sig['out'])
    try:
        trees = {}
        srcs = {}
        for f in sorted(set([rel] + [p['file'] for p in sig['pins']])):
            srcs[f] = open(os.path.join(a.repo, f), 'rb').read()
            trees[f] = ast.parse(srcs[f])
        if a.print_hashes:
            for p in sig['pins']:
                try:
                    check_pins(dict(sig, pins=[p]), trees)
                except Unsupported as ex:
                    print(ex)
            return 0
        check_pins(sig, trees)
        fn = find_method(trees[rel], sig['class'], sig['method'])
        defs = []
        pruned = []
        for truth, name in sig['variants']:
            tr = Tr(sig, truth)
            defs.append(tr.method(fn, name))
            pruned.extend(tr.pruned)
        sha = hashlib.sha256(srcs[rel]).hexdigest()
        text = HEADER % {'src': rel, 'sha': sha, 'pruned': ' '.join(sorted(set(pruned)))} + '\n'.join(defs) + 'End JsonGen.\n'
    except Unsupported as ex:
        sys.stderr.write('py2v_json: REFUSED %s: %s\n' % (rel, ex))
        print('py2v_json: REFUSED %s: %s' % (rel, ex))
        return 2
    old = open(dest).read() if os.path.exists(dest) else None
    state = 'unchanged'
    if old != text:
        with open(dest, 'w') as fh:
            fh.write(text)
        state = 'written'
    print('py2v_json: %s -> %s %s (source sha256 %s)' % (rel, sig['out'], state, sha))
    return 0


if __name__ == '__main__':
    sys.exit(main(sys.argv[1:]))
