#!/bin/sh
# Regenerate the wrapper-object-mode translated parts of the Coq model (tools/py2v_wrap:
# coq/Gen/TransformWrapGen.v from biom/table.py) from the source tree under test (BIOM_REPO, default /repo).
# Exit code 2 = the translator refused the source (the tie is broken); nothing is written then.
here="$(cd "$(dirname "$0")/.." && pwd)"
exec /venv/bin/python "$here/tools/py2v_wrap/main.py" --repo "${BIOM_REPO:-/repo}" --out "$here" "$@"
