"""py2v, mapping-file mode: one method whose body is straight-line code over str / list / dict values
with `for` loops that only update local state (MetadataMap.from_file of biom/parse.py).  Used only by
signature files with "mode": "mapfile".

  def f(x): return e   under  if a: (if b: def.. else: def..) else: ..
        ->  Definition f_gen (a b : bool) (x : text) : text := if a then (if b then e1 else e2) else ..
  for x in l: body      ->  Definition <loop>_gen free.. (st : state) (x : T) : state  (one turn), used as
                            let '(state) := fold_left (<loop>_gen free..) l (state) in ..
                            (`continue` = the state as it is; no break / return / raise inside a loop)
  try: d[k] = fns[k](v) except KeyError: d[k] = w
                        ->  match py_getfn fns k with Some f_ => dict_set d k (f_ v) | None => dict_set d k w end
  raise BiomParseException(msg)  ->  RErr E_OTHER    (msg must be listed in the signature file)
  return cls(m)                  ->  ROk m           (the constructor is pinned by the hash of its AST)
Top-level statements listed under "skip" in the signature file (by the hash of their AST) are not
translated: they normalise arguments the model does not have (a path instead of lines, None instead of
{}).  Anything else is refused (Unsupported -> exit code 2, nothing written)."""
import ast
import hashlib
import json

from core import Unsupported, match_pattern

TYPES = {'str': 'text', 'bool': 'bool', 'int': 'Z', 'strs': 'list text', 'rows': 'list (list text)',
         'assoc': 'list (text * Tree)', 'mapping': 'list (text * list (text * Tree))', 'pfns': 'pfns',
         'tree': 'Tree'}
ELEM = {'strs': 'str', 'rows': 'strs'}
LISTS = ('str', 'strs', 'rows')


def ast_sha(node):
    return hashlib.sha256(ast.dump(node).encode()).hexdigest()[:16]


def codes(s):
    return '[%s]' % '; '.join(str(ord(c)) for c in s)


def tup(names):
    return names[0] if len(names) == 1 else '(%s)' % ', '.join(names)


def pat(names):
    return names[0] if len(names) == 1 else "'(%s)" % ', '.join(names)


def assigned(stmts):
    out = []

    def add(n):
        if n not in out:
            out.append(n)
    for s in stmts:
        for n in ast.walk(s):
            if isinstance(n, (ast.Assign, ast.AugAssign)):
                for t in (n.targets if isinstance(n, ast.Assign) else [n.target]):
                    while isinstance(t, ast.Subscript):
                        t = t.value
                    if isinstance(t, ast.Name):
                        add(t.id)
            elif isinstance(n, ast.Call) and isinstance(n.func, ast.Attribute) and n.func.attr in ('append', 'extend') \
                    and isinstance(n.func.value, ast.Name):
                add(n.func.value.id)
    return out


def names_in(stmts):
    out = []
    for s in stmts:
        for n in ast.walk(s):
            if isinstance(n, ast.Name) and n.id not in out:
                out.append(n.id)
    return out


class MapModule:
    def __init__(self, sigpath, text, srcname):
        self.sig = json.load(open(sigpath))
        self.srcname = srcname
        self.tree = ast.parse(text)
        self.defs = []          # (name, coq text) in emission order
        self.strfn = None       # (python name, flags)
        self.loops = list(self.sig.get('loops', []))
        self.skipped = set()

    def bad(self, node, msg):
        raise Unsupported(node, msg)

    # ---------------------------------------------------------------- driver
    def translate(self):
        sig = self.sig
        cls = [n for n in self.tree.body if isinstance(n, ast.ClassDef) and n.name == sig['class']]
        if len(cls) != 1:
            raise Unsupported(0, '%s: class %s not found' % (self.srcname, sig['class']))
        cls = cls[0]
        fns = {n.name: n for n in cls.body if isinstance(n, ast.FunctionDef)}
        for name, want in sorted(sig.get('pinned', {}).items()):
            if name not in fns:
                raise Unsupported(0, '%s: pinned method %s.%s is missing' % (self.srcname, sig['class'], name))
            got = ast_sha(fns[name])
            if got != want:
                self.bad(fns[name], 'pinned method %s.%s changed (AST hash %s, signature file has %s)'
                         % (sig['class'], name, got, want))
        if sig['method'] not in fns:
            raise Unsupported(0, '%s: method %s.%s not found' % (self.srcname, sig['class'], sig['method']))
        fn = fns[sig['method']]
        if [ast.dump(d) for d in fn.decorator_list] != [ast.dump(ast.parse(d, mode='eval').body)
                                                        for d in sig.get('decorators', [])]:
            self.bad(fn, 'decorators of %s differ from the signature file' % fn.name)
        a = fn.args
        if a.vararg or a.kwarg or a.kwonlyargs or a.posonlyargs:
            self.bad(fn, 'unsupported parameter kinds')
        pnames = [x.arg for x in a.args]
        if pnames != [p['py'] for p in sig['params']]:
            self.bad(fn, 'parameters %s differ from the signature file' % pnames)
        defaults = [ast.dump(d) for d in a.defaults]
        want = [ast.dump(ast.parse(p['default'], mode='eval').body) for p in sig['params'] if 'default' in p]
        if defaults != want:
            self.bad(fn, 'parameter defaults differ from the signature file')
        self.clsname = pnames[0]
        env = {}
        for p in sig['params'][1:]:
            env[p['py']] = p['type']
        self.params = [(p['py'], p['type']) for p in sig['params'][1:]]
        body = list(fn.body)
        if body and isinstance(body[0], ast.Expr) and isinstance(body[0].value, ast.Constant) \
                and isinstance(body[0].value.value, str):
            body = body[1:]
        emit = set(sig['emit'])
        main = self.block(body, env, top=True, fell=lambda env2: self.bad(fn, 'the method can end without return'))
        missing = [s['ast_sha'] for s in sig.get('skip', []) if s['ast_sha'] not in self.skipped]
        if missing:
            self.bad(fn, 'statements the signature file skips are gone or changed: %s' % missing)
        plist = ' '.join('(%s : %s)' % (n, TYPES[t]) for n, t in self.params)
        self.defs.append((sig['coq'], 'Definition %s %s : result (%s) :=\n%s.' % (sig['coq'], plist, TYPES['mapping'], main)))
        out = ['(* GENERATED by tools/py2v (mapping-file mode) from %s, method %s.%s. DO NOT EDIT.'
               % (sig['source'], sig['class'], sig['method']),
               '   Regenerated by tools/regen.sh; signature file tools/py2v/sigs/%s. *)' % sig['name']]
        out += sig['header']
        out.append('')
        known = [n for n, _ in self.defs]
        for e in sig['emit']:
            if e not in known:
                raise Unsupported(0, '%s: nothing was generated for the emit entry %s' % (self.srcname, e))
        # a definition not in the emit list may only be dropped when nothing emitted depends on it
        keep = [(n, t) for n, t in self.defs if n in emit]
        dropped = [n for n, _ in self.defs if n not in emit]
        for n, t in keep:
            for d in dropped:
                if d in t.split() or ('(' + d) in t:
                    raise Unsupported(0, '%s: emitted %s uses %s, which is not in the emit list' % (self.srcname, n, d))
        for n, t in keep:
            out.append(t)
            out.append('')
        return '\n'.join(out)

    # ---------------------------------------------------------------- expressions
    def truth(self, e, env):
        t, ty = self.expr(e, env)
        if ty == 'bool':
            return t
        if ty in LISTS:
            return 'negb (py_empty %s)' % t
        self.bad(e, 'truth value of a %s' % ty)

    def const_char(self, e):
        if isinstance(e, ast.Constant) and isinstance(e.value, str) and len(e.value) == 1:
            return str(ord(e.value))
        self.bad(e, 'a one-character string literal is needed here')

    def const_nat(self, e):
        if isinstance(e, ast.Constant) and type(e.value) is int and e.value >= 0:
            return e.value
        self.bad(e, 'a non-negative integer literal is needed here')

    def expr(self, e, env):
        for p in self.sig.get('patterns', []):
            holes = {}
            if match_pattern(ast.parse(p['pattern'], mode='eval').body, e, holes):
                args = []
                for i, want in enumerate(p['args']):
                    t, ty = self.expr(holes['_%d_' % i], env)
                    if ty != want:
                        self.bad(e, 'pattern argument %d has type %s, expected %s' % (i, ty, want))
                    args.append('(%s)' % t)
                return p['coq'].format(*args), p['type']
        if isinstance(e, ast.Name):
            if e.id not in env:
                self.bad(e, 'unknown name %s' % e.id)
            if env[e.id] == 'strfn':
                self.bad(e, 'a local function can only be called or mapped')
            return e.id, env[e.id]
        if isinstance(e, ast.Constant):
            if isinstance(e.value, str):
                return codes(e.value), 'str'
            if type(e.value) is int:
                return ('%d' % e.value if e.value >= 0 else '(%d)' % e.value), 'int'
            if type(e.value) is bool:
                return ('true' if e.value else 'false'), 'bool'
            self.bad(e, 'constant %r' % (e.value,))
        if isinstance(e, ast.List):
            if not e.elts:
                return '[]', 'emptylist'
            ts = [self.expr(x, env) for x in e.elts]
            if any(ty != 'str' for _, ty in ts):
                self.bad(e, 'only lists of strs can be written down')
            return '[%s]' % '; '.join(t for t, _ in ts), 'strs'
        if isinstance(e, ast.Dict) and not e.keys:
            return '[]', 'emptydict'
        if isinstance(e, ast.UnaryOp) and isinstance(e.op, ast.Not):
            t, ty = self.expr(e.operand, env)
            if ty == 'bool':
                return 'negb (%s)' % t, 'bool'
            if ty in LISTS:
                return 'py_empty (%s)' % t, 'bool'
            self.bad(e, 'not of a %s' % ty)
        if isinstance(e, ast.BoolOp):
            ts = [self.expr(v, env) for v in e.values]
            if all(ty == 'bool' for _, ty in ts):
                op = ' && ' if isinstance(e.op, ast.And) else ' || '
                return op.join('(%s)' % t for t, _ in ts), 'bool'
            if isinstance(e.op, ast.Or) and len(ts) == 2 and ts[0][1] in LISTS and ts[1][1] in (ts[0][1], 'emptylist'):
                return 'py_or_list (%s) (%s)' % (ts[0][0], ts[1][0]), ts[0][1]
            # mixed truthiness inside a condition
            op = ' && ' if isinstance(e.op, ast.And) else ' || '
            return op.join('(%s)' % self.truth(v, env) for v in e.values), 'bool'
        if isinstance(e, ast.Compare) and len(e.ops) == 1:
            a, ta = self.expr(e.left, env)
            b, tb = self.expr(e.comparators[0], env)
            if ta == 'int' and tb == 'int':
                ops = {ast.Lt: '(%s <? %s)', ast.LtE: '(%s <=? %s)', ast.Gt: '(%s >? %s)', ast.GtE: '(%s >=? %s)',
                       ast.Eq: '(%s =? %s)', ast.NotEq: 'negb (%s =? %s)'}
                if type(e.ops[0]) in ops:
                    return ops[type(e.ops[0])] % (a, b), 'bool'
            if ta == 'str' and tb == 'str' and isinstance(e.ops[0], (ast.Eq, ast.NotEq)):
                t = 'text_eqb (%s) (%s)' % (a, b)
                return (t if isinstance(e.ops[0], ast.Eq) else 'negb (%s)' % t), 'bool'
            self.bad(e, 'comparison of %s and %s' % (ta, tb))
        if isinstance(e, ast.BinOp):
            a, ta = self.expr(e.left, env)
            b, tb = self.expr(e.right, env)
            if ta == 'int' and tb == 'int' and isinstance(e.op, (ast.Add, ast.Sub)):
                return '(%s %s %s)' % (a, '+' if isinstance(e.op, ast.Add) else '-', b), 'int'
            if ta in LISTS and tb == 'int' and isinstance(e.op, ast.Mult):
                return 'py_times (%s) (%s)' % (a, b), ta
            if ta in LISTS and tb == ta and isinstance(e.op, ast.Add):
                return '(%s ++ %s)' % (a, b), ta
            self.bad(e, 'operator on %s and %s' % (ta, tb))
        if isinstance(e, ast.Subscript):
            v, tv = self.expr(e.value, env)
            if isinstance(e.slice, ast.Slice):
                if e.slice.upper is not None or e.slice.step is not None or e.slice.lower is None or tv not in LISTS:
                    self.bad(e, 'only x[n:] with a constant n is in the subset')
                return 'py_from %d (%s)' % (self.const_nat(e.slice.lower), v), tv
            if tv == 'strs':
                return 'py_item %d (%s)' % (self.const_nat(e.slice), v), 'str'
            self.bad(e, 'indexing a %s' % tv)
        if isinstance(e, ast.ListComp):
            if len(e.generators) != 1 or e.generators[0].ifs or e.generators[0].is_async \
                    or not isinstance(e.generators[0].target, ast.Name):
                self.bad(e, 'only [e for x in l] is in the subset')
            it, tit = self.expr(e.generators[0].iter, env)
            if tit not in ELEM:
                self.bad(e, 'comprehension over a %s' % tit)
            x = e.generators[0].target.id
            env2 = dict(env)
            env2[x] = ELEM[tit]
            b, tb = self.expr(e.elt, env2)
            res = {'str': 'strs', 'strs': 'rows'}.get(tb)
            if res is None:
                self.bad(e, 'comprehension producing %s' % tb)
            return 'map (fun %s => %s) (%s)' % (x, b, it), res
        if isinstance(e, ast.Call):
            return self.call(e, env)
        self.bad(e, '%s is not in the subset' % type(e).__name__)

    def strfn_term(self, node, env):
        name, flags = self.strfn
        for f in flags:
            if env.get(f) != 'bool':
                self.bad(node, 'flag %s of %s is no longer a bool in scope' % (f, name))
        return '%s %s' % (self.sig['strfn_coq'], ' '.join(flags))

    def call(self, e, env):
        if e.keywords:
            self.bad(e, 'keyword arguments')
        f = e.func
        if isinstance(f, ast.Name):
            if f.id == 'len' and len(e.args) == 1:
                t, ty = self.expr(e.args[0], env)
                if ty not in LISTS:
                    self.bad(e, 'len of a %s' % ty)
                return 'py_len (%s)' % t, 'int'
            if f.id == 'list' and len(e.args) == 1 and isinstance(e.args[0], ast.Call) \
                    and isinstance(e.args[0].func, ast.Name) and e.args[0].func.id == 'map' \
                    and len(e.args[0].args) == 2 and not e.args[0].keywords:
                g, xs = e.args[0].args
                if not (isinstance(g, ast.Name) and env.get(g.id) == 'strfn'):
                    self.bad(e, 'only a local str function can be mapped')
                t, ty = self.expr(xs, env)
                if ty != 'strs':
                    self.bad(e, 'map over a %s' % ty)
                return 'map (%s) (%s)' % (self.strfn_term(e, env), t), 'strs'
            if env.get(f.id) == 'strfn' and len(e.args) == 1:
                t, ty = self.expr(e.args[0], env)
                if ty != 'str':
                    self.bad(e, '%s applied to a %s' % (f.id, ty))
                return '%s (%s)' % (self.strfn_term(e, env), t), 'str'
            self.bad(e, 'call of %s' % f.id)
        if isinstance(f, ast.Attribute):
            v, tv = self.expr(f.value, env)
            if tv != 'str':
                self.bad(e, 'method %s of a %s' % (f.attr, tv))
            if f.attr in ('strip', 'lstrip', 'rstrip') and not e.args:
                return 'py_%s (%s)' % (f.attr, v), 'str'
            if f.attr == 'replace' and len(e.args) == 2:
                c = self.const_char(e.args[0])
                r = e.args[1]
                if not (isinstance(r, ast.Constant) and isinstance(r.value, str)):
                    self.bad(e, 'replacement must be a string literal')
                if r.value == '':
                    return 'py_delete %s (%s)' % (c, v), 'str'
                return 'py_replace1 %s %s (%s)' % (c, codes(r.value), v), 'str'
            if f.attr == 'split' and len(e.args) == 1:
                return 'py_split %s (%s)' % (self.const_char(e.args[0]), v), 'strs'
            if f.attr == 'startswith' and len(e.args) == 1:
                p = e.args[0]
                if not (isinstance(p, ast.Constant) and isinstance(p.value, str)):
                    self.bad(e, 'startswith needs a string literal')
                return 'py_startswith %s (%s)' % (codes(p.value), v), 'bool'
            self.bad(e, 'str method %s/%d' % (f.attr, len(e.args)))
        self.bad(e, 'call form')

    # ---------------------------------------------------------------- statements
    def settle(self, node, env, name, term, ty):
        """type of `name` after being bound to a term of type ty"""
        old = env.get(name)
        if ty in ('emptylist', 'emptydict'):
            decl = self.sig.get('locals', {}).get(name, old)
            if decl is None:
                self.bad(node, 'the signature file gives no type for the local %s' % name)
            if (ty == 'emptylist') != (decl in LISTS):
                self.bad(node, '%s is declared %s' % (name, decl))
            ty = decl
        if old is not None and old != ty:
            self.bad(node, '%s changes type from %s to %s' % (name, old, ty))
        if self.sig.get('locals', {}).get(name, ty) != ty:
            self.bad(node, '%s has type %s, the signature file says %s' % (name, ty, self.sig['locals'][name]))
        return ty

    def as_value(self, node, t, ty, want):
        if ty == want:
            return t
        if want == 'tree' and ty == 'str':
            return 'tStr (%s)' % t
        self.bad(node, 'a %s is stored where a %s is expected' % (ty, want))

    def dict_store(self, s, env):
        """d[k] = v  ->  (d, term of the new d)"""
        tgt = s.targets[0]
        if not isinstance(tgt.value, ast.Name):
            self.bad(s, 'store target')
        d = tgt.value.id
        td = env.get(d)
        if td not in ('assoc', 'mapping'):
            self.bad(s, 'item assignment on %s' % td)
        k, tk = self.expr(tgt.slice, env)
        if tk != 'str':
            self.bad(s, 'dict key of type %s' % tk)
        return d, k, ('tree' if td == 'assoc' else 'assoc')

    def block(self, stmts, env, top=False, fell=None, cont=None):
        """compile a statement list to a term; `fell(env)` gives the term when control falls off the end,
        `cont(env)` the term of `continue` (None outside loops)"""
        if not stmts:
            return fell(env)
        s, rest = stmts[0], stmts[1:]
        env = dict(env)

        def nxt(env2):
            return self.block(rest, env2, top, fell, cont)
        if top:
            h = ast_sha(s)
            for sk in self.sig.get('skip', []):
                if sk['ast_sha'] == h:
                    if h in self.skipped:
                        self.bad(s, 'a skipped statement occurs twice')
                    self.skipped.add(h)
                    return nxt(env)
            if isinstance(s, ast.If) and self.is_def_tree(s):
                self.def_tree(s, env)
                return nxt(env)
        if isinstance(s, ast.Assign):
            if len(s.targets) != 1:
                self.bad(s, 'chained assignment')
            tgt = s.targets[0]
            if isinstance(tgt, ast.Name):
                t, ty = self.expr(s.value, env)
                env[tgt.id] = self.settle(s, env, tgt.id, t, ty)
                return 'let %s := %s in\n%s' % (tgt.id, t, nxt(env))
            if isinstance(tgt, ast.Subscript):
                d, k, want = self.dict_store(s, env)
                t, ty = self.expr(s.value, env)
                return 'let %s := dict_set %s (%s) (%s) in\n%s' % (d, d, k, self.as_value(s, t, ty, want), nxt(env))
            self.bad(s, 'assignment target')
        if isinstance(s, ast.Expr):
            c = s.value
            if isinstance(c, ast.Call) and isinstance(c.func, ast.Attribute) and isinstance(c.func.value, ast.Name) \
                    and c.func.attr in ('append', 'extend') and len(c.args) == 1 and not c.keywords:
                l = c.func.value.id
                tl = env.get(l)
                if tl not in ELEM:
                    self.bad(s, '%s of a %s' % (c.func.attr, tl))
                t, ty = self.expr(c.args[0], env)
                if c.func.attr == 'append':
                    if ty != ELEM[tl]:
                        self.bad(s, 'a %s is appended to a %s' % (ty, tl))
                    return 'let %s := %s ++ [%s] in\n%s' % (l, l, t, nxt(env))
                if ty != tl:
                    self.bad(s, 'a %s is extended by a %s' % (tl, ty))
                return 'let %s := %s ++ %s in\n%s' % (l, l, t, nxt(env))
            self.bad(s, 'expression statement')
        if isinstance(s, ast.If):
            c = self.truth(s.test, env)
            a = self.block(list(s.body) + rest, env, top, fell, cont)
            b = self.block(list(s.orelse) + rest, env, top, fell, cont)
            return 'if %s\nthen (%s)\nelse (%s)' % (c, a, b)
        if isinstance(s, ast.Continue):
            if cont is None:
                self.bad(s, 'continue outside a loop')
            return cont(env)
        if isinstance(s, ast.Raise):
            if not top or cont is not None:
                self.bad(s, 'raise inside a loop')
            e = s.exc
            if s.cause is None and isinstance(e, ast.Call) and isinstance(e.func, ast.Name) \
                    and e.func.id == self.sig['exception'] and len(e.args) == 1 and not e.keywords \
                    and isinstance(e.args[0], ast.Constant) and e.args[0].value in self.sig['messages']:
                return 'RErr E_OTHER'
            self.bad(s, 'this raise (exception or message text) is not covered by the signature file')
        if isinstance(s, ast.Return):
            if not top or cont is not None:
                self.bad(s, 'return inside a loop')
            e = s.value
            if isinstance(e, ast.Call) and isinstance(e.func, ast.Name) and e.func.id == self.clsname \
                    and len(e.args) == 1 and not e.keywords:
                t, ty = self.expr(e.args[0], env)
                if ty != 'mapping':
                    self.bad(s, 'the constructor is given a %s' % ty)
                return 'ROk (%s)' % t
            self.bad(s, 'only `return cls(mapping)` is in the subset')
        if isinstance(s, ast.For):
            return self.forstmt(s, env, nxt)
        if isinstance(s, ast.Try):
            return self.trystmt(s, env, nxt)
        self.bad(s, '%s is not in the subset' % type(s).__name__)

    def trystmt(self, s, env, nxt):
        if s.orelse or s.finalbody or len(s.handlers) != 1 or len(s.body) != 1 or len(s.handlers[0].body) != 1:
            self.bad(s, 'try form')
        h = s.handlers[0]
        if not (isinstance(h.type, ast.Name) and h.type.id == 'KeyError' and h.name is None):
            self.bad(s, 'only `except KeyError:` is in the subset')
        b, hb = s.body[0], h.body[0]
        for x in (b, hb):
            if not (isinstance(x, ast.Assign) and len(x.targets) == 1 and isinstance(x.targets[0], ast.Subscript)):
                self.bad(x, 'try form')
        d, k, want = self.dict_store(b, env)
        v = b.value
        if not (isinstance(v, ast.Call) and len(v.args) == 1 and not v.keywords and isinstance(v.func, ast.Subscript)
                and isinstance(v.func.value, ast.Name) and env.get(v.func.value.id) == 'pfns' and want == 'tree'):
            self.bad(b, 'only d[k] = fns[k2](v) can be tried')
        k2, tk2 = self.expr(v.func.slice, env)
        a, ta = self.expr(v.args[0], env)
        if tk2 != 'str' or ta != 'str':
            self.bad(b, 'process function key / argument must be strs')
        d2, k3, want2 = self.dict_store(hb, env)
        if d2 != d:
            self.bad(hb, 'the handler stores into another dict')
        t, ty = self.expr(hb.value, env)
        return ('let %s := match py_getfn %s (%s) with\n  | Some f_ => dict_set %s (%s) (f_ (%s))\n'
                '  | None => dict_set %s (%s) (%s)\n  end in\n%s'
                % (d, v.func.value.id, k2, d, k, a, d, k3, self.as_value(hb, t, ty, want2), nxt(env)))

    def forstmt(self, s, env, nxt):
        if s.orelse:
            self.bad(s, 'for-else')
        if not self.loops:
            self.bad(s, 'the signature file names no further loop')
        lname = self.loops.pop(0)
        it = s.iter
        if isinstance(it, ast.Call) and isinstance(it.func, ast.Name) and it.func.id == 'zip' and len(it.args) == 2 \
                and not it.keywords:
            a, ta = self.expr(it.args[0], env)
            b, tb = self.expr(it.args[1], env)
            if ta != 'strs' or tb != 'strs':
                self.bad(s, 'zip of %s and %s' % (ta, tb))
            if not (isinstance(s.target, ast.Tuple) and len(s.target.elts) == 2
                    and all(isinstance(x, ast.Name) for x in s.target.elts)):
                self.bad(s, 'zip target')
            xs = [x.id for x in s.target.elts]
            xty = ['str', 'str']
            itterm = 'combine (%s) (%s)' % (a, b)
            itty = '(text * text)'
        else:
            t, ty = self.expr(it, env)
            if ty not in ELEM or not isinstance(s.target, ast.Name):
                self.bad(s, 'loop over a %s' % ty)
            xs, xty = [s.target.id], [ELEM[ty]]
            itterm, itty = t, TYPES[ELEM[ty]]
        for x in xs:
            if x in env:
                self.bad(s, 'the loop variable %s shadows a name in scope' % x)
        for n in ast.walk(s):
            if isinstance(n, (ast.Break, ast.Return, ast.Raise, ast.While)):
                self.bad(n, '%s inside a loop' % type(n).__name__)
        asg = assigned(s.body)
        state = [n for n in env if n in asg]
        if not state:
            self.bad(s, 'a loop that updates nothing')
        used = names_in(s.body)
        free = []
        for n in env:
            if n in state or n not in used:
                continue
            if env[n] == 'strfn':
                for f in self.strfn[1]:
                    if f not in free and f not in state:
                        free.append(f)
            elif n not in free:
                free.append(n)
        # flags first, in the order of the parameter list, for stable signatures
        order = [n for n, _ in self.params]
        free.sort(key=lambda n: (order.index(n) if n in order else len(order)))
        env2 = dict(env)
        for x, ty in zip(xs, xty):
            env2[x] = ty

        def end(e):
            for n in state:
                if e.get(n) != env[n]:
                    self.bad(s, 'state variable %s changes type in the loop' % n)
            return tup(state)
        body = self.block(list(s.body), env2, top=False, fell=end, cont=end)
        sty = ' * '.join('(%s)' % TYPES[env[n]] for n in state)
        fl = ''.join(' (%s : %s)' % (n, TYPES[env[n]]) for n in free)
        item = 'it_' if len(xs) > 1 else xs[0]
        head = 'let %s := st_ in\n' % pat(state) if len(state) > 1 else ''
        if len(state) == 1:
            stn = state[0]
        else:
            stn = 'st_'
        unpack = "let '(%s) := it_ in\n" % ', '.join(xs) if len(xs) > 1 else ''
        self.defs.append((lname, 'Definition %s%s (%s : %s) (%s : %s) : %s :=\n%s%s%s.'
                          % (lname, fl, stn, sty, item, itty, sty, head, unpack, body)))
        return 'let %s := fold_left (%s%s) (%s) %s in\n%s' % (
            pat(state), lname, ''.join(' ' + n for n in free), itterm, tup(state), nxt(env))

    # ---------------------------------------------------------------- local function chosen by flags
    def is_def_tree(self, s):
        def leaf(b):
            return len(b) == 1 and (isinstance(b[0], ast.FunctionDef) or (isinstance(b[0], ast.If) and self.is_def_tree(b[0])))
        return leaf(s.body) and leaf(s.orelse)

    def def_tree(self, s, env):
        if self.strfn is not None:
            self.bad(s, 'a second local function')
        flags, names = [], set()

        def walk(n):
            if isinstance(n, ast.FunctionDef):
                names.add(n.name)
                a = n.args
                if n.decorator_list or a.vararg or a.kwarg or a.kwonlyargs or a.posonlyargs or a.defaults \
                        or len(a.args) != 1:
                    self.bad(n, 'local function form')
                if len(n.body) != 1 or not isinstance(n.body[0], ast.Return) or n.body[0].value is None:
                    self.bad(n, 'a local function must be a single return')
                x = a.args[0].arg
                if x in env:
                    self.bad(n, 'the parameter %s shadows a name in scope' % x)
                t, ty = self.expr(n.body[0].value, {x: 'str'})
                if ty != 'str':
                    self.bad(n, 'the local function returns a %s' % ty)
                return x, t
            if not (isinstance(n.test, ast.Name) and env.get(n.test.id) == 'bool'):
                self.bad(n, 'the local function must be chosen by bool parameters')
            if n.test.id not in flags:
                flags.append(n.test.id)
            xa, a = walk(n.body[0])
            xb, b = walk(n.orelse[0])
            if xa != xb:
                self.bad(n, 'the variants name their parameter differently')
            return xa, 'if %s then (%s)\n  else (%s)' % (n.test.id, a, b)
        x, body = walk(s)
        if len(names) != 1:
            self.bad(s, 'the variants have different names')
        name = names.pop()
        if name != self.sig['strfn']:
            self.bad(s, 'local function %s is not the one of the signature file' % name)
        order = [n for n, _ in self.params]
        flags.sort(key=order.index)
        self.strfn = (name, flags)
        env[name] = 'strfn'
        self.defs.append((self.sig['strfn_coq'], 'Definition %s %s (%s : text) : text :=\n  %s.'
                          % (self.sig['strfn_coq'], ' '.join('(%s : bool)' % f for f in flags), x, body)))
