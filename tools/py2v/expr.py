"""py2v expressions: typed translation of the supported expression subset to Gallina text."""
import ast

from core import Unsupported, cname, cstr, par, match_pattern


class FnInfo:
    """a translated function: how to call it"""

    def __init__(self, py, coq, params, reads, writes, exc, ret, record, vararg=None, kwarg=None):
        self.py, self.coq, self.params = py, coq, params          # params: [(pyname, type)]
        self.reads, self.writes, self.exc, self.ret = reads, writes, exc, ret
        self.record, self.vararg, self.kwarg = record, vararg, kwarg

    @property
    def pure(self):
        return not self.writes and not self.exc


class Env:
    def __init__(self, mod, vars=None, comps=None, record=None):
        self.mod = mod                  # Module (signature, types, function table)
        self.T = mod.T
        self.vars = dict(vars or {})    # py name -> (coq name, type)
        self.comps = dict(comps or {})  # component name -> current coq variable
        self.record = record            # coq variable of the whole record, or None
        self.guards = set()             # (dict text, key text) known to be present
        self.funopts = {}               # py name -> (dict text, key text, fun type, lambda node)
        self.tables = {}                # py name -> (table name, key text)
        self.structs = {}               # py name of a struct parameter -> struct type name
        self.known = {}                 # py name -> 'some' | 'none': what an enclosing None test established
        self.used_comps = set()
        self.counter = [0]

    def fork(self):
        e = Env(self.mod, self.vars, self.comps, self.record)
        e.guards = set(self.guards)
        e.funopts = dict(self.funopts)
        e.tables = dict(self.tables)
        e.structs = self.structs
        e.known = dict(self.known)
        e.used_comps = self.used_comps
        e.counter = self.counter
        return e

    def fresh(self, base):
        self.counter[0] += 1
        return '%s%d' % (base, self.counter[0])

    def comp(self, name, node):
        """coq text reading a state component"""
        spec = self.mod.components.get(name) or ([x for x in self.mod.slots if x['component'] == name] or [None])[0]
        if spec is None:
            raise Unsupported(node, 'state component %s is not in the signature file' % name)
        self.used_comps.add(name)
        if self.record:
            return '%s %s' % (spec['field'], self.record)
        if name not in self.comps:
            raise Unsupported(node, 'state component %s is not available in this function' % name)
        return self.comps[name]


def arith(env, t):
    """'nat', 'Z' or None: how values of type t are computed with"""
    if t == ('nat',):
        return 'nat'
    if t[0] in env.T.table and env.T.table[t[0]].get('arith') == 'Z':
        return 'Z'
    return None


def coerce2(env, a, ta, b, tb):
    """mixed nat / Z operands: the nat side is injected into Z (Python ints are unbounded)"""
    ka, kb = arith(env, ta), arith(env, tb)
    if ka == 'Z' and kb == 'nat':
        return a, ta, 'Z.of_nat %s' % par(b), ta
    if ka == 'nat' and kb == 'Z':
        return 'Z.of_nat %s' % par(a), tb, b, tb
    return a, ta, b, tb


def is_obj(env, node):
    return isinstance(node, ast.Name) and node.id in env.mod.obj_names and node.id not in env.vars


def getd(env, d, k, vt, node):
    """totalised dictionary read; recorded with its guard status"""
    guarded = (d, k) in env.guards
    env.mod.note_read(node, guarded)
    return 'match dget %s %s with Some v => v | None => %s end' % (par(d), par(k), env.T.default(vt, node))


def truth(env, node):
    """translate an expression used as a condition -> bool text"""
    txt, t = expr(env, node)
    if t == ('bool',):
        return txt
    if t[0] in ('list', 'set', 'dict', 'zdict'):
        return 'negb (lnull %s)' % par(txt)
    if t[0] in env.T.table and 'truth' in env.T.table[t[0]]:
        return env.T.table[t[0]]['truth'].format(par(txt))
    raise Unsupported(node, 'truth value of a %s' % t[0])


def expr(env, node, expect=None):
    """-> (coq text, type)"""
    T = env.T
    # 1. signature patterns (opaque objects, effect constructors)
    for p in env.mod.patterns:
        holes = {}
        if match_pattern(p['ast'], node, holes):
            args = []
            ok = True
            for i, at in enumerate(p['args']):
                h = holes.get('_%d_' % i)
                if h is None:
                    ok = False
                    break
                if isinstance(h, ast.Name) and h.id not in env.vars:
                    ok = False
                    break
                txt, t = expr(env, h)
                if t != at:
                    ok = False
                    break
                args.append(par(txt))
            if ok:
                return p['coq'].format(*args), p['type']
    if isinstance(node, ast.Constant):
        v = node.value
        if isinstance(v, bool):
            return ('true' if v else 'false'), ('bool',)
        if isinstance(v, str):
            return cstr(v), ('str',)
        if isinstance(v, int) and v >= 0:
            if expect and expect[0] in T.table and 'intlit' in T.base(expect):
                return T.base(expect)['intlit'].format(v), expect
            return str(v), ('nat',)
        if v is None:
            if expect and expect[0] == 'option':
                return 'None', expect
            if expect and 'none' in T.base(expect):
                return T.base(expect)['none'], expect
            if expect is None:
                return 'None', ('none',)          # unified with the other branches by the caller
            raise Unsupported(node, 'None where the expected type %s has no None representation' % (expect,))
        raise Unsupported(node, 'constant %r' % (v,))
    if isinstance(node, ast.Name):
        if node.id in env.vars:
            return env.vars[node.id]
        if node.id in env.mod.funs and env.mod.funs[node.id].pure and not env.mod.funs[node.id].reads:
            f = env.mod.funs[node.id]
            if len(f.params) == 1:
                return f.coq, ('fun', f.params[0][1], f.ret)
        raise Unsupported(node, 'name %s is not a local, a parameter or covered by the signature file' % node.id)
    if isinstance(node, ast.List) and not node.elts:
        if expect and expect[0] == 'list':
            return '[]', expect
        raise Unsupported(node, 'empty list literal whose type is not declared in the signature file')
    if isinstance(node, ast.Tuple):
        parts = [expr(env, e) for e in node.elts]
        return '(%s)' % ', '.join(p[0] for p in parts), ('tuple',) + tuple(p[1] for p in parts)
    if isinstance(node, ast.Dict):
        items, vt = [], None
        for k, v in zip(node.keys, node.values):
            if not (isinstance(k, ast.Constant) and isinstance(k.value, str)):
                raise Unsupported(node, 'dict literal with a non-constant key')
            vtxt, t = expr(env, v)
            if vt is not None and t != vt:
                raise Unsupported(node, 'dict literal with values of different types')
            vt = t
            items.append('(%s, %s)' % (cstr(k.value), vtxt))
        if vt is None:
            if expect and expect[0] in ('dict', 'zdict'):
                return '[]', expect
            raise Unsupported(node, 'empty dict literal whose type is not declared in the signature file')
        return '[%s]' % '; '.join(items), ('dict', vt)
    if isinstance(node, ast.UnaryOp) and isinstance(node.op, ast.Not):
        txt, t = expr(env, node.operand)
        if t[0] in ('list', 'set', 'dict'):
            return 'lnull %s' % par(txt), ('bool',)
        return 'negb %s' % par(truth(env, node.operand)), ('bool',)
    if isinstance(node, ast.BoolOp):
        op = ' && ' if isinstance(node.op, ast.And) else ' || '
        return op.join(par(truth(env, v)) for v in node.values), ('bool',)
    if isinstance(node, ast.Compare):
        return compare(env, node)
    if isinstance(node, ast.BinOp):
        return binop(env, node)
    if isinstance(node, ast.IfExp):
        return ifexp(env, node, expect)
    if isinstance(node, ast.Attribute):
        return attribute(env, node)
    if isinstance(node, ast.Subscript):
        return subscript(env, node)
    if isinstance(node, ast.Call):
        return call(env, node)
    if isinstance(node, ast.ListComp):
        return listcomp(env, node)
    if isinstance(node, ast.DictComp):
        return dictcomp(env, node)
    raise Unsupported(node, 'expression %s is outside the supported subset' % type(node).__name__)


def none_test(env, test):
    """`x is None` / `x is not None` on a local -> (py name, is_not) or None"""
    if (isinstance(test, ast.Compare) and len(test.ops) == 1 and isinstance(test.ops[0], (ast.Is, ast.IsNot))
            and isinstance(test.comparators[0], ast.Constant) and test.comparators[0].value is None
            and isinstance(test.left, ast.Name) and test.left.id in env.vars):
        return test.left.id, isinstance(test.ops[0], ast.IsNot)
    return None


def ifexp(env, node, expect):
    nt = none_test(env, node.test)
    if nt:
        name, is_not = nt
        cq, t = env.vars[name]
        if t[0] == 'option':
            inner = env.fork()
            inner.vars[name] = (cq + '_v', t[1])      # narrowing: inside, the name has its non-None type
            some_node, none_node = (node.body, node.orelse) if is_not else (node.orelse, node.body)
            a, ta = expr(inner, some_node, expect)
            b, tb = expr(env, none_node, expect or ta)
            if ta != tb:
                raise Unsupported(node, 'conditional expression with branches of different types')
            return 'match %s with Some %s_v => %s | None => %s end' % (cq, cq, a, b), ta
        if env.T.base(t).get('never_none'):
            env.mod.assume(node, '%s is never None (type %s in the signature file)' % (name, t[0]))
            return expr(env, node.body if is_not else node.orelse, expect)
        raise Unsupported(node, 'None test on a value of type %s' % t[0])
    c = truth(env, node.test)
    a, ta = expr(env, node.body, expect)
    b, tb = expr(env, node.orelse, expect or ta)
    if ta != tb:
        raise Unsupported(node, 'conditional expression with branches of different types')
    return 'if %s then %s else %s' % (c, a, b), ta


NAT_CMP = {ast.Eq: 'Nat.eqb {0} {1}', ast.NotEq: 'negb (Nat.eqb {0} {1})', ast.Lt: 'Nat.ltb {0} {1}',
           ast.LtE: 'Nat.leb {0} {1}', ast.Gt: 'Nat.ltb {1} {0}', ast.GtE: 'Nat.leb {1} {0}'}


def compare(env, node):
    if len(node.ops) != 1:
        raise Unsupported(node, 'chained comparison')
    op, l, r = node.ops[0], node.left, node.comparators[0]
    if isinstance(op, (ast.In, ast.NotIn)):
        ktxt, kt = expr(env, l)
        if is_obj(env, r):
            f = env.mod.funs.get(env.mod.cls + '.__contains__')
            if f is None:
                raise Unsupported(node, '`in` on the profile object before __contains__ is translated')
            res = call_fn(env, f, [(ktxt, kt)], node)
        else:
            dtxt, dt = expr(env, r)
            if dt[0] == 'dict' and kt == ('str',):
                res = 'dmem %s %s' % (par(dtxt), par(ktxt))
            elif dt == ('list', ('str',)) and kt == ('str',):
                res = 'smem %s %s' % (par(ktxt), par(dtxt))
            elif dt[0] == 'zdict' and kt == ('int',):
                res = 'zdmem %s %s' % (par(dtxt), par(ktxt))
            elif dt[0] in ('set', 'list') and dt[1] == ('int',) and kt == ('int',):
                res = 'zmem %s %s' % (par(ktxt), par(dtxt))
            else:
                raise Unsupported(node, '`in` with a %s on the right' % dt[0])
        return (res if isinstance(op, ast.In) else 'negb (%s)' % res), ('bool',)
    if isinstance(op, (ast.Is, ast.IsNot)):
        nt = none_test(env, node)
        if nt and env.vars[nt[0]][1][0] == 'option':
            cq = env.vars[nt[0]][0]
            return 'match %s with Some _ => %s | None => %s end' % (cq, 'true' if nt[1] else 'false',
                                                                     'false' if nt[1] else 'true'), ('bool',)
        if nt and env.vars[nt[0]][1][0] in env.T.table and 'is_none' in env.T.table[env.vars[nt[0]][1][0]]:
            c = env.T.table[env.vars[nt[0]][1][0]]['is_none'].format(par(env.vars[nt[0]][0]))
            return (('negb (%s)' % c) if nt[1] else c), ('bool',)
        raise Unsupported(node, '`is` other than a None test on an optional local')
    a, ta = expr(env, l)
    b, tb = expr(env, r, ta)
    a, ta, b, tb = coerce2(env, a, ta, b, tb)
    if ta != tb:
        raise Unsupported(node, 'comparison between %s and %s' % (ta[0], tb[0]))
    if ta == ('nat',):
        return NAT_CMP[type(op)].format(par(a), par(b)), ('bool',)
    if arith(env, ta) == 'Z' and not isinstance(op, (ast.Eq, ast.NotEq)):
        return NAT_CMP[type(op)].replace('Nat.', 'Z.').format(par(a), par(b)), ('bool',)
    if isinstance(op, (ast.Eq, ast.NotEq)):
        e = '%s %s %s' % (env.T.eqb(ta, node), par(a), par(b))
        return (e if isinstance(op, ast.Eq) else 'negb (%s)' % e), ('bool',)
    raise Unsupported(node, 'comparison %s on %s' % (type(op).__name__, ta[0]))


def binop(env, node):
    a, ta = expr(env, node.left)
    b, tb = expr(env, node.right, ta)
    a, ta, b, tb = coerce2(env, a, ta, b, tb)
    if ta == tb and arith(env, ta) == 'Z' and isinstance(node.op, (ast.Add, ast.Sub, ast.Mult)):
        sym = {ast.Add: '+', ast.Sub: '-', ast.Mult: '*'}[type(node.op)]
        return '(%s %s %s)%%Z' % (par(a), sym, par(b)), ta
    if ta == tb == ('nat',):
        if isinstance(node.op, ast.Add):
            if b == '1':
                return 'S %s' % par(a), ta        # increment rule
            return '%s + %s' % (par(a), par(b)), ta
        if isinstance(node.op, ast.Sub):
            env.mod.assume(node, 'subtraction on nat is truncated at 0 (Python would go negative)')
            return '%s - %s' % (par(a), par(b)), ta
        if isinstance(node.op, ast.Mult):
            return '%s * %s' % (par(a), par(b)), ta
    raise Unsupported(node, 'operator %s on %s and %s' % (type(node.op).__name__, ta[0], tb[0]))


def attribute(env, node):
    if is_obj(env, node.value):
        m = env.mod
        if node.attr in m.components:
            return env.comp(node.attr, node), m.components[node.attr]['type']
        if node.attr in m.constants:
            c = m.constants[node.attr]
            if c['coq'] not in m.defined:
                raise Unsupported(node, 'constant %s is used before it is generated' % node.attr)
            return c['coq'], c['type']
        if node.attr in m.properties:
            f = m.funs.get('%s.%s.getter' % (m.cls, node.attr))
            if f is None:
                raise Unsupported(node, 'property %s read before its getter is translated' % node.attr)
            return call_fn(env, f, [], node), f.ret
        raise Unsupported(node, 'attribute %s of the profile object is not in the signature file' % node.attr)
    if isinstance(node.value, ast.Name) and node.value.id in env.structs:
        key = env.mod.struct_field(env.structs[node.value.id], node.value.id, node.attr, node)
        if key not in env.vars:
            raise Unsupported(node, 'field %s is read before it is assigned' % key)
        return env.vars[key]
    raise Unsupported(node, 'attribute access .%s is not covered by the signature file' % node.attr)


def slot_match(env, node):
    """a two-level slot of the profile object, e.g. obj._profile[k]['call'] -> (slot spec, key node)"""
    for s in env.mod.slots:
        holes = {}
        if match_pattern(s['ast'], node, holes) and is_obj(env, holes['_0_']):
            return s, holes['_1_']
    return None


def subscript(env, node):
    sm = slot_match(env, node)
    if sm:
        s, knode = sm
        k, kt = expr(env, knode)
        if kt != ('str',):
            raise Unsupported(node, 'slot key of type %s' % kt[0])
        d = env.comp(s['component'], node)
        return getd(env, d, k, s['type'][1], node), s['type'][1]
    # a closure table of the profile object: obj._profile[k]
    if isinstance(node.value, ast.Attribute) and is_obj(env, node.value.value) and node.value.attr in env.mod.tables:
        raise Unsupported(node, 'a reaction table may only be bound to a local and then applied')
    d, dt = expr(env, node.value)
    if isinstance(node.slice, ast.Slice):
        sl = node.slice
        if dt[0] != 'list' or sl.step is not None:
            raise Unsupported(node, 'slice of a %s / with a step' % dt[0])
        if sl.lower is None and sl.upper is None:
            return d, dt                        # a[:] is a copy; values are immutable in the model
        if sl.upper is None:
            raise Unsupported(node, 'slice a[s:] without an upper bound')
        n, nt = expr(env, sl.upper)
        if nt != ('nat',):
            raise Unsupported(node, 'slice bound of type %s' % nt[0])
        if sl.lower is None:
            return 'firstn %s %s' % (par(n), par(d)), dt
        lo, lt = expr(env, sl.lower)
        if lt != ('nat',):
            raise Unsupported(node, 'slice bound of type %s' % lt[0])
        return 'slice %s %s %s' % (par(d), par(lo), par(n)), dt
    k, kt = expr(env, node.slice)
    if dt[0] == 'dict' and kt == ('str',):
        return getd(env, d, k, dt[1], node), dt[1]
    if dt[0] == 'list' and kt == ('nat',):
        return 'nth %s %s %s' % (par(k), par(d), env.T.default(dt[1], node)), dt[1]
    if dt[0] == 'zdict' and kt == ('int',):
        env.mod.note_read(node, False)
        return 'match zdget %s %s with Some v => v | None => %s end' % (par(d), par(k), env.T.default(dt[1], node)), dt[1]
    raise Unsupported(node, 'subscript of a %s by a %s' % (dt[0], kt[0]))


def call_fn(env, f, args, node, kw=None):
    """text of a call to a translated function (arguments already translated)"""
    if len(args) != len(f.params):
        raise Unsupported(node, 'call of %s with %d arguments (it takes %d)' % (f.py, len(args), len(f.params)))
    for (a, ta), (pn, pt) in zip(args, f.params):
        if ta != pt:
            raise Unsupported(node, 'argument %s of %s has type %s, expected %s' % (pn, f.py, ta, pt))
    pre = []
    if f.record:
        if not env.record:
            raise Unsupported(node, '%s takes the whole profile record, which this function does not have' % f.py)
        pre.append(env.record)
        env.used_comps.add('<record>')
    else:
        pre = [par(env.comp(c, node)) for c in f.reads]
    return ' '.join([f.coq] + pre + [par(a) for a, _ in args])


def call_args(env, f, node):
    """translate the python arguments of a call to translated function f -> [(text, type)]"""
    out = []
    pos = [a for a in node.args if not isinstance(a, ast.Starred)]
    star = [a for a in node.args if isinstance(a, ast.Starred)]
    npos = len(f.params) - (1 if f.vararg else 0) - (1 if f.kwarg else 0)
    if f.vararg:
        if len(pos) != npos or len(star) > 1:
            raise Unsupported(node, 'call of %s: only f(a.., *rest) is supported for a *args function' % f.py)
    elif star or len(pos) != npos:
        raise Unsupported(node, 'call of %s with %d positional arguments' % (f.py, len(node.args)))
    for a in pos:
        out.append(expr(env, a))
    if f.vararg:
        out.append(expr(env, star[0].value) if star else ('[]', f.params[npos][1]))
    if f.kwarg:
        if len(node.keywords) != 1 or node.keywords[0].arg is not None:
            raise Unsupported(node, 'call of %s: only f(**d) is supported for a **kwargs function' % f.py)
        out.append(expr(env, node.keywords[0].value))
    elif node.keywords:
        raise Unsupported(node, 'keyword arguments in a call of %s' % f.py)
    return out


def resolve_fn(env, fnode):
    """the translated function a call expression refers to, or None"""
    m = env.mod
    if isinstance(fnode, ast.Name) and fnode.id in m.funs and fnode.id not in env.vars:
        return m.funs[fnode.id]
    if isinstance(fnode, ast.Attribute) and is_obj(env, fnode.value):
        return m.funs.get('%s.%s' % (m.cls, fnode.attr))
    return None


def call(env, node):
    fn = node.func
    f = resolve_fn(env, fn)
    if f is not None:
        if not f.pure:
            raise Unsupported(node, 'call of %s (which raises or mutates) inside an expression' % f.py)
        return call_fn(env, f, call_args(env, f, node), node), f.ret
    if isinstance(fn, ast.Name) and fn.id not in env.vars:
        if node.keywords:
            raise Unsupported(node, 'keyword arguments in a call of %s' % fn.id)
        if fn.id == 'len' and len(node.args) == 1:
            a, t = expr(env, node.args[0])
            if t == ('sized',):
                return a, ('nat',)
            if t[0] in ('list', 'set', 'dict', 'zdict'):
                return 'List.length %s' % par(a), ('nat',)
            raise Unsupported(node, 'len of a %s' % t[0])
        if fn.id == 'set' and len(node.args) == 1:
            a, t = expr(env, node.args[0])
            if t == ('list', ('int',)):
                return 'distinct %s' % par(a), ('set', ('int',))
            raise Unsupported(node, 'set() of a %s' % (t,))
        if fn.id == 'sorted' and len(node.args) == 1:
            a, t = expr(env, node.args[0])
            if t == ('list', ('str',)):
                return 'ssorted %s' % par(a), t
            raise Unsupported(node, 'sorted() of a %s' % (t,))
        if fn.id == 'all' and len(node.args) == 1 and isinstance(node.args[0], ast.GeneratorExp):
            g = node.args[0]
            if len(g.generators) != 1 or g.generators[0].ifs or g.generators[0].is_async:
                raise Unsupported(node, 'all() over more than one generator / with a filter')
            it, et = iterable(env, g.generators[0].iter)
            inner = env.fork()
            pat = bind_target(inner, g.generators[0].target, et)
            return 'forallb (fun %s => %s) %s' % (pat, truth(inner, g.elt), par(it)), ('bool',)
        if fn.id in ('list', 'tuple') and len(node.args) == 1:
            a, t = expr(env, node.args[0])
            if t[0] == 'list':
                return a, t
            raise Unsupported(node, 'list() of a %s' % (t,))
        raise Unsupported(node, 'call of unknown function %s' % fn.id)
    if isinstance(fn, ast.Name) and fn.id in env.vars:
        # a local holding a function value
        cq, t = env.vars[fn.id]
        if t[0] == 'fun' and len(node.args) == 1 and not node.keywords:
            a, ta = expr(env, node.args[0])
            if ta != t[1]:
                raise Unsupported(node, 'argument of type %s to a function on %s' % (ta, t[1]))
            return '%s %s' % (cq, par(a)), t[2]
        raise Unsupported(node, 'call of local %s of type %s' % (fn.id, t[0]))
    if isinstance(fn, ast.Attribute) and not node.args and not node.keywords:
        recv, rt = expr(env, fn.value)
        if fn.attr == 'copy' and rt[0] in ('dict', 'list'):
            return recv, rt                      # values are immutable in the model
        if fn.attr == 'items' and rt[0] == 'dict':
            return recv, ('list', ('tuple', ('str',), rt[1]))
        if fn.attr == 'keys' and rt[0] == 'dict':
            return 'dkeys %s' % par(recv), ('list', ('str',))
        raise Unsupported(node, 'method .%s() on a %s' % (fn.attr, rt[0]))
    if isinstance(fn, ast.Subscript) and isinstance(fn.value, ast.Name) and fn.value.id in env.tables:
        # application of an entry of a reaction table bound to a local: profile[state](item)
        tname, key = env.tables[fn.value.id]
        spec = env.mod.tables[tname]
        f = env.mod.funs.get(spec['maker'])
        if f is None:
            raise Unsupported(node, 'reaction table used before %s is translated' % spec['maker'])
        if len(node.args) != 1 or node.keywords:
            raise Unsupported(node, 'reaction table entries take one argument')
        _, at = expr(env, node.args[0])
        if at != f.table_arg:
            raise Unsupported(node, 'reaction applied to a %s, expected %s' % (at, f.table_arg))
        sel, st = expr(env, fn.slice)
        if st != ('str',):
            raise Unsupported(node, 'reaction table indexed by a %s' % st[0])
        args = []
        for pn in f.table_params:
            if pn == '<key>':
                args.append(par(sel))
                continue
            b = spec['bind'][pn]
            if b == '<key>':
                args.append(par(key))
            elif b.startswith('slot:'):
                s = [x for x in env.mod.slots if x['component'] == b[5:]][0]
                args.append(par(getd(env, env.comp(s['component'], node), key, s['type'][1], node)))
            else:
                raise Unsupported(node, 'binding %s of the reaction table' % b)
        env.mod.note_read(node, False)           # a key missing from the table is totalised (see the table rule)
        return ' '.join([f.coq] + args), f.ret
    raise Unsupported(node, 'call of %s is outside the supported subset' % ast.dump(fn)[:60])


def listcomp(env, node):
    if len(node.generators) != 1 or node.generators[0].is_async:
        raise Unsupported(node, 'comprehension with more than one generator')
    g = node.generators[0]
    it, et = iterable(env, g.iter)
    inner = env.fork()
    pat = bind_target(inner, g.target, et)
    src = it
    for c in g.ifs:
        src = 'filter (fun %s => %s) %s' % (pat, truth(inner, c), par(src))
    body, bt = expr(inner, node.elt)
    return 'map (fun %s => %s) %s' % (pat, body, par(src)), ('list', bt)


def dictcomp(env, node):
    """{k: v for pat in it}: insertion in iteration order (a later equal key overwrites)"""
    if len(node.generators) != 1 or node.generators[0].is_async or node.generators[0].ifs:
        raise Unsupported(node, 'dict comprehension with more than one generator or a filter')
    g = node.generators[0]
    it, et = iterable(env, g.iter)
    inner = env.fork()
    pat = bind_target(inner, g.target, et)
    k, kt = expr(inner, node.key)
    v, vt = expr(inner, node.value)
    if kt != ('int',):
        raise Unsupported(node, 'dict comprehension with keys of type %s' % kt[0])
    return 'fold_left (fun d %s => zdset d %s %s) %s []' % (pat, par(k), par(v), par(it)), ('zdict', vt)


def iterable(env, node):
    """what a `for` / comprehension iterates over -> (list text, element type)"""
    if isinstance(node, ast.Call) and isinstance(node.func, ast.Name) and node.func.id == 'range' \
            and 'range' not in env.vars and not node.keywords and len(node.args) in (1, 2):
        args = [expr(env, a) for a in node.args]
        if any(t != ('nat',) for _, t in args):
            raise Unsupported(node, 'range over non-integers')
        if len(args) == 1:
            return 'seq 0 %s' % par(args[0][0]), ('nat',)
        env.mod.assume(node, 'range(a, b) is seq a (b - a): empty when b <= a, as in Python')
        return 'seq %s (%s - %s)' % (par(args[0][0]), par(args[1][0]), par(args[0][0])), ('nat',)
    if isinstance(node, ast.Call) and isinstance(node.func, ast.Name) and node.func.id == 'enumerate' \
            and 'enumerate' not in env.vars and not node.keywords and len(node.args) == 1:
        l, lt = iterable(env, node.args[0])
        return 'combine (seq 0 (List.length %s)) %s' % (par(l), par(l)), ('tuple', ('nat',), lt)
    txt, t = expr(env, node)
    if t[0] == 'dict':
        return 'dkeys %s' % par(txt), ('str',)
    if t[0] in ('list', 'set'):
        return txt, t[1]
    raise Unsupported(node, 'iteration over a %s' % t[0])


def bind_target(env, target, et):
    """bind a loop / comprehension target in env, return the coq binder pattern"""
    if isinstance(target, ast.Name):
        cq = cname(target.id)
        env.vars[target.id] = (cq, et)
        env.funopts.pop(target.id, None)
        return cq
    if isinstance(target, ast.Tuple) and et[0] == 'tuple' and len(target.elts) == len(et) - 1 \
            and all(isinstance(e, ast.Name) for e in target.elts):
        names = []
        for e, t in zip(target.elts, et[1:]):
            env.vars[e.id] = (cname(e.id), t)
            names.append(cname(e.id))
        return "'(%s)" % ', '.join(names)
    raise Unsupported(target, 'loop target other than a name or a flat tuple matching the element type')
