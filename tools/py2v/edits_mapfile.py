"""The edits of MetadataMap.from_file (biom/parse.py) tried against the C18 mapping-file translator tie (docs/C18.md,
"Translator tie: MetadataMap.from_file"): each is applied to a scratch copy of the repository
(cp -r /repo /tmp/c18bgen-repo first; mkdir -p /tmp/c18bgen) and run through the whole
`BIOM_REPO=/tmp/c18bgen-repo VERIF_OUT=/tmp/c18bgen-out ./check C18`; rows go to /tmp/c18bgen/rows.json.  Afterwards run
tools/regen.sh and ./check C18 against /repo again."""
import glob, os, re, shutil, subprocess, sys, json
REPO = '/tmp/c18bgen-repo'
F = '/biom/parse.py'
EDITS = [
 ('no-unquote', 'semantic', 'default strip_f variant no longer removes the quotes',
  "return x.replace('\"', '').strip()", "return x.strip()"),
 ('swap-variants', 'semantic', 'strip_quotes=False: the two variants swapped (strip when stripping is suppressed)',
  "                    # don't remove quotes or spaces\n                    return x\n", "                    # don't remove quotes or spaces\n                    return x.strip()\n"),
 ('header-last', 'semantic', 'every # line replaces the header (the last one wins instead of the first)',
  "                if not header:\n                    header = line", "                if True:\n                    header = line"),
 ('no-pad', 'semantic', 'short rows are not padded (the length test reversed)',
  "if len(tmp_line) < len(header):", "if len(tmp_line) > len(header):"),
 ('keep-hash', 'semantic', 'the # stays in the first header name',
  "                line = line[1:]\n", "                line = line[0:]\n"),
 ('split-space', 'semantic', 'data lines are split on blanks instead of tabs',
  "tmp_line = list(map(strip_f, line.split('\\t')))", "tmp_line = list(map(strip_f, line.split(' ')))"),
 ('data-test', 'semantic', 'the "no data" refusal reversed',
  "        if not mapping_data:\n", "        if mapping_data:\n"),
 ('cols-from-0', 'semantic', 'values are zipped from column 0 (names and values misaligned)',
  "zip(header[1:], vals[1:])", "zip(header[1:], vals[0:])"),
 ('blank-kept', 'semantic', 'white-space lines are not skipped when stripping is suppressed',
  "if not line or (suppress_stripping and not line.strip()):", "if not line:"),
 ('handler-key', 'semantic', 'a column without process function stores its name instead of the value',
  "                except KeyError:\n                    current_d[k] = v", "                except KeyError:\n                    current_d[k] = k"),
 ('rename-tmp', 'preserving', 'local tmp_line renamed', "tmp_line", "fields"),
 ('rename-comp', 'preserving', 'comprehension variable renamed',
  "first_col = [i[0] for i in mapping_data]", "first_col = [row[0] for row in mapping_data]"),
 ('len-flip', 'preserving', 'len(a) < len(b) written len(b) > len(a)',
  "if len(tmp_line) < len(header):", "if len(header) > len(tmp_line):"),
 ('strip-chars', 'reject', 'strip with an argument', "return x.strip()\n", "return x.strip(' ')\n"),
 ('message', 'reject', 'an error message text changed', "No data found in mapping file.", "No rows found in mapping file."),
 ('pinned-init', 'reject', 'the pinned constructor copies its argument', "super().__init__(mapping)", "super().__init__(dict(mapping))"),
 ('set-lt', 'reject', 'the uniqueness test written with <', "if len(first_col) != len(set(first_col)):", "if len(set(first_col)) < len(first_col):"),
]
names = sys.argv[1:]
rows = []
os.makedirs('/tmp/c18bgen', exist_ok=True)
for name, group, what, old, new in EDITS:
    if names and name not in names:
        continue
    shutil.copy('/repo' + F, REPO + F)
    subprocess.run(['tools/regen.sh', 'mapfile'], cwd='/verif', capture_output=True)    # a refusal leaves the /repo text
    s = open(REPO + F).read()
    assert s.count(old) >= 1, name
    open(REPO + F, 'w').write(s.replace(old, new))
    env = dict(os.environ, BIOM_REPO=REPO, VERIF_OUT='/tmp/c18bgen-out')
    shutil.rmtree('/tmp/c18bgen-out', ignore_errors=True)
    p = subprocess.run(['./check', 'C18'], cwd='/verif', env=env, capture_output=True, text=True)
    out = p.stdout + p.stderr
    open('/tmp/c18bgen/%s.log' % name, 'w').write(out)
    diff = subprocess.run(['git', 'diff', '--quiet', '--', 'coq/Gen/MapFileGen.v'], cwd='/verif').returncode
    broke = ''
    rep = {}
    for f in glob.glob('/tmp/c18bgen-out/replays/C18-*.json'):
        try:
            rep = json.load(open(f))
        except Exception:
            pass
    refused = re.findall(r'py2v: REFUSED [^\\\n\']*', out + str(rep.get('broken', '')))
    out2 = out
    if p.returncode and not refused:
        q = subprocess.run('ulimit -v 8000000; timeout 300 coqc -Q . BiomV Gen/MapFileGen.v && timeout 300 coqc -Q . BiomV '
                           'Proofs/GenBridgeMapFileProofs.v && timeout 300 coqc -Q . BiomV Props/C18.v', shell=True,
                           cwd='/verif/coq', capture_output=True, text=True)
        out2 = q.stdout + q.stderr
    m = re.search(r'File "\./(Gen/MapFileGen\.v|Proofs/GenBridgeMapFileProofs\.v|Props/C18\.v)", line (\d+)', out2)
    if m:
        lines = open('/verif/coq/' + m.group(1)).read().split('\n')[:int(m.group(2))]
        for l in reversed(lines):
            mm = re.match(r'\s*(Lemma|Theorem|Example|Definition)\s+(\w+)', l)
            if mm:
                broke = m.group(1) + ': ' + mm.group(2)
                break
    verdict = [l for l in out.split('\n') if l.startswith('VIOLATION') or 'quick:' in l]
    fail = json.dumps([rep.get('case', ''), rep.get('impl', ''), rep.get('oracle', '')])[:400]
    rows.append((name, group, what, 'REFUSES' if refused else 'accepts', 'differs' if diff else 'same text',
                 broke or (refused[0][:160] if refused else 'all proofs check'), ' | '.join(verdict)[:300], p.returncode, fail))
    print(rows[-1], flush=True)
shutil.copy('/repo' + F, REPO + F)
subprocess.run(['tools/regen.sh', 'mapfile'], cwd='/verif', capture_output=True)
old = [r for r in (json.load(open('/tmp/c18bgen/rows.json')) if os.path.exists('/tmp/c18bgen/rows.json') else []) if r[0] not in [x[0] for x in rows]]
json.dump(old + [list(r) for r in rows], open('/tmp/c18bgen/rows.json', 'w'), indent=1)
