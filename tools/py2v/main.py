#!/venv/bin/python
"""py2v: fail-closed translator from a documented subset of Python to Gallina.
usage: main.py [--repo DIR] [--out DIR] [--stdout] [target ...]
Targets are the signature files in tools/py2v/sigs/ (default: all).  The source tree is
BIOM_REPO (default /repo).  Any construct outside the subset, or not covered by the signature
file, gives exit code 2 and NO file is written.  Output is deterministic; a file is rewritten
only when its text changed."""
import glob
import hashlib
import json
import os
import sys

HERE = os.path.dirname(os.path.abspath(__file__))
sys.path.insert(0, HERE)
sys.path.insert(0, os.path.dirname(HERE))

from core import Unsupported            # noqa: E402
from module import Module               # noqa: E402


def load_source(repo, sig):
    path = os.path.join(repo, sig['source'])
    text = open(path).read()
    if sig.get('decython'):
        import decython
        text = decython.decython(text)
    return path, text


def translate(sigpath, repo):
    sig = json.load(open(sigpath))
    path, text = load_source(repo, sig)
    if sig.get('mode') == 'str':        # string-mode targets (tools/py2v/strmode.py); the other targets never get here
        from strmode import StrModule
        m = StrModule(sigpath, text, os.path.basename(sig['source']))
    elif sig.get('mode') == 'mapfile':  # mapping-file target (tools/py2v/mapmode.py)
        from mapmode import MapModule
        m = MapModule(sigpath, text, os.path.basename(sig['source']))
    else:
        m = Module(sigpath, text, os.path.basename(sig['source']))
    out = m.translate()
    return sig, out, hashlib.sha256(open(path, 'rb').read()).hexdigest()


def main(argv):
    repo = os.environ.get('BIOM_REPO', '/repo')
    outroot = os.path.dirname(os.path.dirname(HERE))
    to_stdout = False
    targets = []
    it = iter(argv)
    for a in it:
        if a == '--repo':
            repo = next(it)
        elif a == '--out':
            outroot = next(it)
        elif a == '--stdout':
            to_stdout = True
        else:
            targets.append(a)
    sigs = sorted(glob.glob(os.path.join(HERE, 'sigs', '*.json')))
    if targets:
        sigs = [s for s in sigs if os.path.basename(s)[:-5] in targets]
        if len(sigs) != len(targets):
            print('py2v: unknown target in %s' % targets, file=sys.stderr)
            return 2
    results, failed = [], False
    for s in sigs:
        try:
            sig, out, sha = translate(s, repo)
            results.append((sig, out, sha))
        except Unsupported as e:
            src = json.load(open(s))['source']
            print('py2v: REFUSED %s: %s' % (src, e), file=sys.stderr)
            failed = True
        except (OSError, SyntaxError, ValueError, KeyError) as e:
            print('py2v: REFUSED %s: %s: %s' % (os.path.basename(s), type(e).__name__, e), file=sys.stderr)
            failed = True
    # group by output file (several targets may contribute sections to none; one file per target here)
    for sig, out, sha in results:
        if to_stdout:
            sys.stdout.write(out)
            continue
        path = os.path.join(outroot, sig['output'])
        old = open(path).read() if os.path.exists(path) else None
        if old != out:
            os.makedirs(os.path.dirname(path), exist_ok=True)
            tmp = path + '.tmp'
            open(tmp, 'w').write(out)
            os.replace(tmp, path)
            state = 'written'
        else:
            state = 'unchanged'
        print('py2v: %s -> %s %s (source sha256 %s)' % (sig['source'], sig['output'], state, sha))
    return 2 if failed else 0


if __name__ == '__main__':
    sys.exit(main(sys.argv[1:]))
