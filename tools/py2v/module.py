"""py2v module driver: one python source + one signature file -> one generated .v text."""
import ast
import hashlib
import json
import os

from core import Unsupported, Types, parse_type, cname, cstr, par, indent
from expr import Env, FnInfo, expr, truth, none_test
from stmt import Ctx, block, effects, uses_name


class Module:
    def __init__(self, sigpath, src_text, src_name):
        self.sig = sig = json.load(open(sigpath))
        self.src_name = src_name
        self.tree = ast.parse(src_text)
        self.T = Types(sig['types'])
        self.out = []                # emitted vernacular items
        self.defined = set()
        self.funs = {}               # py qualified name -> FnInfo
        self.assumptions = []        # (line, text)
        self.reads = []              # (line, guarded)
        obj = sig.get('object', {})
        self.cls = obj.get('class', '')
        self.obj_names = obj.get('names', [])
        self.record = obj.get('record')
        self.components = {k: dict(v, type=parse_type(v['type'])) for k, v in obj.get('components', {}).items()}
        self.slots = [dict(s, ast=ast.parse(s['pattern'], mode='eval').body, type=parse_type(s['type']))
                      for s in obj.get('slots', [])]
        self.comp_order = list(self.components) + [s['component'] for s in self.slots]
        self.comp_names = set(self.comp_order)
        self.constants = {k: dict(v, type=parse_type(v['type'])) for k, v in obj.get('constants', {}).items()}
        self.properties = obj.get('properties', [])
        self.tables = obj.get('tables', {})
        self.exceptions = sig.get('exceptions', {})
        self.arity_error = sig.get('arity_error')
        self.raise_as_return_names = set()
        self.patterns = [dict(p, ast=ast.parse(p['pattern'], mode='eval').body, type=parse_type(p['type']),
                              args=[parse_type(a) for a in p['args']]) for p in sig.get('patterns', [])]
        self._loops = {}
        self._whiles = {}
        self.externals = sig.get('externals', {})
        self.oracles = [dict(o, ast=ast.parse(o['pattern'], mode='eval').body, ret=parse_type(o['ret']),
                             args=[parse_type(a) for a in o['args']]) for o in sig.get('oracles', [])]
        self.structs = {k: {f: parse_type(t) for f, t in v['fields'].items()} for k, v in sig.get('structs', {}).items()}
        self.struct_alias = {k: v.get('alias', {}) for k, v in sig.get('structs', {}).items()}
        self.struct_out = {k: v.get('out_only', []) for k, v in sig.get('structs', {}).items()}
        self.aliases = []
        self._cur = None
        # index of the source
        self.top = {}        # name -> node (functions, classes, assignments)
        self.methods = {}
        self.consts = {}     # module-level string constants
        for n in self.tree.body:
            if isinstance(n, ast.FunctionDef):
                self.top[n.name] = n
            elif isinstance(n, ast.ClassDef):
                self.top[n.name] = n
                for m in n.body:
                    if isinstance(m, ast.FunctionDef):
                        q = '%s.%s' % (n.name, m.name)
                        decs = [ast.unparse(d) for d in m.decorator_list]
                        if decs == ['property']:
                            q += '.getter'
                        elif decs == ['%s.setter' % m.name]:
                            q += '.setter'
                        elif decs:
                            q += '.decorated'
                        self.methods[q] = m
            elif isinstance(n, ast.Assign) and len(n.targets) == 1 and isinstance(n.targets[0], ast.Name) \
                    and isinstance(n.value, ast.Constant) and isinstance(n.value.value, str):
                self.consts[n.targets[0].id] = n.value.value

    # ------------------------------------------------------------ bookkeeping
    def comp_type(self, c):
        if c in self.components:
            return self.components[c]['type']
        return [s for s in self.slots if s['component'] == c][0]['type']

    def comp_var(self, c):
        if c in self.components:
            return self.components[c]['var']
        return [s for s in self.slots if s['component'] == c][0]['var']

    def struct_field(self, sname, var, attr, node):
        attr = self.struct_alias[sname].get(attr, attr)
        if attr not in self.structs[sname]:
            raise Unsupported(node, 'field %s of %s is not in the signature file' % (attr, sname))
        return '%s.%s' % (var, attr)

    def assume(self, node, text):
        item = (getattr(node, 'lineno', 0), text)
        if item not in self.assumptions:
            self.assumptions.append(item)

    def note_read(self, node, guarded):
        self.reads.append((getattr(node, 'lineno', 0), guarded))

    def loop_name(self, node):
        names = self._cur.get('loops', [])
        i = self._loops.get(id(self._cur), 0)
        self._loops[id(self._cur)] = i + 1
        if i >= len(names):
            raise Unsupported(node, 'loop number %d of %s has no name in the signature file' % (i + 1, self._cur['py']))
        return names[i]

    def ref(self, node):
        end = getattr(node, 'end_lineno', node.lineno)
        return '%s:%d-%d' % (self.src_name, node.lineno, end) if end != node.lineno else '%s:%d' % (self.src_name, node.lineno)

    def emit_def(self, name, params, rtype, body, node, keyword='Definition'):
        if name in self.defined:
            raise Unsupported(node, 'coq name %s is generated twice' % name)
        self.defined.add(name)
        self.out.append('(* %s *)\n%s %s%s : %s :=\n%s.' % (self.ref(node), keyword, name, params, rtype, indent(body, 2)))

    def find(self, q, node_hint=0):
        n = self.top.get(q) if '.' not in q else self.methods.get(q)
        if n is None and q.count('.') == 2:
            # a function defined inside a method: Class.method.inner
            outer = self.methods.get(q.rsplit('.', 1)[0])
            inner = [x for x in (outer.body if outer is not None else []) if isinstance(x, ast.FunctionDef) and x.name == q.rsplit('.', 1)[1]]
            n = inner[0] if len(inner) == 1 else None
        if n is None or not isinstance(n, ast.FunctionDef):
            raise Unsupported(node_hint, 'function %s named by the signature file is not in the source' % q)
        return n

    # ------------------------------------------------------------ emitters
    def params_of(self, entry, node, method):
        """check the python parameter list against the signature file -> [(py, type)], vararg, kwarg"""
        a = node.args
        names = [x.arg for x in a.args]
        if method:
            if not names or names[0] != 'self':
                raise Unsupported(node, 'method without self')
            names = names[1:]
        if a.kwonlyargs or a.posonlyargs or a.defaults or a.kw_defaults:
            raise Unsupported(node, 'parameter defaults / keyword-only parameters of %s' % entry['py'])
        want = entry.get('params', {})
        if names != list(want):
            raise Unsupported(node, 'parameters of %s are %s; the signature file says %s' % (entry['py'], names, list(want)))
        ps = [(n, ('struct', want[n][7:]) if want[n].startswith('struct ') else parse_type(want[n])) for n in names]
        if method and entry.get('self'):
            ps.insert(0, ('self', ('struct', entry['self'])))     # the receiver as a struct of the fields the method touches
        va = kw = None
        if a.vararg:
            if 'varargs' not in entry or list(entry['varargs']) != [a.vararg.arg]:
                raise Unsupported(node, '*%s of %s is not in the signature file' % (a.vararg.arg, entry['py']))
            va = a.vararg.arg
            ps.append((va, parse_type(entry['varargs'][va])))
        elif 'varargs' in entry:
            raise Unsupported(node, '%s has no *args any more' % entry['py'])
        if a.kwarg:
            if 'kwargs' not in entry or list(entry['kwargs']) != [a.kwarg.arg]:
                raise Unsupported(node, '**%s of %s is not in the signature file' % (a.kwarg.arg, entry['py']))
            kw = a.kwarg.arg
            ps.append((kw, parse_type(entry['kwargs'][kw])))
        elif 'kwargs' in entry:
            raise Unsupported(node, '%s has no **kwargs any more' % entry['py'])
        return ps, va, kw

    def new_env(self, entry, ps):
        env = Env(self)
        if entry.get('state') == 'record':
            env.record = self.record['var']
        else:
            env.comps = {c: self.comp_var(c) for c in self.comp_order}
        for n, t in ps:
            if t[0] == 'struct':
                env.structs[n] = t[1]
                for f, ft in self.structs[t[1]].items():
                    if f not in self.struct_out[t[1]]:            # out_only fields are written before they are read
                        env.vars['%s.%s' % (n, f)] = ('%s_%s' % (cname(n), cname(f)), ft)
            else:
                env.vars[n] = (cname(n), t)
        self.aliases = []
        return env

    def coq_params(self, ps):
        out = []
        for n, t in ps:
            if t[0] == 'struct':
                out += [('%s_%s' % (cname(n), cname(f)), self.T.coq(ft, False)) for f, ft in self.structs[t[1]].items()
                        if f not in self.struct_out[t[1]]]
            else:
                out.append((cname(n), self.T.coq(t, False)))
        return out

    def result_type(self, ctx):
        R = self.T.coq(ctx.ret, False)
        S = [self.T.coq(self.comp_type(c), False) for c in ctx.state]
        S = S[0] if len(S) == 1 else ' * '.join(S)
        if ctx.state and ctx.exc:
            return '%s * res %s' % (S, R)
        if ctx.exc:
            return 'res %s' % R
        if ctx.state:
            return S if ctx.ret == ('unit',) else '%s * %s' % (S, R)
        return self.T.coq(ctx.ret)

    def state_params(self, env, entry):
        if entry.get('state') == 'record':
            used = bool(env.used_comps)
            return ([(self.record['var'], self.record['type'])] if used else []), []
        reads = [c for c in self.comp_order if c in env.used_comps]
        return [(self.comp_var(c), self.T.coq(self.comp_type(c), False)) for c in reads], reads

    def do_function(self, entry):
        q = entry['py']
        node = self.find(q)
        # Class.method, Class.prop.getter / Class.prop.setter are methods; Class.method.inner is a plain inner function
        method = '.' in q and (q.count('.') < 2 or q.split('.')[-1] in ('getter', 'setter'))
        want_dec = {'getter': ['property'], 'setter': [q.split('.')[-2] + '.setter']}.get(q.split('.')[-1], []) if method else []
        if [ast.unparse(d) for d in node.decorator_list] != want_dec:
            raise Unsupported(node, 'decorators of %s' % q)
        ps, va, kw = self.params_of(entry, node, method)
        self._cur = entry
        env = self.new_env(entry, ps)
        for n_, t_ in entry.get('inputs', {}).items():      # oracle lists and call logs: inputs of the model, not of the code
            env.vars[n_] = (cname(n_), parse_type(t_))
        has_while = any(isinstance(x, ast.While) for x in ast.walk(node))
        if has_while:
            env.vars['fuel_ok'] = ('fuel_ok', ('bool',))
        if 'result' in entry:
            def rtype(r):
                if r in env.vars:
                    return env.vars[r][1]
                v_, f_ = r.split('.')
                return self.structs[env.structs[v_]][f_]
            ret = ('tuple',) + tuple(rtype(r) for r in entry['result'])     # the final values of these fields
        else:
            ret = parse_type(entry['ret'])
        eff = effects(self, node.body, env)
        if entry.get('state') == 'record' and eff.writes:
            raise Unsupported(node, '%s writes %s but the signature file passes it the read-only record' % (q, eff.writes))
        ctx = Ctx(self, [c for c in self.comp_order if c in eff.writes], eff.exc, ret)
        if len(ctx.state) > 1:
            raise Unsupported(node, '%s writes more than one state component' % q)
        if 'result' in entry:
            def tail(e):
                for r in entry['result']:
                    if r not in e.vars:
                        raise Unsupported(node, 'result %s is not assigned on every path' % r)
                vals = [e.vars[r] for r in entry['result']]
                if ('tuple',) + tuple(t for _, t in vals) != ret:
                    raise Unsupported(node, 'result %s has type %s, the signature file says %s' % (entry['result'], [t for _, t in vals], ret))
                for local, field, at in self.aliases:
                    # a local bound to a struct field is an alias in Python: fine only if the field is
                    # reassigned from somewhere before the end (then the alias never shows)
                    if not any(isinstance(n, ast.Attribute) and isinstance(n.ctx, ast.Store) and isinstance(n.value, ast.Name)
                               and '%s.%s' % (n.value.id, self.struct_alias[e.structs[n.value.id]].get(n.attr, n.attr)) == field
                               for n in ast.walk(node)):
                        raise Unsupported(at, 'local %s aliases %s, which is written through the alias but never reassigned' % (local, field))
                return ctx.ret_(e, '(%s)' % ', '.join(v for v, _ in vals), node)
        else:
            tail = lambda e: ctx.end(e, node)
        body = block(node.body, env, ctx, tail)
        sp, reads = self.state_params(env, entry)
        for w in ctx.state:
            if w not in reads:
                raise Unsupported(node, 'internal: written component %s is not a parameter' % w)
        extra = [(cname(n_), self.T.coq(parse_type(t_), False)) for n_, t_ in entry.get('inputs', {}).items()]
        params = ''.join(' (%s : %s)' % (n, t) for n, t in sp + self.coq_params(ps) + extra)
        if has_while:
            body = 'let fuel_ok := true in\n' + body
        self.emit_def(entry['coq'], params, self.result_type(ctx), body, node)
        self.funs[q] = FnInfo(q, entry['coq'], ps, reads, list(ctx.state), ctx.exc, ret,
                              entry.get('state') == 'record' and bool(sp), va, kw)

    def do_loop_body(self, entry):
        """only the body of one loop nested in a function that is otherwise not translated"""
        node = self.find(entry['py'])
        loop = node
        for i in entry['loop_path']:
            fors = [x for x in loop.body if isinstance(x, ast.For)]
            if i >= len(fors):
                raise Unsupported(loop, 'loop path %s of %s no longer exists' % (entry['loop_path'], entry['py']))
            loop = fors[i]
        self._cur = entry
        env = Env(self)
        for n, t in entry['locals'].items():
            env.vars[n] = (cname(n), parse_type(t))
        from stmt import for_stmt, effects, by_first_use
        if 'fold' not in entry:
            for_stmt(loop, env, Ctx(self, [], False, ('unit',)), lambda e: 'tt')
            return
        # also emit the loop itself: a definition over the variables it reads, returning its state
        f = entry['fold']
        be = effects(self, loop.body, env)
        state = by_first_use([v for v in env.vars if v in be.assigned], loop.body)
        holder = {}

        def tail(e):
            names = [e.vars[v][0] for v in state]
            holder['types'] = [e.vars[v][1] for v in state]
            return names[0] if len(names) == 1 else '(%s)' % ', '.join(names)
        term = for_stmt(loop, env, Ctx(self, [], False, ('unit',)), tail)
        for v in f['params']:
            if v not in env.vars:
                raise Unsupported(loop, 'fold parameter %s is not a declared local' % v)
        params = ''.join(' (%s : %s)' % (env.vars[v][0], self.T.coq(env.vars[v][1], False)) for v in f['params'])
        rty = ' * '.join(self.T.coq(t, False) for t in holder['types'])
        self.emit_def(f['coq'], params, rty, term, loop)

    def do_prefix(self, entry):
        """the first statements of a function that is otherwise not translated, as a function of its
        parameters returning the value one local has after them"""
        node = self.find(entry['py'])
        body = [x for x in node.body if not (isinstance(x, ast.Expr) and isinstance(x.value, ast.Constant))]
        stmts = body[:entry['statements']]
        self._cur = entry
        env = Env(self)
        ps = [(n, parse_type(t)) for n, t in entry['params'].items()]
        for n, t in ps:
            env.vars[n] = (cname(n), t)
        argnames = [a.arg for a in node.args.args if a.arg != 'self']
        for n, _ in ps:
            if n not in argnames:
                raise Unsupported(node, 'parameter %s of %s named by the signature file no longer exists' % (n, entry['py']))
        from stmt import effects
        eff = effects(self, stmts, env)
        ret = parse_type(entry['ret'])
        ctx = Ctx(self, [], eff.exc, ret)

        def tail(e):
            cq, t = e.vars[entry['value']]
            if ret[0] == 'option' and t == ('none',):
                t = ret
            elif ret[0] == 'option' and t == ret[1]:
                cq, t = 'Some %s' % par(cq), ret            # None | T is option T
            if t != ret:
                raise Unsupported(node, 'after the prefix %s has type %s, the signature file says %s' % (entry['value'], t, ret))
            return ctx.ret_(e, cq, node)
        term = block(stmts, env, ctx, tail)
        params = ''.join(' (%s : %s)' % (cname(n), self.T.coq(t, False)) for n, t in ps)
        self.emit_def(entry['coq'], params, self.result_type(ctx), term, stmts[0] if stmts else node)

    def do_stmt(self, entry):
        """the one top-level statement of an otherwise untranslated method that assigns a given field of
        the receiver, as a function of the named parameters returning the field's value"""
        node = self.find(entry['py'])
        recv, field = entry['assigns'].split('.')
        hits = [x for x in node.body
                if any(isinstance(n, ast.Attribute) and isinstance(n.ctx, ast.Store) and isinstance(n.value, ast.Name)
                       and n.value.id == recv and n.attr == field for n in ast.walk(x))]
        if len(hits) != 1:
            raise Unsupported(node, '%d top-level statements of %s assign %s (exactly one expected)' % (len(hits), entry['py'], entry['assigns']))
        self._cur = entry
        argnames = [a.arg for a in node.args.args]
        ps = [(n, parse_type(t)) for n, t in entry['params'].items()]
        for n, _ in ps:
            if n not in argnames:
                raise Unsupported(node, 'parameter %s of %s named by the signature file no longer exists' % (n, entry['py']))
        env = self.new_env({'state': None}, [(recv, ('struct', entry['self']))] + ps)
        env.comps = {}
        from stmt import effects
        eff = effects(self, hits, env)
        ret = self.structs[entry['self']][field]
        ctx = Ctx(self, [], eff.exc, ret)

        def tail(e):
            if entry['assigns'] not in e.vars:
                raise Unsupported(hits[0], '%s is not assigned on every path' % entry['assigns'])
            cq, t = e.vars[entry['assigns']]
            if t != ret:
                raise Unsupported(hits[0], '%s has type %s, the signature file says %s' % (entry['assigns'], t, ret))
            return ctx.ret_(e, cq, node)
        term = block(hits, env, ctx, tail)
        params = ''.join(' (%s : %s)' % x for x in self.coq_params([(recv, ('struct', entry['self']))] + ps))
        self.emit_def(entry['coq'], params, self.result_type(ctx), term, hits[0])

    def do_const(self, entry):
        """class-level constant: frozenset / list / tuple of string constants"""
        cls, attr = entry['py'].split('.')
        cnode = self.top.get(cls)
        found = None
        for m in (cnode.body if isinstance(cnode, ast.ClassDef) else []):
            if isinstance(m, ast.Assign) and len(m.targets) == 1 and isinstance(m.targets[0], ast.Name) and m.targets[0].id == attr:
                found = m
        if found is None:
            raise Unsupported(0, 'class constant %s is not in the source' % entry['py'])
        v = found.value
        if isinstance(v, ast.Call) and isinstance(v.func, ast.Name) and v.func.id in ('frozenset', 'set', 'list', 'tuple') \
                and len(v.args) == 1 and not v.keywords:
            v = v.args[0]
        if not isinstance(v, (ast.List, ast.Tuple, ast.Set)) or not all(isinstance(e, ast.Constant) and isinstance(e.value, str) for e in v.elts):
            raise Unsupported(found, 'constant %s is not a collection of string constants' % entry['py'])
        self.defined.add(entry['coq'])
        self.const_values = getattr(self, 'const_values', {})
        self.const_values[entry['coq']] = [e.value for e in v.elts]
        self.out.append('(* %s *)\nDefinition %s : list string := [%s].'
                        % (self.ref(found), entry['coq'], '; '.join(cstr(e.value) for e in v.elts)))

    def do_table(self, entry):
        """a function returning a dict literal of string -> function; emitted as the function
        (parameters, key) |-> the selected entry applied to the table argument"""
        node = self.find(entry['py'])
        ps, _, _ = self.params_of(entry, node, False)
        body = [s for s in node.body if not (isinstance(s, ast.Expr) and isinstance(s.value, ast.Constant))]
        if len(body) != 1 or not isinstance(body[0], ast.Return) or not isinstance(body[0].value, ast.Dict):
            raise Unsupported(node, '%s is no longer a single return of a dict literal' % entry['py'])
        ret = parse_type(entry['ret'])
        argt = parse_type(entry['table_arg'])
        self._cur = entry
        env = self.new_env({'state': None}, ps)
        env.comps = {}
        keyvar = entry['key_name']

        def apply(v):
            if isinstance(v, ast.Lambda):
                a = v.args
                if len(a.args) != 1 or a.vararg or a.kwarg or a.defaults or a.kwonlyargs:
                    raise Unsupported(v, 'table entry lambda with other than one positional parameter')
                if uses_name([ast.Expr(v.body)], a.args[0].arg):
                    raise Unsupported(v, 'table entry lambda that uses its argument')
                txt, t = expr(env, v.body, ret)
                if t != ret:
                    raise Unsupported(v, 'table entry of type %s, expected %s' % (t, ret))
                return txt
            if isinstance(v, ast.Name) and v.id in env.vars:
                cq, t = env.vars[v.id]
                tmpl = self.T.base(t).get('apply') if t[0] in self.T.table else None
                if tmpl is None:
                    raise Unsupported(v, 'a value of type %s used as a table entry cannot be applied' % t[0])
                scope = {k: vv[0] for k, vv in env.vars.items()}
                try:
                    return tmpl.format(f=cq, **scope)
                except KeyError as e:
                    raise Unsupported(v, 'apply rule of type %s needs %s in scope' % (t[0], e))
            if isinstance(v, ast.IfExp):
                nt = none_test(env, v.test)
                if nt and self.T.base(env.vars[nt[0]][1]).get('never_none'):
                    self.assume(v, '%s is never None (type %s in the signature file)' % (nt[0], env.vars[nt[0]][1][0]))
                    return apply(v.body if nt[1] else v.orelse)
                return 'if %s then %s else %s' % (truth(env, v.test), apply(v.body), apply(v.orelse))
            raise Unsupported(v, 'table entry %s is outside the supported subset' % type(v).__name__)

        d = body[0].value
        term = self.T.default(ret, node)
        seen = set()
        for k, v in reversed(list(zip(d.keys, d.values))):
            if not (isinstance(k, ast.Constant) and isinstance(k.value, str)) or k.value in seen:
                raise Unsupported(d, 'table key that is not a distinct string constant')
            seen.add(k.value)
            term = 'if String.eqb %s %s then %s\nelse %s' % (keyvar, cstr(k.value), apply(v), term)
        cps = []
        for p in entry['coq_params']:
            if p == '<key>':
                cps.append((keyvar, 'string'))
            else:
                cps.append((cname(p), self.T.coq(dict(ps)[p], False)))
        self.emit_def(entry['coq'], ''.join(' (%s : %s)' % x for x in cps), self.T.coq(ret), term, node)
        f = FnInfo(entry['py'], entry['coq'], ps, [], [], False, ret, False)
        f.table_params, f.table_arg, f.table_keys = entry['coq_params'], argt, [k.value for k in d.keys]
        self.funs[entry['py']] = f

    def do_contextmanager(self, entry):
        """generator with a single yield, split into enter / exit_normal / exit_exception"""
        node = self.find(entry['py'])
        if [ast.unparse(d) for d in node.decorator_list] != ['contextmanager']:
            raise Unsupported(node, '%s is not decorated with exactly @contextmanager' % entry['py'])
        ps, va, kw = self.params_of(entry, node, False)
        body = [s for s in node.body if not (isinstance(s, ast.Expr) and isinstance(s.value, ast.Constant))]

        def is_yield(s):
            return isinstance(s, ast.Expr) and isinstance(s.value, ast.Yield) and s.value.value is None

        nyield = sum(isinstance(n, (ast.Yield, ast.YieldFrom)) for n in ast.walk(node))
        if nyield != 1:
            raise Unsupported(node, '%s has %d yields (exactly one bare yield is supported)' % (entry['py'], nyield))
        pre, post, final, in_try = None, None, [], False
        for i, s in enumerate(body):
            if is_yield(s):
                pre, post = body[:i], body[i + 1:]
                break
            if isinstance(s, ast.Try) and any(isinstance(n, ast.Yield) for n in ast.walk(s)):
                if s.handlers or s.orelse:
                    raise Unsupported(s, 'try with except/else around the yield')
                j = [k for k, t in enumerate(s.body) if is_yield(t)]
                if len(j) != 1:
                    raise Unsupported(s, 'the yield must be a statement directly in the try body')
                pre = body[:i] + s.body[:j[0]]
                post = s.body[j[0] + 1:] + s.finalbody + body[i + 1:]
                final, in_try = s.finalbody, True
                break
        if pre is None:
            raise Unsupported(node, 'the yield is not a top-level statement or directly inside try/finally')
        for s in pre + post:
            if any(isinstance(n, (ast.Try, ast.Yield)) for n in ast.walk(s)):
                raise Unsupported(s, 'further try / yield in the generator')
        self._cur = entry
        env0 = self.new_env(entry, ps)
        eff_all = effects(self, pre + post, env0)
        state = [c for c in self.comp_order if c in eff_all.writes]
        if len(state) > 1:
            raise Unsupported(node, 'generator writing more than one state component')
        # the frame: locals bound before the yield and used after it
        env = self.new_env(entry, ps)
        eff = effects(self, pre, env)
        ctx = Ctx(self, [c for c in state if c in eff.writes], eff.exc, None)
        frame = {}

        def enter_tail(e):
            live = [v for v in e.vars if uses_name(post, v)]
            if not live:
                raise Unsupported(node, 'nothing is saved across the yield (an empty frame is not supported)')
            frame['vars'] = [(v, e.vars[v][1]) for v in live]
            names = [e.vars[v][0] for v in live]
            ctx.ret = frame['vars'][0][1] if len(live) == 1 else ('tuple',) + tuple(t for _, t in frame['vars'])
            return ctx.ret_(e, names[0] if len(names) == 1 else '(%s)' % ', '.join(names), node)
        ctx.ret = ('unit',)
        term = block(pre, env, ctx, enter_tail)
        sp, reads = self.state_params(env, entry)
        params = ''.join(' (%s : %s)' % (n, t) for n, t in sp + [(cname(n), self.T.coq(t, False)) for n, t in ps])
        self.emit_def(entry['coq'] + '_enter', params, self.result_type(ctx), term, node)
        # the two exits take the state and the frame; both are given the effect class of the
        # whole generator so that callers can treat them uniformly
        for which, stmts in (('exit_normal', post), ('exit_exception', final if in_try else [])):
            env = self.new_env(entry, frame['vars'])
            for c in state:
                env.comp(c, node)
            cx = Ctx(self, state, True, ('unit',))
            if which == 'exit_normal':
                tail = lambda e: cx.ret_(e, 'tt', node)
                extra = ''
            else:
                tail = lambda e: cx.raise_(e, 'exc', node)     # the exception in flight propagates
                extra = ' (exc : exn)'
            term = block(stmts, env, cx, tail)
            sp, _ = self.state_params(env, entry)
            params = ''.join(' (%s : %s)' % (n, t) for n, t in sp + [(cname(n), self.T.coq(t, False)) for n, t in frame['vars']])
            self.emit_def('%s_%s' % (entry['coq'], which), params + extra, self.result_type(cx), term, node)

    def do_registrations(self, entry):
        """module-level calls obj.register(kind, MSG, state, test, exception=E) in source order"""
        objname, meth = entry['call'].split('.')
        regs = []
        for n in self.tree.body:
            if isinstance(n, ast.Expr) and isinstance(n.value, ast.Call) and isinstance(n.value.func, ast.Attribute) \
                    and isinstance(n.value.func.value, ast.Name) and n.value.func.value.id == objname:
                if n.value.func.attr != meth:
                    raise Unsupported(n, 'module-level call %s.%s' % (objname, n.value.func.attr))
                regs.append(n)
        if not regs:
            raise Unsupported(0, 'no module-level %s calls' % entry['call'])
        kinds, msgs, rows = [], [], []
        for n in regs:
            c = n.value
            kws = {k.arg: ast.unparse(k.value) for k in c.keywords}
            if kws != entry['require_kw'] or len(c.args) != 4:
                raise Unsupported(n, 'registration with arguments other than (kind, MSG, state, test, %s)' % entry['require_kw'])
            k, msg, st, test = c.args
            if not (isinstance(k, ast.Constant) and isinstance(k.value, str) and isinstance(st, ast.Constant) and isinstance(st.value, str)):
                raise Unsupported(n, 'registration whose kind / state is not a string constant')
            if not (isinstance(msg, ast.Name) and msg.id in self.consts):
                raise Unsupported(n, 'registration whose message is not a module-level string constant')
            if not (isinstance(test, ast.Name) and test.id in self.funs and self.funs[test.id].pure):
                raise Unsupported(n, 'registration whose test is not a translated pure function')
            f = self.funs[test.id]
            if [t for _, t in f.params] != [parse_type(entry['test_arg'])] or f.ret != ('bool',):
                raise Unsupported(n, 'test %s does not have type %s -> bool' % (test.id, entry['test_arg']))
            if st.value not in self.const_values[entry['valid']]:
                raise Unsupported(n, 'default state %r is not one of %s' % (st.value, entry['valid']))
            kinds.append(k.value)
            msgs.append(self.consts[msg.id])
            rows.append((k.value, st.value, f.coq))
        if len(set(kinds)) != len(kinds) or len(set(msgs)) != len(msgs):
            raise Unsupported(regs[0], 'kinds / messages of the registrations are not pairwise distinct')
        first, last = regs[0], regs[-1]
        span = ast.Module(body=[], type_ignores=[])
        span.lineno, span.end_lineno = first.lineno, last.end_lineno
        self.defined |= {entry['registry'], entry['default_state']}
        self.out.append('(* %s *)\nDefinition %s : dict (%s -> bool) :=\n  [%s].'
                        % (self.ref(span), entry['registry'], self.T.coq(parse_type(entry['test_arg'])),
                           ';\n   '.join('(%s, %s)' % (cstr(k), f) for k, _, f in rows)))
        self.out.append('Definition %s : dict string :=\n  [%s].'
                        % (entry['default_state'], ';\n   '.join('(%s, %s)' % (cstr(k), cstr(s)) for k, s, _ in rows)))

    # ------------------------------------------------------------ whole module
    def check_coverage(self):
        """every top-level statement of the source must be accounted for"""
        sig = self.sig
        if sig.get('coverage') == 'listed-functions-only':
            return
        covered = {e['py'] for e in sig['emit'] if 'py' in e}
        pinned = sig.get('pinned', {})
        for n in self.tree.body:
            if isinstance(n, ast.Expr) and isinstance(n.value, ast.Constant):
                continue
            if isinstance(n, (ast.Import, ast.ImportFrom)):
                txt = ast.unparse(n)
                if txt not in sig.get('imports', []):
                    raise Unsupported(n, 'import statement not listed in the signature file')
                continue
            if isinstance(n, ast.FunctionDef):
                if n.name not in covered and n.name not in pinned:
                    raise Unsupported(n, 'function %s is not covered by the signature file' % n.name)
                continue
            if isinstance(n, ast.ClassDef):
                if n.name != self.cls or n.bases or n.decorator_list or n.keywords:
                    raise Unsupported(n, 'class %s is not covered by the signature file' % n.name)
                for m in n.body:
                    if isinstance(m, ast.Expr) and isinstance(m.value, ast.Constant):
                        continue
                    if isinstance(m, ast.Assign) and len(m.targets) == 1 and isinstance(m.targets[0], ast.Name) \
                            and '%s.%s' % (n.name, m.targets[0].id) in covered:
                        continue
                    if isinstance(m, ast.FunctionDef):
                        q = [k for k, v in self.methods.items() if v is m][0]
                        if q in covered or q in pinned:
                            continue
                        raise Unsupported(m, 'method %s is not covered by the signature file' % q)
                    raise Unsupported(m, 'class-level statement not covered by the signature file')
                continue
            if isinstance(n, ast.Assign) and len(n.targets) == 1 and isinstance(n.targets[0], ast.Name):
                name = n.targets[0].id
                if name in self.consts:
                    continue
                if name in self.obj_names and ast.unparse(n.value) == '%s()' % self.cls:
                    continue
                raise Unsupported(n, 'module-level assignment to %s is not covered' % name)
            if isinstance(n, ast.Expr) and isinstance(n.value, ast.Call) and isinstance(n.value.func, ast.Attribute) \
                    and isinstance(n.value.func.value, ast.Name) and n.value.func.value.id in self.obj_names:
                continue     # checked by the registrations rule
            raise Unsupported(n, 'module-level statement %s is not covered' % type(n).__name__)
        # functions that are deliberately not translated are pinned by the hash of their AST
        for q, want in pinned.items():
            node = self.find(q)
            got = hashlib.sha256(ast.dump(strip_doc(node)).encode()).hexdigest()[:16]
            if got != want['ast_sha256_16']:
                raise Unsupported(node, '%s is not translated but pinned, and it changed (ast hash %s, pinned %s)'
                                  % (q, got, want['ast_sha256_16']))

    def load_externals(self):
        """functions of another module that another target generates: callable here if the source really
        imports that name from that module"""
        for name, x in self.externals.items():
            ok = any(isinstance(n, ast.ImportFrom) and n.module == x['module'] and any(a.name == name and a.asname is None for a in n.names)
                     for n in ast.walk(self.tree))
            if not ok:
                raise Unsupported(0, '%s is no longer imported from %s' % (name, x['module']))
            if name in self.top:
                raise Unsupported(self.top[name], '%s is now defined in this file' % name)
            self.funs[name] = FnInfo(name, x['coq'], [('a%d' % i, parse_type(t)) for i, t in enumerate(x['params'])],
                                     [], [], False, parse_type(x['ret']), False)

    def translate(self):
        self.check_coverage()
        self.load_externals()
        for e in self.sig['emit']:
            getattr(self, 'do_' + e['kind'])(e)
        return self.text()

    def text(self):
        sig = self.sig
        unguarded = sorted({l for l, g in self.reads if not g})
        head = ['(* GENERATED by tools/py2v from %s with tools/py2v/sigs/%s -- do not edit.' % (sig['source'], sig['name']),
                '   Regenerated on every check; the proofs are re-checked against this text.',
                '   Dictionary reads are totalised (a missing key gives the default of the type); reads not',
                '   dominated by a membership test of the same key: %s lines %s.' % (
                    sig['source'].split('/')[-1], ', '.join(map(str, unguarded)) or 'none'),
                '   Assumptions made by translation rules:']
        grouped = {}
        for l, t in sorted(self.assumptions):
            grouped.setdefault(t, []).append(l)
        for t, ls in sorted(grouped.items(), key=lambda kv: kv[1]):
            head.append('     %s:%s %s' % (sig['source'].split('/')[-1], ','.join(map(str, ls)), t))
        if not grouped:
            head.append('     none')
        head[-1] += ' *)'
        return '\n'.join(head) + '\n' + '\n'.join(sig['header']) + '\n\n' + '\n\n'.join(self.out) + '\n'


def strip_doc(node):
    node = ast.parse(ast.unparse(node)).body[0]
    if node.body and isinstance(node.body[0], ast.Expr) and isinstance(node.body[0].value, ast.Constant):
        node.body = node.body[1:] or [ast.Pass()]
    return node
