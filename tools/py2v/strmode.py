"""py2v, string mode: functions over Python str / list / int values whose indexing can raise and whose
`while` loops are driven by an index (the JSON slicer of biom/parse.py).  Used only by signature files
with "mode": "str"; the other targets never reach this module.

A str is `text` (list of code points), `s[i]` is a code point (`char`), an int is a `Z`.  Every translated
function returns an `outcome` (Gen/StrPrelude.v): `Val v`, `Exn IndexError|ValueError|KeyError`, or
`OutOfFuel`.  Statements are compiled in continuation style; an `if` followed by further statements
carries a copy of them in each branch (no join points), so every path through a function is one
nested term ending in `Val ..`, an exception, or the recursive call of the enclosing loop.
  while c: body   ->  Fixpoint w (fuel : nat) free.. state.. : outcome (state) :=
                        [evaluate c] if c then match fuel with O => OutOfFuel | S fuel => body; w fuel .. end
                                     else Val (state)
                      (`break` = Val (state); the fuel is the expression of the signature file)
  for x in l: body -> Fixpoint f (it_ : list T) free.. state.. : outcome (state), recursion on the list
                      (`continue` = the recursive call, `break` = Val (state))
  try: l.pop() except IndexError: h   ->  match l with [] => h | _ :: _ => let l := removelast l in .. end
Anything else is refused (Unsupported -> exit code 2, nothing written)."""
import ast
import json
import os
import re

from core import Unsupported, match_pattern

STR, CHAR, INT, NAT, BOOL, LOOKUP, NATSET = ('str',), ('char',), ('int',), ('nat',), ('bool',), ('lookup',), ('natset',)
EXCEPTIONS = ('IndexError', 'ValueError', 'KeyError')


def parse_ty(s):
    s = s.strip()
    if s.startswith('list '):
        return ('list', parse_ty(s[5:]))
    if s in ('str', 'char', 'int', 'nat', 'bool', 'lookup', 'natset'):
        return (s,)
    raise ValueError('bad type in signature file: %r' % s)


def coq_ty(t, top=True):
    if t[0] == 'list':
        r = 'list %s' % coq_ty(t[1], False)
        return r if top else '(%s)' % r
    if t[0] == 'natset':
        return 'list nat' if top else '(list nat)'
    return {'str': 'text', 'char': 'Z', 'int': 'Z', 'nat': 'nat', 'bool': 'bool', 'lookup': 'lookup'}[t[0]]


def ind(s, n=2):
    pad = ' ' * n
    return '\n'.join(pad + ln if ln else ln for ln in s.split('\n'))


def codes(s):
    return '[%s]' % '; '.join(str(ord(c)) for c in s)


def zlit(n):
    return str(n) if n >= 0 else '(%d)' % n


def wrap(binds, body):
    """obind chain around a term"""
    for var, m in reversed(binds):
        body = 'obind (%s) (fun %s =>\n%s)' % (m, var, body)
    return body


def tuple_of(names):
    return names[0] if len(names) == 1 else '(%s)' % ', '.join(names)


def pat_of(names):
    return names[0] if len(names) == 1 else "'(%s)" % ', '.join(names)


def assigned_names(stmts):
    """names (re)bound by the statements, in order of first occurrence"""
    out = []

    def add(n):
        if n not in out:
            out.append(n)

    class V(ast.NodeVisitor):
        def visit_Assign(self, node):
            self.generic_visit(node)
            for t in node.targets:
                for x in ast.walk(t):
                    if isinstance(x, ast.Name):
                        add(x.id)

        def visit_AugAssign(self, node):
            self.generic_visit(node)
            if isinstance(node.target, ast.Name):
                add(node.target.id)

        def visit_For(self, node):
            for x in ast.walk(node.target):
                if isinstance(x, ast.Name):
                    add(x.id)
            self.generic_visit(node)

        def visit_Call(self, node):
            self.generic_visit(node)
            f = node.func
            if isinstance(f, ast.Attribute) and f.attr in ('append', 'pop') and isinstance(f.value, ast.Name):
                add(f.value.id)
    for s in stmts:
        V().visit(s)
    return out


def read_names(nodes):
    out = []
    for n in nodes:
        for x in ast.walk(n):
            if isinstance(x, ast.Name) and x.id not in out:
                out.append(x.id)
    return out


class StrModule:
    def __init__(self, sigpath, text, srcname):
        self.sig = json.load(open(sigpath))
        self.signame = os.path.basename(sigpath)
        self.srcname = srcname
        self.tree = ast.parse(text)
        self.funcs = {}
        self.consts = {}
        seen = set()
        for node in self.tree.body:
            if isinstance(node, ast.FunctionDef):
                if node.name in self.funcs:
                    raise Unsupported(node, 'function %s is defined twice' % node.name)
                self.funcs[node.name] = node
            elif isinstance(node, ast.Assign) and len(node.targets) == 1 and isinstance(node.targets[0], ast.Name):
                name = node.targets[0].id
                if name in seen:
                    self.consts[name] = ('dup', node)
                    continue
                seen.add(name)
                v = node.value
                if isinstance(v, ast.Constant) and isinstance(v.value, str):
                    self.consts[name] = ('strlit', v.value)
                elif isinstance(v, (ast.Set, ast.List)) and v.elts and all(
                        isinstance(e, ast.Constant) and isinstance(e.value, str) and len(e.value) == 1 for e in v.elts):
                    self.consts[name] = ('charset', [ord(e.value) for e in v.elts])
        self.emitted = {}      # python name -> spec (functions already translated: callable by later ones)
        self.used_consts = []
        self.patterns = [dict(p, ast=ast.parse(p['pattern'], mode='eval').body, ty=parse_ty(p['type']),
                              argtys=[parse_ty(a) for a in p['args']]) for p in self.sig.get('patterns', [])]

    # ------------------------------------------------------------------ driver
    def translate(self):
        if self.sig.get('coverage') != 'listed-functions-only':
            raise Unsupported(0, 'string mode needs "coverage": "listed-functions-only"')
        chunks = []
        for spec in self.sig['emit']:
            if spec.get('kind') != 'function':
                raise Unsupported(0, 'string mode emits functions only (got %r)' % spec.get('kind'))
            node = self.funcs.get(spec['py'])
            if node is None:
                raise Unsupported(0, 'function %s named in the signature file is not in the source' % spec['py'])
            chunks.append(Fn(self, spec, node).translate())
            self.emitted[spec['py']] = spec
        head = ['(* GENERATED by tools/py2v (string mode) from biom/%s with tools/py2v/sigs/%s -- do not edit.'
                % (self.srcname, self.signame),
                '   Regenerated on every check; the proofs are re-checked against this text.',
                '   str = text (code points), s[i] = its code point, int = Z; results are outcomes of Gen/StrPrelude.v',
                '   (Val / Exn IndexError|ValueError|KeyError / OutOfFuel).  Module-level constants are inlined as code points:']
        if self.used_consts:
            for name in self.used_consts:
                kind, v = self.consts[name]
                head.append('     %s = %s' % (name, codes(v) if kind == 'strlit' else '[%s]' % '; '.join(map(str, v))))
        else:
            head.append('     none')
        head[-1] += ' *)'
        return '\n'.join(head + list(self.sig['header'])) + '\n\n' + '\n\n'.join(chunks) + '\n'


class Fn:
    def __init__(self, mod, spec, node):
        self.mod, self.spec, self.node = mod, spec, node
        self.loops = []
        self.tmp = 0
        self.whiles = list(spec.get('whiles', []))
        self.fuels = list(spec.get('while_fuel', []))
        self.fors = list(spec.get('loops', []))
        self.locals = {k: parse_ty(v) for k, v in spec.get('locals', {}).items()}
        self.ret = parse_ty(spec['ret'])
        self.pure = bool(spec.get('pure'))
        self.retype = set(spec.get('retype', []))            # locals that may change type (never inside a loop)
        self.format_locals = set(spec.get('format_locals', []))   # locals holding a constant format string

    def bad(self, node, msg):
        raise Unsupported(node, msg)

    def fresh(self):
        self.tmp += 1
        return 'v_%d' % self.tmp

    # ------------------------------------------------------------------ function
    def translate(self):
        node, spec = self.node, self.spec
        a = node.args
        if a.vararg or a.kwarg or a.kwonlyargs or a.defaults or a.posonlyargs or node.decorator_list:
            self.bad(node, 'function %s: only plain positional parameters are supported' % node.name)
        names = [x.arg for x in a.args]
        if names != list(spec['params'].keys()):
            self.bad(node, 'parameters of %s are %s, the signature file says %s'
                     % (node.name, names, list(spec['params'].keys())))
        env = {n: parse_ty(t) for n, t in spec['params'].items()}
        for n in list(env) + assigned_names(node.body):
            if re.match(r'^(v_\d+|fuel|it_)$', n):
                self.bad(node, 'local name %s is reserved by the translator' % n)
        body = list(node.body)
        if body and isinstance(body[0], ast.Expr) and isinstance(body[0].value, ast.Constant) \
                and isinstance(body[0].value.value, str):
            body = body[1:]
        params = ' '.join('(%s : %s)' % (n, coq_ty(t)) for n, t in env.items())
        ref = '(* %s:%d-%d *)' % (self.mod.srcname, node.lineno, node.end_lineno)
        if self.pure:
            if len(body) != 1 or not isinstance(body[0], ast.Return) or body[0].value is None:
                self.bad(node, 'a function declared pure must be a single return')
            b, t, ty = self.expr(body[0].value, env)
            if b:
                self.bad(node, 'a function declared pure contains an operation that can raise')
            t = self.coerce(body[0], t, ty, self.ret)
            return '%s\nDefinition %s %s : %s :=\n  %s.' % (ref, spec['coq'], params, coq_ty(self.ret), t)

        def fell_off(env2):
            self.bad(node, 'function %s can end without a return' % node.name)
        term = self.block(body, env, None, fell_off)
        if self.whiles or self.fors:
            self.bad(node, 'loops named in the signature file but not met in %s: %s' % (node.name, self.whiles + self.fors))
        main = '%s\nDefinition %s %s : outcome %s :=\n%s.' % (ref, spec['coq'], params, coq_ty(self.ret, False), ind(term))
        return '\n\n'.join(self.loops + [main])

    # ------------------------------------------------------------------ types
    def coerce(self, node, term, ty, want):
        if ty == want:
            return term
        if ty[0] == 'strlit':
            if want == STR:
                return codes(ty[1])
            if want == CHAR and len(ty[1]) == 1:
                return str(ord(ty[1]))
        if ty[0] == 'emptylist' and want[0] == 'list':
            return '[]'
        self.bad(node, 'a value of type %s where %s is expected' % (' '.join(map(str, ty)), ' '.join(map(str, want))))

    def settle(self, node, term, ty, hint=None):
        """type of a value bound to a local"""
        if ty[0] == 'strlit':
            return codes(ty[1]), STR
        if ty[0] == 'emptylist':
            if hint is None or hint[0] != 'list':
                self.bad(node, 'the type of an empty list must be declared under "locals"')
            return '[]', hint
        if ty[0] == 'charset':
            self.bad(node, 'a set constant bound to a local')
        return term, ty

    # ------------------------------------------------------------------ expressions
    def expr(self, e, env):
        """-> (binds, term, type); binds = [(var, outcome term)] to be evaluated first, in order"""
        for p in self.mod.patterns:
            holes = {}
            if match_pattern(p['ast'], e, holes):
                binds, args = [], []
                for i, want in enumerate(p['argtys']):
                    b, t, ty = self.expr(holes['_%d_' % i], env)
                    binds += b
                    args.append(self.coerce(e, t, ty, want))
                return binds, '(%s)' % p['coq'].format(*args), p['ty']
        if isinstance(e, ast.Name):
            if e.id in env:
                return [], e.id, env[e.id]
            if e.id in self.mod.consts:
                kind, v = self.mod.consts[e.id]
                if kind == 'dup':
                    self.bad(e, 'module constant %s is assigned more than once' % e.id)
                if e.id not in self.mod.used_consts:
                    self.mod.used_consts.append(e.id)
                return [], None, (kind, v)
            self.bad(e, 'name %s is not a parameter, a local in scope or a module constant' % e.id)
        if isinstance(e, ast.Constant):
            if isinstance(e.value, bool):
                return [], 'true' if e.value else 'false', BOOL
            if isinstance(e.value, int):
                return [], zlit(e.value), INT
            if isinstance(e.value, str):
                return [], None, ('strlit', e.value)
            self.bad(e, 'constant %r' % (e.value,))
        if isinstance(e, ast.UnaryOp):
            if isinstance(e.op, ast.USub) and isinstance(e.operand, ast.Constant) and isinstance(e.operand.value, int) \
                    and not isinstance(e.operand.value, bool):
                return [], zlit(-e.operand.value), INT
            if isinstance(e.op, ast.Not):
                b, t = self.cond(e.operand, env, negate=True)
                return b, t, BOOL
            self.bad(e, 'unary operator %s' % type(e.op).__name__)
        if isinstance(e, ast.BinOp):
            return self.binop(e, env)
        if isinstance(e, ast.Compare):
            return self.compare(e, env)
        if isinstance(e, ast.BoolOp):
            op = '&&' if isinstance(e.op, ast.And) else '||'
            binds, terms = [], []
            for i, v in enumerate(e.values):
                b, t = self.cond(v, env)
                if b and i > 0:
                    self.bad(e, 'an operand of and/or after the first that can raise (short-circuit is not translated)')
                binds += b
                terms.append(t)
            return binds, '(%s)' % (' %s ' % op).join(terms), BOOL
        if isinstance(e, ast.Subscript):
            return self.subscript(e, env)
        if isinstance(e, ast.List):
            if not e.elts:
                return [], None, ('emptylist',)
            binds, terms, ety = [], [], None
            for x in e.elts:
                b, t, ty = self.expr(x, env)
                t, ty = self.settle(x, t, ty)
                if ety is not None and ty != ety:
                    self.bad(e, 'list literal with elements of different types')
                ety = ty
                binds += b
                terms.append(t)
            return binds, '[%s]' % '; '.join(terms), ('list', ety)
        if isinstance(e, ast.JoinedStr):
            binds, parts = [], []
            for v in e.values:
                if isinstance(v, ast.Constant) and isinstance(v.value, str):
                    if v.value:
                        parts.append(codes(v.value))
                elif isinstance(v, ast.FormattedValue) and v.conversion == -1 and v.format_spec is None:
                    b, t, ty = self.expr(v.value, env)
                    binds += b
                    parts.append(self.show(v, t, ty))
                else:
                    self.bad(e, 'f-string part with a conversion or format specification')
            return binds, '(%s)' % ' ++ '.join(parts) if parts else '[]', STR
        if isinstance(e, ast.Call):
            return self.call(e, env)
        self.bad(e, 'expression %s is outside the supported subset' % type(e).__name__)

    def show(self, node, t, ty):
        """str(x) inside a format"""
        if ty == STR:
            return t
        if ty[0] == 'strlit':
            return codes(ty[1])
        if ty[0] == 'emptylist':
            return codes('[]')
        if ty == NAT:
            return 'print_nat %s' % t
        if ty == INT:
            return 'print_Z %s' % t
        self.bad(node, 'formatting a value of type %s' % ty[0])

    def binop(self, e, env):
        fmt = None
        if isinstance(e.op, ast.Mod) and isinstance(e.left, ast.Constant) and isinstance(e.left.value, str):
            fmt = e.left.value
        elif isinstance(e.op, ast.Mod) and isinstance(e.left, ast.Name) and env.get(e.left.id, ('',))[0] == 'strlit':
            fmt = env[e.left.id][1]
        if fmt is not None:
            args = list(e.right.elts) if isinstance(e.right, ast.Tuple) else [e.right]
            pieces = re.split(r'(%.)', fmt)
            binds, parts = [], []
            for p in pieces:
                if p in ('%s', '%d'):
                    if not args:
                        self.bad(e, 'format string with more directives than arguments')
                    b, t, ty = self.expr(args.pop(0), env)
                    if p == '%d' and ty not in (NAT, INT):
                        self.bad(e, '%%d of a value of type %s' % ty[0])
                    binds += b
                    parts.append(self.show(e, t, ty))
                elif p.startswith('%') and len(p) == 2:
                    self.bad(e, 'format directive %s' % p)
                elif p:
                    parts.append(codes(p))
            if args:
                self.bad(e, 'format string with fewer directives than arguments')
            return binds, '(%s)' % ' ++ '.join(parts) if parts else '[]', STR
        if isinstance(e.op, (ast.Add, ast.Sub)):
            bl, tl, tyl = self.expr(e.left, env)
            br, tr, tyr = self.expr(e.right, env)
            if tyl != INT or tyr != INT:
                self.bad(e, '+ / - on %s and %s (only int)' % (tyl[0], tyr[0]))
            return bl + br, '(%s %s %s)' % (tl, '+' if isinstance(e.op, ast.Add) else '-', tr), INT
        self.bad(e, 'binary operator %s' % type(e.op).__name__)

    def compare(self, e, env):
        if len(e.ops) != 1:
            self.bad(e, 'chained comparison')
        op, right = e.ops[0], e.comparators[0]
        bl, tl, tyl = self.expr(e.left, env)
        if isinstance(op, (ast.In, ast.NotIn)):
            neg = isinstance(op, ast.NotIn)
            if isinstance(right, ast.List) and right.elts and all(
                    isinstance(x, ast.Constant) and isinstance(x.value, str) and len(x.value) == 1 for x in right.elts):
                br, tr, tyr = [], None, ('charset', [ord(x.value) for x in right.elts])
            else:
                br, tr, tyr = self.expr(right, env)
            if tyl == STR and isinstance(right, ast.List) and right.elts and all(
                    isinstance(x, ast.Constant) and isinstance(x.value, str) for x in right.elts):
                t = 'str_in %s [%s]' % (tl, '; '.join(codes(x.value) for x in right.elts))
                return bl, ('negb (%s)' if neg else '(%s)') % t, BOOL
            if tyr[0] == 'charset' and tyl == CHAR:
                t = 'char_in %s [%s]' % (tl, '; '.join(map(str, tyr[1])))
            elif tyr == LOOKUP and tyl == STR:
                t = 'lookup_mem %s %s' % (tl, tr)
            else:
                self.bad(e, 'membership of a %s in a %s' % (tyl[0], tyr[0]))
            return bl + br, ('negb (%s)' if neg else '(%s)') % t, BOOL
        br, tr, tyr = self.expr(right, env)
        if isinstance(op, (ast.Eq, ast.NotEq)):
            neg = isinstance(op, ast.NotEq)
            if tyl[0] == 'strlit' and tyr[0] != 'strlit':
                tl, tyl, tr, tyr = tr, tyr, tl, tyl
            if tyl == CHAR:
                t = '%s =? %s' % (tl, self.coerce(e, tr, tyr, CHAR))
            elif tyl == INT and tyr == INT:
                t = '%s =? %s' % (tl, tr)
            elif tyl == STR:
                t = 'teqb %s %s' % (tl, self.coerce(e, tr, tyr, STR))
            else:
                self.bad(e, 'comparison of %s and %s' % (tyl[0], tyr[0]))
            return bl + br, ('negb (%s)' if neg else '(%s)') % t, BOOL
        ops = {ast.Lt: '<?', ast.LtE: '<=?', ast.Gt: '>?', ast.GtE: '>=?'}
        if type(op) in ops and {tyl, tyr} == {INT, NAT}:        # a nat meeting an int is injected (python ints are unbounded)
            if tyl == NAT:
                tl, tyl = '(Z.of_nat %s)' % tl, INT
            else:
                tr, tyr = '(Z.of_nat %s)' % tr, INT
        if type(op) in ops and tyl == INT and tyr == INT:
            return bl + br, '(%s %s %s)' % (tl, ops[type(op)], tr), BOOL
        self.bad(e, 'comparison %s on %s and %s' % (type(op).__name__, tyl[0], tyr[0]))

    def subscript(self, e, env):
        bv, tv, tyv = self.expr(e.value, env)
        if isinstance(e.slice, ast.Slice):
            if e.slice.step is not None or e.slice.lower is None or e.slice.upper is None:
                self.bad(e, 'slice without both bounds, or with a step')
            if tyv != STR and tyv[0] != 'list':
                self.bad(e, 'slice of a %s' % tyv[0])
            ba, ta, tya = self.expr(e.slice.lower, env)
            bb, tb, tyb = self.expr(e.slice.upper, env)
            if tya != INT or tyb != INT:
                self.bad(e, 'slice bounds must be int')
            return bv + ba + bb, '(str_slice %s %s %s)' % (tv, ta, tb), tyv
        bi, ti, tyi = self.expr(e.slice, env)
        if tyv == LOOKUP:
            if tyi != STR:
                self.bad(e, 'dictionary key of type %s' % tyi[0])
            v = self.fresh()
            return bv + bi + [(v, 'lookup_at %s %s' % (tv, ti))], v, NAT
        if tyi != INT:
            self.bad(e, 'index of type %s' % tyi[0])
        if tyv == STR:
            ety = CHAR
        elif tyv[0] == 'list':
            ety = tyv[1]
        else:
            self.bad(e, 'indexing a %s' % tyv[0])
        v = self.fresh()
        return bv + bi + [(v, 'seq_at %s %s' % (tv, ti))], v, ety

    def call(self, e, env):
        if e.keywords:
            self.bad(e, 'keyword arguments')
        f = e.func
        if isinstance(f, ast.Name):
            if f.id == 'len' and len(e.args) == 1:
                b, t, ty = self.expr(e.args[0], env)
                if ty != STR and ty[0] != 'list':
                    self.bad(e, 'len of a %s' % ty[0])
                return b, '(str_len %s)' % t, INT
            if f.id == 'list' and len(e.args) == 1:
                b, t, ty = self.expr(e.args[0], env)
                if ty[0] != 'list':
                    self.bad(e, 'list() of a %s' % ty[0])
                return b, t, ty
            if f.id in ('min', 'max') and len(e.args) == 1:
                b, t, ty = self.expr(e.args[0], env)
                if ty not in (('list', NAT), NATSET):
                    self.bad(e, '%s of a %s' % (f.id, ' '.join(map(str, ty))))
                v = self.fresh()
                return b + [(v, 'list_%s %s' % (f.id, t))], v, NAT
            if f.id == 'set' and len(e.args) == 1:
                b, t, ty = self.expr(e.args[0], env)
                if ty not in (('list', NAT), NATSET):
                    self.bad(e, 'set() of a %s' % ' '.join(map(str, ty)))
                return b, t, NATSET          # a set of indices is given by any list of its elements
            if f.id == 'map' and len(e.args) == 2 and isinstance(e.args[0], ast.Name) and e.args[0].id == 'int' \
                    and 'int' not in env and 'int' not in self.mod.funcs:
                b, t, ty = self.expr(e.args[1], env)
                if ty != ('list', STR):
                    self.bad(e, 'map(int, ..) over a %s' % ' '.join(map(str, ty)))
                v = self.fresh()
                return b + [(v, 'str_ints %s' % t)], v, ('list', INT)
            if f.id == 'map' and len(e.args) == 2 and isinstance(e.args[0], ast.Name):
                spec = self.mod.emitted.get(e.args[0].id)
                if spec is None or not spec.get('pure') or len(spec['params']) != 1:
                    self.bad(e, 'map of %s (only a translated pure one-argument function)' % e.args[0].id)
                b, t, ty = self.expr(e.args[1], env)
                pty = parse_ty(list(spec['params'].values())[0])
                if ty != ('list', pty):
                    self.bad(e, 'map over a %s' % ' '.join(map(str, ty)))
                return b, '(map %s %s)' % (spec['coq'], t), ('list', parse_ty(spec['ret']))
            if f.id in self.mod.emitted:
                spec = self.mod.emitted[f.id]
                ptys = [parse_ty(x) for x in spec['params'].values()]
                if len(e.args) != len(ptys):
                    self.bad(e, 'call of %s with %d arguments' % (f.id, len(e.args)))
                binds, args = [], []
                for a, want in zip(e.args, ptys):
                    b, t, ty = self.expr(a, env)
                    binds += b
                    args.append(self.coerce(a, t, ty, want))
                term = '%s %s' % (spec['coq'], ' '.join(args))
                if spec.get('pure'):
                    return binds, '(%s)' % term, parse_ty(spec['ret'])
                v = self.fresh()
                return binds + [(v, term)], v, parse_ty(spec['ret'])
            self.bad(e, 'call of unknown function %s' % f.id)
        if isinstance(f, ast.Attribute):
            bo, to, tyo = self.expr(f.value, env)
            m = f.attr
            if m == 'find' and tyo == STR and len(e.args) == 1:
                b, t, ty = self.expr(e.args[0], env)
                return bo + b, '(str_find %s %s)' % (self.coerce(e, t, ty, STR), to), INT
            if m == 'isspace' and tyo == CHAR and not e.args:
                return bo, '(is_space %s)' % to, BOOL
            if m == 'strip' and tyo == STR and len(e.args) == 1 and isinstance(e.args[0], ast.Constant) \
                    and isinstance(e.args[0].value, str):
                return bo, '(str_strip %s %s)' % (codes(e.args[0].value), to), STR
            if m == 'replace' and tyo == STR and len(e.args) == 2 and all(
                    isinstance(a, ast.Constant) and isinstance(a.value, str) for a in e.args) \
                    and len(e.args[0].value) == 1 and e.args[1].value == '':
                return bo, '(str_remove %d %s)' % (ord(e.args[0].value), to), STR
            if m == 'split' and tyo == STR and len(e.args) == 1 and isinstance(e.args[0], ast.Constant) \
                    and isinstance(e.args[0].value, str) and len(e.args[0].value) in (1, 2):
                sep = e.args[0].value
                if len(sep) == 1:
                    return bo, '(split_char %d %s)' % (ord(sep), to), ('list', STR)
                return bo, '(split2 %d %d %s)' % (ord(sep[0]), ord(sep[1]), to), ('list', STR)
            if m == 'join' and tyo[0] in ('strlit', 'str') and len(e.args) == 1:
                b, t, ty = self.expr(e.args[0], env)
                if ty != ('list', STR):
                    self.bad(e, 'join of a %s' % ' '.join(map(str, ty)))
                return bo + b, '(join %s %s)' % (self.coerce(e, to, tyo, STR), t), STR
            self.bad(e, 'method %s on a %s is outside the supported subset' % (m, tyo[0]))
        self.bad(e, 'call of %s' % type(f).__name__)

    def cond(self, e, env, negate=False):
        """truth value of e -> (binds, bool term)"""
        if isinstance(e, ast.UnaryOp) and isinstance(e.op, ast.Not):
            return self.cond(e.operand, env, not negate)
        b, t, ty = self.expr(e, env)
        if ty == BOOL:
            return b, ('negb %s' % t if negate else t)
        if ty == STR or ty[0] == 'list':
            return b, ('(lempty %s)' % t if negate else 'negb (lempty %s)' % t)
        self.bad(e, 'truth value of a %s' % ty[0])

    # ------------------------------------------------------------------ statements
    def block(self, stmts, env, ctx, k):
        if not stmts:
            return k(env)
        s, rest = stmts[0], stmts[1:]

        def nxt(env2):
            return self.block(rest, env2, ctx, k)

        if isinstance(s, ast.Return):
            if ctx is not None:
                self.bad(s, 'return inside a loop')
            if rest:
                self.bad(rest[0], 'statement after a return')
            if s.value is None:
                self.bad(s, 'return without a value')
            b, t, ty = self.expr(s.value, env)
            return wrap(b, 'Val %s' % self.coerce(s, t, ty, self.ret))
        if isinstance(s, ast.Raise):
            if rest:
                self.bad(rest[0], 'statement after a raise')
            x = s.exc
            if isinstance(x, ast.Call) and isinstance(x.func, ast.Name) and x.func.id in EXCEPTIONS and s.cause is None \
                    and all(isinstance(a, ast.Constant) for a in x.args):
                return 'Exn %s' % x.func.id
            self.bad(s, 'raise of anything but IndexError / ValueError / KeyError with constant arguments')
        if isinstance(s, (ast.Break, ast.Continue)):
            if ctx is None:
                self.bad(s, '%s outside a loop' % type(s).__name__)
            if rest:
                self.bad(rest[0], 'statement after break / continue')
            return (ctx['brk'] if isinstance(s, ast.Break) else ctx['cont'])(env)
        if isinstance(s, ast.Pass):
            return nxt(env)
        if isinstance(s, ast.If):
            b, c = self.cond(s.test, env)
            t = self.block(s.body, env, ctx, nxt)
            f = self.block(s.orelse, env, ctx, nxt)
            return wrap(b, 'if %s then\n%s\nelse\n%s' % (c, ind(t), ind(f)))
        if isinstance(s, ast.Assign):
            return self.assign(s, env, nxt)
        if isinstance(s, ast.AugAssign):
            if not isinstance(s.target, ast.Name) or s.target.id not in env or env[s.target.id] != INT \
                    or not isinstance(s.op, (ast.Add, ast.Sub)):
                self.bad(s, 'augmented assignment other than += / -= on an int local')
            b, t, ty = self.expr(s.value, env)
            if ty != INT:
                self.bad(s, 'augmented assignment of a %s' % ty[0])
            v = s.target.id
            return wrap(b, 'let %s := %s %s %s in\n%s' % (v, v, '+' if isinstance(s.op, ast.Add) else '-', t, nxt(env)))
        if isinstance(s, ast.Expr):
            return self.exprstmt(s, env, nxt)
        if isinstance(s, ast.Try):
            return self.trystmt(s, env, ctx, nxt)
        if isinstance(s, ast.While):
            return self.whilestmt(s, env, ctx, nxt)
        if isinstance(s, ast.For):
            return self.forstmt(s, env, ctx, nxt)
        self.bad(s, 'statement %s is outside the supported subset' % type(s).__name__)

    def bindvar(self, node, env, name, ty):
        if ty[0] in ('strlit', 'emptylist') and name not in self.retype and name not in self.format_locals:
            self.bad(node, 'local %s would hold an untyped constant' % name)
        if name in env and env[name] != ty and name not in self.retype and name not in self.format_locals:
            self.bad(node, 'local %s changes type from %s to %s' % (name, env[name][0], ty[0]))
        if name in self.locals and self.locals[name] != ty and name not in self.retype:
            self.bad(node, 'local %s is declared %s in the signature file but holds a %s' % (name, self.locals[name][0], ty[0]))
        if name in self.mod.consts or name in self.mod.funcs:
            self.bad(node, 'local %s shadows a module-level name' % name)
        env2 = dict(env)
        env2[name] = ty
        return env2

    def assign(self, s, env, nxt):
        if len(s.targets) != 1:
            self.bad(s, 'chained assignment')
        tg = s.targets[0]
        b, t, ty = self.expr(s.value, env)
        if isinstance(tg, ast.Name) and not b and (
                (ty[0] == 'strlit' and tg.id in self.format_locals) or (ty[0] == 'emptylist' and tg.id in self.retype)):
            # a constant the translator keeps track of itself (a format string applied later with %, a
            # placeholder [] that is replaced or printed): no let, the uses see the constant
            return nxt(self.bindvar(s, env, tg.id, ty))
        if isinstance(tg, ast.Name):
            t, ty = self.settle(s, t, ty, self.locals.get(tg.id) or env.get(tg.id))
            env2 = self.bindvar(s, env, tg.id, ty)
            return wrap(b, 'let %s := %s in\n%s' % (tg.id, t, nxt(env2)))
        if isinstance(tg, ast.Tuple) and all(isinstance(x, ast.Name) for x in tg.elts):
            if ty[0] != 'list':
                self.bad(s, 'unpacking a %s' % ty[0])
            names = [x.id for x in tg.elts]
            if len(set(names)) != len(names):
                self.bad(s, 'a name twice in an unpacking')
            env2 = env
            for n in names:
                env2 = self.bindvar(s, env2, n, ty[1])
            return wrap(b, 'match %s with\n| [%s] =>\n%s\n| _ => Exn ValueError\nend' % (t, '; '.join(names), ind(nxt(env2))))
        self.bad(s, 'assignment target %s' % type(tg).__name__)

    def exprstmt(self, s, env, nxt):
        v = s.value
        if isinstance(v, ast.Constant) and isinstance(v.value, str):
            return nxt(env)
        if isinstance(v, ast.Call) and isinstance(v.func, ast.Attribute) and isinstance(v.func.value, ast.Name) \
                and not v.keywords:
            x, m = v.func.value.id, v.func.attr
            if x in env and env[x][0] == 'list':
                if m == 'append' and len(v.args) == 1:
                    b, t, ty = self.expr(v.args[0], env)
                    t = self.coerce(s, t, ty, env[x][1])
                    return wrap(b, 'let %s := %s ++ [%s] in\n%s' % (x, x, t, nxt(env)))
                if m == 'pop' and not v.args:
                    return 'obind (list_pop %s) (fun %s =>\n%s)' % (x, x, nxt(env))
        self.bad(s, 'expression statement other than l.append(e) / l.pop()')

    def trystmt(self, s, env, ctx, nxt):
        ok = (len(s.body) == 1 and isinstance(s.body[0], ast.Expr) and isinstance(s.body[0].value, ast.Call)
              and isinstance(s.body[0].value.func, ast.Attribute) and s.body[0].value.func.attr == 'pop'
              and isinstance(s.body[0].value.func.value, ast.Name) and not s.body[0].value.args
              and not s.body[0].value.keywords
              and len(s.handlers) == 1 and isinstance(s.handlers[0].type, ast.Name)
              and s.handlers[0].type.id == 'IndexError' and s.handlers[0].name is None
              and not s.orelse and not s.finalbody)
        if not ok:
            self.bad(s, 'try other than `try: l.pop()  except IndexError: ..`')
        x = s.body[0].value.func.value.id
        if x not in env or env[x][0] != 'list':
            self.bad(s, 'pop of %s, which is not a list local' % x)
        h = self.block(s.handlers[0].body, env, ctx, nxt)
        return 'match %s with\n| [] =>\n%s\n| _ :: _ =>\n  let %s := removelast %s in\n%s\nend' % (x, ind(h), x, x, ind(nxt(env)))

    def loop_vars(self, s, env, inner_nodes, body):
        assigned = assigned_names(body)
        state = [v for v in assigned if v in env]
        if not state:
            self.bad(s, 'a loop that changes no local defined before it')
        reads = read_names(inner_nodes)
        frees = [v for v in env if v in reads and v not in state]
        return state, frees

    def check_state(self, node, env0, env, state):
        for v in state:
            if env.get(v) != env0[v]:
                self.bad(node, 'loop variable %s changes type inside the loop' % v)

    def fuel_term(self, s, text, env):
        e = ast.parse(text, mode='eval').body
        ok = (isinstance(e, ast.BinOp) and isinstance(e.op, ast.Add) and isinstance(e.left, ast.Call)
              and isinstance(e.left.func, ast.Name) and e.left.func.id == 'len' and len(e.left.args) == 1
              and isinstance(e.left.args[0], ast.Name) and isinstance(e.right, ast.Constant)
              and isinstance(e.right.value, int) and e.right.value >= 0)
        if not ok:
            raise ValueError('while_fuel must be len(NAME) + CONSTANT: %r' % text)
        n = e.left.args[0].id
        if n not in env or (env[n] != STR and env[n][0] != 'list'):
            self.bad(s, 'fuel expression names %s, which is not a str / list in scope at the loop' % n)
        return '(length %s + %d)%%nat' % (n, e.right.value)

    def whilestmt(self, s, env, ctx, nxt):
        if ctx is not None:
            self.bad(s, 'while inside another loop')
        if s.orelse:
            self.bad(s, 'while .. else')
        if not self.whiles:
            self.bad(s, 'a while loop the signature file does not name')
        name, fuel = self.whiles.pop(0), self.fuels.pop(0)
        state, frees = self.loop_vars(s, env, [s.test] + s.body, s.body)
        call = '%s fuel %s' % (name, ' '.join(frees + state))
        ctx2 = {'cont': lambda e2: (self.check_state(s, env, e2, state), call)[1],
                'brk': lambda e2: (self.check_state(s, env, e2, state), 'Val %s' % tuple_of(state))[1]}
        b, c = self.cond(s.test, env)
        body = self.block(s.body, dict(env), ctx2, ctx2['cont'])
        sty = ' * '.join(coq_ty(env[v], False) for v in state)
        params = ' '.join('(%s : %s)' % (v, coq_ty(env[v])) for v in frees + state)
        text = ('(* %s:%d-%d *)\nFixpoint %s (fuel : nat) %s {struct fuel} : outcome (%s) :=\n%s.'
                % (self.mod.srcname, s.lineno, s.end_lineno, name, params, sty,
                   ind(wrap(b, 'if %s then\n  match fuel with\n  | O => OutOfFuel\n  | S fuel =>\n%s\n  end\nelse Val %s'
                                % (c, ind(body, 4), tuple_of(state))))))
        self.loops.append(text)
        return 'obind (%s %s %s) (fun %s =>\n%s)' % (name, self.fuel_term(s, fuel, env), ' '.join(frees + state),
                                                   pat_of(state), nxt(env))

    def forstmt(self, s, env, ctx, nxt):
        if ctx is not None:
            self.bad(s, 'for inside another loop')
        if s.orelse:
            self.bad(s, 'for .. else')
        if not self.fors:
            self.bad(s, 'a for loop the signature file does not name')
        if not isinstance(s.target, ast.Name):
            self.bad(s, 'loop target other than a name')
        name = self.fors.pop(0)
        bi, ti, tyi = self.expr(s.iter, env)
        if tyi[0] != 'list':
            self.bad(s, 'iteration over a %s' % tyi[0])
        x = s.target.id
        if x in env:
            self.bad(s, 'loop target %s is already a local' % x)
        state, frees = self.loop_vars(s, env, s.body, s.body)
        call = '%s it_ %s' % (name, ' '.join(frees + state))
        ctx2 = {'cont': lambda e2: (self.check_state(s, env, e2, state), call)[1],
                'brk': lambda e2: (self.check_state(s, env, e2, state), 'Val %s' % tuple_of(state))[1]}
        body = self.block(s.body, self.bindvar(s, env, x, tyi[1]), ctx2, ctx2['cont'])
        sty = ' * '.join(coq_ty(env[v], False) for v in state)
        params = ' '.join('(%s : %s)' % (v, coq_ty(env[v])) for v in frees + state)
        text = ('(* %s:%d-%d *)\nFixpoint %s (it_ : list %s) %s {struct it_} : outcome (%s) :=\n'
                '  match it_ with\n  | [] => Val %s\n  | %s :: it_ =>\n%s\n  end.'
                % (self.mod.srcname, s.lineno, s.end_lineno, name, coq_ty(tyi[1], False), params, sty,
                   tuple_of(state), x, ind(body, 4)))
        self.loops.append(text)
        return wrap(bi, 'obind (%s %s %s) (fun %s =>\n%s)' % (name, ti, ' '.join(frees + state), pat_of(state), nxt(env)))
