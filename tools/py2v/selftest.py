#!/venv/bin/python
"""Self-test of the translator on biom/err.py.
Each edit is a python string replacement applied to a temporary copy of err.py; the translator
is run on the copy and, for edits it accepts, coqc is run on the files that depend on the
generated text (Gen/ErrGen.v, Model/Err.v, Proofs/ErrProofs.v, Props/C20.v) in a scratch
directory.  Three groups:
  semantic   the meaning changes: the generated text must differ and a proof must break
  preserving the meaning is kept: recorded whether the proofs survive
  reject     the edit leaves the supported subset: the translator must refuse (exit code 2)
With --check every accepted edit is also run through the whole `./check C20` in a scratch copy of
/verif against a scratch copy of the repository (slow: ~15 s per edit).
usage: selftest.py [--check] [--markdown] [--keep] [name ...]"""
import os
import re
import shutil
import subprocess
import sys
import time

HERE = os.path.dirname(os.path.abspath(__file__))
VERIF = os.path.dirname(os.path.dirname(HERE))
REPO = os.environ.get('BIOM_REPO', '/repo')
SCRATCH = '/tmp/builder-translator/selftest'

SETTER_LOOPS = '''        for errtype, new_state in to_update:
            if new_state not in self._valid_states:
                raise KeyError("Unknown state type: %s" % new_state)
            if errtype not in self._state:
                raise KeyError("Unknown error type: %s" % errtype)

        for errtype, new_state in to_update:
            self._state[errtype] = new_state
'''

EDITS = [
    # ---- semantic
    ('no-finally', 'semantic', 'errstate without try/finally',
     [('''    try:
        yield
    finally:
        seterr(**old_state)''', '''    yield
    seterr(**old_state)''')]),
    ('restore-kwargs', 'semantic', 'errstate restores kwargs instead of old_state',
     [('''    finally:
        seterr(**old_state)''', '''    finally:
        seterr(**kwargs)''')]),
    ('one-loop', 'semantic', 'state setter validates and applies per entry (one loop)',
     [(SETTER_LOOPS, '''        for errtype, new_state in to_update:
            if new_state not in self._valid_states:
                raise KeyError("Unknown state type: %s" % new_state)
            if errtype not in self._state:
                raise KeyError("Unknown error type: %s" % errtype)
            self._state[errtype] = new_state
''')]),
    ('all-first-only', 'semantic', "seterr(all=..) updates only the first kind",
     [("__errprof.state = {'all': kwargs['all']}", "__errprof.state = {'empty': kwargs['all']}")]),
    ('no-continue', 'semantic', 'an ignored kind ends the test loop (continue dropped)',
     [('''                if self._state[errtype] == 'ignore':
                    continue
''', '')]),
    ('obsdup-shape', 'semantic', '_test_obsdup compares the matrix size with len(set(ids))',
     [('''    ids = t.ids(axis='observation')
    return len(ids) != len(set(ids))''', '''    ids = t.ids(axis='observation')
    return t.shape[0] != len(set(ids))''')]),
    ('swap-validity', 'semantic', 'the two validity tests of the setter swapped (changes only which message)',
     [('''            if new_state not in self._valid_states:
                raise KeyError("Unknown state type: %s" % new_state)
            if errtype not in self._state:
                raise KeyError("Unknown error type: %s" % errtype)
''', '''            if errtype not in self._state:
                raise KeyError("Unknown error type: %s" % errtype)
            if new_state not in self._valid_states:
                raise KeyError("Unknown state type: %s" % new_state)
''')]),
    ('no-kind-check', 'semantic', 'the setter no longer refuses unknown kinds',
     [('''            if errtype not in self._state:
                raise KeyError("Unknown error type: %s" % errtype)

''', '\n')]),
    ('warn-as-print', 'semantic', "the 'warn' reaction writes to stdout",
     [("'warn': lambda x: warn(msg),", "'warn': lambda x: stdout.write(msg + '\\n'),")]),
    # ---- meaning preserving
    ('rename-local', 'preserving', 'local to_update renamed', [('to_update', 'pending')]),
    ('reorder-indep', 'preserving', 'two independent statements of _handle_error swapped',
     [('''        state = self._state[errtype]
        profile = self._profile[errtype]
''', '''        profile = self._profile[errtype]
        state = self._state[errtype]
''')]),
    ('not-in', 'preserving', '`x not in y` written `not (x in y)`',
     [('if new_state not in self._valid_states:', 'if not (new_state in self._valid_states):')]),
    # ---- outside the subset
    ('while-loop', 'reject', 'a while loop in the setter',
     [('''        for errtype, new_state in to_update:
            self._state[errtype] = new_state
''', '''        i = 0
        while i < len(to_update):
            self._state[to_update[i][0]] = to_update[i][1]
            i += 1
''')]),
    ('nested-def', 'reject', 'a nested function in seterr',
     [('''    old_state = __errprof.state.copy()
    if''', '''    def snapshot():
        return __errprof.state.copy()
    old_state = snapshot()
    if''')]),
    ('unknown-call', 'reject', 'a call of an unknown function',
     [('    old_state = __errprof.state.copy()\n    if', '    old_state = dict(__errprof.state)\n    if')]),
    ('unknown-attr', 'reject', 'an attribute the signature file does not cover',
     [("        return errtype in self._state", "        return errtype in self._registered")]),
    ('new-function', 'reject', 'a new module-level function',
     [('def geterr():', 'def reseterr():\n    __errprof.state = {}\n\n\ndef geterr():')]),
    ('pinned-changed', 'reject', 'register (not translated, pinned) changed',
     [('        self._state[errtype] = state\n        self._test[errtype] = test', '        self._state[errtype] = state.lower()\n        self._test[errtype] = test')]),
    ('try-except', 'reject', 'try/except around the yield',
     [('''    finally:
        seterr(**old_state)''', '''    except KeyError:
        pass
    finally:
        seterr(**old_state)''')]),
    ('lambda-arg', 'reject', 'a reaction that looks at its argument',
     [("'ignore': lambda x: None,", "'ignore': lambda x: x,")]),
    ('registration', 'reject', 'a registration with a computed default state',
     [("__errprof.register('empty', EMPTY, 'ignore', _zz_test_empty,", "__errprof.register('empty', EMPTY, 'ign' + 'ore', _zz_test_empty,")]),
]

# edits of biom/_filter.pyx (translated through tools/decython.py)
KERNEL_EDITS = [
    ('k-le', 'semantic', 'rebuild loop: j <= indices[start] instead of j <',
     [('if start >= end or j < indices[start]:', 'if start >= end or j <= indices[start]:')]),
    ('k-no-advance', 'semantic', 'rebuild loop: start is not advanced',
     [('                row_or_col[j] = data[start]\n                start += 1', '                row_or_col[j] = data[start]')]),
    ('k-nnz-first', 'semantic', '_remove_rows_csr: nnz is added up after both indptr writes',
     [('            indptr[row-offset_rows] = nnz\n            nnz += end - start\n            indptr[row-offset_rows + 1] = nnz',
       '            indptr[row-offset_rows] = nnz\n            indptr[row-offset_rows + 1] = nnz\n            nnz += end - start')]),
    ('k-copy-src', 'semantic', '_remove_rows_csr: indices copied from the shifted position',
     [('indices[j-offset] = indices[j]', 'indices[j-offset] = indices[j-offset]')]),
    ('k-no-offset', 'semantic', '_remove_rows_csr: dropped rows do not advance offset',
     [('            offset += end - start\n', '')]),
    ('k-rename', 'preserving', '_remove_rows_csr: local nnz renamed', [('nnz', 'kept_nnz')]),
    ('k-swap-copy', 'preserving', '_remove_rows_csr: the two copy statements swapped',
     [('                data[j-offset] = data[j]\n                indices[j-offset] = indices[j]',
       '                indices[j-offset] = indices[j]\n                data[j-offset] = data[j]')]),
    ('k-while', 'reject', '_remove_rows_csr: copy loop written as while',
     [('            for j in range(start, end):', '            j = start\n            while j < end:')]),
    ('k-alias', 'reject', '_remove_rows_csr: arr.indices is no longer reassigned (the alias would show)',
     [('    arr.indices = indices[:nnz]\n', '')]),
    ('k-numpy', 'reject', '_remove_rows_csr: a numpy call',
     [('    offset_rows = 0\n', '    offset_rows = int(np.sum(booleans == 0)) * 0\n')]),
]

COQ_FILES = ['Gen/ErrGen.v', 'Model/Err.v', 'Proofs/ErrProofs.v', 'Props/C20.v']
KERNEL_COQ_FILES = ['Gen/FilterGen.v', 'Model/Filter.v', 'Proofs/FilterProofs.v', 'Proofs/FilterKernelProofs.v']


def sh(cmd, cwd=None, env=None, timeout=900):
    p = subprocess.run(cmd, cwd=cwd, env=env, timeout=timeout, stdout=subprocess.PIPE, stderr=subprocess.STDOUT, text=True)
    return p.returncode, p.stdout


def apply(src, reps, name):
    for old, new in reps:
        if old not in src:
            raise SystemExit('selftest: edit %s no longer applies to err.py (pattern not found)' % name)
        src = src.replace(old, new) if name in GLOBAL_RENAMES else src.replace(old, new, 1)
    return src


def enclosing(vfile, line):
    """name of the lemma/definition a coqc error line falls in"""
    lines = open(vfile).read().split('\n')
    for i in range(min(line, len(lines)) - 1, -1, -1):
        m = re.match(r'\s*(Lemma|Theorem|Example|Definition|Fixpoint|Corollary)\s+(\w+)', lines[i])
        if m:
            return m.group(2)
    return '?'


# edits of the further targets: biom/_transform.pyx, biom/_subsample.pyx, biom/table.py (helpers), biom/util.py
TRANSFORM_EDITS = [
    ('t-first-id', 'semantic', '_transform: the function is handed the first id for every vector',
     [('        id_ = ids[row_or_col]', '        id_ = ids[0]')]),
    ('t-first-md', 'semantic', '_transform: the function is handed the first metadata entry',
     [('        md = metadata[row_or_col]', '        md = metadata[0]')]),
    ('t-next-seg', 'semantic', '_transform: the result is written one vector further',
     [('        data[start:end] = function(data[start:end], id_, md)', '        data[end:end] = function(data[start:end], id_, md)')]),
    ('t-rename', 'preserving', '_transform: local id_ renamed', [('id_', 'ident')]),
    ('t-scale', 'reject', '_transform: the result is multiplied before it is stored',
     [('        data[start:end] = function(data[start:end], id_, md)', '        data[start:end] = function(data[start:end], id_, md) * 2')]),
]
SUBSAMPLE_EDITS = [
    ('s-while-gt', 'semantic', 'without replacement: the inner while uses > instead of >=',
     [('            while (perm_count_el - count_el) >= count_rem:', '            while (perm_count_el - count_el) > count_rem:')]),
    ('s-no-tail', 'semantic', 'without replacement: the tail of the segment is not zeroed',
     [('        data[start+el+1:end] = 0\n', '')]),
    ('s-le-n', 'semantic', 'without replacement: a vector with exactly n counts is zeroed',
     [('        if counts_sum < n:', '        if counts_sum <= n:')]),
    ('s-rep-current', 'preserving', 'with replacement: the totals are read from the current array (same values: the segments are disjoint)',
     [('        counts_sum = data_ceil[start:end].sum()', '        counts_sum = data[start:end].sum()')]),
    ('s-swap-init', 'preserving', 'without replacement: two initialisations swapped',
     [('        el = 0         # index in result/data\n        count_el = 0  # index in permutted',
       '        count_el = 0  # index in permutted\n        el = 0         # index in result/data')]),
    ('s-np-sort', 'reject', 'without replacement: np.sort instead of .sort()',
     [('        permuted.sort()', '        permuted = np.sort(permuted)')]),
    ('s-break', 'reject', 'without replacement: a break in the inner while',
     [('               el_cnt = 0\n', '               el_cnt = 0\n               break\n')]),
]
HELPERS_EDITS = [
    ('h-union-b-first', 'semantic', '_union_id_order walks b before a',
     [('        all_ids = list(a[:])\n        all_ids.extend(b[:])', '        all_ids = list(b[:])\n        all_ids.extend(a[:])')]),
    ('h-inter-all', 'semantic', '_intersect_id_order tests membership in a itself',
     [('        all_b = set(b[:])', '        all_b = set(a[:])')]),
    ('h-axis-num', 'semantic', "_axis_to_num: 'sample' is 0",
     [("        if axis == 'sample':\n            return 1\n        elif axis == 'observation':\n            return 0",
       "        if axis == 'sample':\n            return 0\n        elif axis == 'observation':\n            return 1")]),
    ('h-sum-axis', 'semantic', "Table.sum: 'sample' sums along axis 1",
     [("        elif axis == 'sample':\n            axis = 0\n        elif axis == 'observation':\n            axis = 1",
       "        elif axis == 'sample':\n            axis = 1\n        elif axis == 'observation':\n            axis = 0")]),
    ('h-index-wrong-ids', 'semantic', '_index_ids builds the sample index from the observation ids',
     [('            self._sample_index = index_list(self._sample_ids)', '            self._sample_index = index_list(self._observation_ids)')]),
    ('h-cast-or', 'semantic', 'cast_metadata: `or` for `and` in the all-empty test (any mapping counts as empty)',
     [('                if all(m is None or (isinstance(m, dict) and not m)\n                       for m in md):',
       '                if all(m is None or (isinstance(m, dict) or not m)\n                       for m in md):')]),
    ('h-cast-none-raises', 'semantic', 'cast_metadata: the `elif item is None` branch dropped (None entries are refused)',
     [('                    elif item is None:\n                        pass\n', '')]),
    ('h-ctor-no-len', 'semantic', 'Table.__init__: the sample block no longer compares the sizes',
     [('                   for m in sample_metadata) and \\\n                    len(sample_metadata) == len(sample_ids):',
       '                   for m in sample_metadata):')]),
    ('h-cast-swap', 'preserving', 'cast_metadata: the all-empty test written with the operands of `or` swapped',
     [('                if all(m is None or (isinstance(m, dict) and not m)\n                       for m in md):',
       '                if all((isinstance(m, dict) and not m) or m is None\n                       for m in md):')]),
    ('h-rename', 'preserving', '_union_id_order: local all_ids renamed', [('all_ids', 'every_id')]),
    ('h-cast-copy', 'reject', 'cast_metadata: dict(item) instead of d.update(item)',
     [('                        d.update(item)', '                        d = dict(item)')]),
    ('h-index-optional', 'reject', '_index_ids stores the other (possibly None) argument',
     [('            self._sample_index = sample_index', '            self._sample_index = observation_index')]),
    ('h-dict-call', 'reject', '_union_id_order: dict() instead of {}',
     [('        all_ids.extend(b[:])\n        new_order = {}', '        all_ids.extend(b[:])\n        new_order = dict()')]),
]
UTIL_EDITS = [
    ('u-prefer-other', 'semantic', 'prefer_self returns the other argument',
     [('    return x if x else y', '    return y if x else x')]),
    ('u-index-plus1', 'semantic', 'index_list numbers from 1',
     [('    return {id_: idx for idx, id_ in enumerate(item)}', '    return {id_: idx + 1 for idx, id_ in enumerate(item)}')]),
    ('u-rename', 'preserving', 'index_list: comprehension variable renamed',
     [('    return {id_: idx for idx, id_ in enumerate(item)}', '    return {key: idx for idx, key in enumerate(item)}')]),
    ('u-enumerate-1', 'reject', 'index_list: enumerate(item, 1)',
     [('enumerate(item)}', 'enumerate(item, 1)}')]),
    ('u-is-none', 'reject', 'prefer_self tests `is not None` (the signature file types x by its truth value only)',
     [('    return x if x else y', '    return x if x is not None else y')]),
]
# the string-mode target (tools/py2v/strmode.py): the JSON slicer of parse.py; outcomes of ./check C14 per edit: docs/C14.md
SLICER_EDITS = [
    ('sl-plus2', 'semantic', 'start index: + 3 -> + 2',
     [('base_idx + len(key) + 3', 'base_idx + len(key) + 2')]),
    ('sl-str-no-escape', 'semantic', 'string value: the character after a backslash is not skipped',
     [('            if biom_str[cur_idx] == "\\\\":\n'
       '                cur_idx += 1\n'
       '            cur_idx += 1\n'
       '        cur_idx += 1\n',
       '            cur_idx += 1\n        cur_idx += 1\n')]),
    ('sl-obj-close-in-string', 'semantic', 'object scan: ] or } inside a string closes (the old F34)',
     [('                elif cur_char == QUOTE:\n                    stack.pop()\n',
       '                elif cur_char == QUOTE:\n'
       '                    stack.pop()\n'
       '                elif cur_char in JSON_CLOSE:\n'
       '                    stack.pop()\n')]),
    ('sl-num-lose-brace', 'semantic', 'number scan: `{` no longer ends a number',
     [('not in [",", "{", "}"]', 'not in [",", "}"]')]),
    ('sl-return-from-start', 'semantic', 'returns biom_str[start_idx:cur_idx] (the key is lost)',
     [('return biom_str[base_idx:cur_idx]', 'return biom_str[start_idx:cur_idx]')]),
    ('sl-obs-remap-col', 'semantic', '_remap_axis_sparse_obs remaps the column',
     [('return f"{lookup[row]},{col},{value}"', 'return f"{row},{lookup[col]},{value}"')]),
    ('sl-obj-quote-no-push', 'semantic', 'object scan: a quote outside a string is not pushed (brackets in strings count)',
     [('            elif cur_char == QUOTE:\n                stack.append(cur_char)\n',
       '            elif cur_char == QUOTE:\n                pass\n')]),
    ('sl-samp-filter-row', 'semantic', '_direct_slice_data_sparse_samp keeps a record by its ROW index',
     [('        if c in remap_lookup:\n', '        if r in remap_lookup:\n')]),
    ('sl-strip-no-tab', 'semantic', 'strip_f no longer strips tabs',
     [('x.strip("[] \\n\\t")', 'x.strip("[] \\n")')]),
    ('sl-empty-not-skipped', 'semantic', '_direct_slice_data_sparse_obs: the empty record of "data": [] is not skipped',
     [("    for rcv in data.split('],'):\n"
       '        if not strip_f(rcv):\n'
       '            # a table without nonzero entries, "data": []\n'
       '            continue\n'
       "        r, c, v = strip_f(rcv).split(',')",
       "    for rcv in data.split('],'):\n        r, c, v = strip_f(rcv).split(',')")]),
    ('sl-join-space', 'semantic', '_direct_slice_data_sparse_obs joins records with `], [`',
     [('        if r in remap_lookup:\n'
       '            new_data.append(_remap_axis_sparse_obs(rcv, remap_lookup))\n'
       '    if not new_data:\n'
       "        return '[]'\n"
       "    return '[[%s]]' % '],['.join(new_data)",
       '        if r in remap_lookup:\n'
       '            new_data.append(_remap_axis_sparse_obs(rcv, remap_lookup))\n'
       '    if not new_data:\n'
       "        return '[]'\n"
       "    return '[[%s]]' % '], ['.join(new_data)")]),
    ('sl-bounds-gt', 'semantic', 'direct_slice_data: max(to_keep) > n_rows (the command never asks for an index out of bounds)',
     [('if max(to_keep) >= n_rows:', 'if max(to_keep) > n_rows:')]),
    ('sl-ds-shape-rows', 'semantic', 'direct_slice_data: the new observation shape keeps n_rows as its second number',
     [('new_shape = new_shape % (len(to_keep), n_cols)', 'new_shape = new_shape % (len(to_keep), n_rows)')]),
    ('sl-ds-no-trim', 'semantic', 'direct_slice_data: the trailing ] of the data text is not trimmed (strip_f removes it anyway)',
     [('data_fields[data_start:len(data_fields) - 1]', 'data_fields[data_start:len(data_fields)]')]),
    ('sl-ds-samp-calls-obs', 'semantic', 'direct_slice_data: the sample axis is sliced with the observation slicer',
     [('new_data = _direct_slice_data_sparse_samp(data_fields, to_keep)',
       'new_data = _direct_slice_data_sparse_obs(data_fields, to_keep)')]),
    ('sl-ds-min-default', 'reject', 'direct_slice_data: min(to_keep, default=0)',
     [('if min(to_keep) < 0:', 'if min(to_keep, default=0) < 0:')]),
    ('sl-rename-local', 'preserving', 'direct_parse_key: local cur_char renamed',
     [('cur_char', 'ch')]),
    ('sl-plus-assign', 'preserving', 'whitespace loop: cur_idx = cur_idx + 1',
     [('    while biom_str[cur_idx].isspace():\n        cur_idx += 1',
       '    while biom_str[cur_idx].isspace():\n        cur_idx = cur_idx + 1')]),
    ('sl-not-in', 'preserving', '`x not in JSON_OPEN` written `not (x in JSON_OPEN)`',
     [('elif biom_str[cur_idx] not in JSON_OPEN:', 'elif not (biom_str[cur_idx] in JSON_OPEN):')]),
    ('sl-swap-branches', 'preserving', 'object scan: the JSON_CLOSE and JSON_OPEN branches swapped (disjoint tests)',
     [('            elif cur_char in JSON_CLOSE:\n'
       '                try:\n'
       '                    stack.pop()\n'
       '                except IndexError:  # got an int or float?\n'
       '                    cur_idx -= 1\n'
       '                    break\n'
       '            elif cur_char in JSON_OPEN:\n'
       '                stack.append(cur_char)\n',
       '            elif cur_char in JSON_OPEN:\n'
       '                stack.append(cur_char)\n'
       '            elif cur_char in JSON_CLOSE:\n'
       '                try:\n'
       '                    stack.pop()\n'
       '                except IndexError:  # got an int or float?\n'
       '                    cur_idx -= 1\n'
       '                    break\n')]),
    ('sl-return-in-loop', 'reject', 'object scan: return instead of break',
     [('                    cur_idx -= 1\n                    break',
       '                    cur_idx -= 1\n                    return ""')]),
    ('sl-str-index', 'reject', 'biom_str.index instead of .find',
     [('biom_str.find(\'"%s":\' % key)', 'biom_str.index(\'"%s":\' % key)')]),
    ('sl-except-tuple', 'reject', 'except (IndexError, KeyError)',
     [('except IndexError:  # got an int or float?', 'except (IndexError, KeyError):')]),
    ('sl-listcomp', 'reject', '_remap_axis_sparse_obs unpacks a list comprehension',
     [('    """Remap a sparse observation axis"""\n    row, col, value = list(map(strip_f, rcv.split(\',\')))',
       '    """Remap a sparse observation axis"""\n    row, col, value = [strip_f(x) for x in rcv.split(\',\')]')]),
]

# target, source (under biom/), generated file, files compiled in the scratch tree, edits, property of --check
TARGETS = [
    ('err', 'err.py', 'ErrGen.v', COQ_FILES, EDITS, 'C20'),
    ('filter', '_filter.pyx', 'FilterGen.v', KERNEL_COQ_FILES, KERNEL_EDITS, 'C08'),
    ('transform', '_transform.pyx', 'TransformGen.v', ['Gen/TransformGen.v', 'Proofs/GenBridgeProofs.v'], TRANSFORM_EDITS, 'C13'),
    ('subsample', '_subsample.pyx', 'SubsampleGen.v', ['Gen/SubsampleGen.v', 'Proofs/GenBridgeSubsampleProofs.v'], SUBSAMPLE_EDITS, 'C12'),
    ('helpers', 'table.py', 'HelpersGen.v', ['Gen/HelpersGen.v', 'Proofs/GenBridgeMergeProofs.v', 'Proofs/GenBridgeAxisProofs.v', 'Proofs/GenBridgeIndexedProofs.v', 'Proofs/GenBridgeCastProofs.v'], HELPERS_EDITS, 'C09'),
    ('util', 'util.py', 'UtilGen.v', ['Gen/UtilGen.v', 'Proofs/GenBridgeMergeProofs.v', 'Proofs/GenBridgeIndexProofs.v'], UTIL_EDITS, 'C09'),
    ('slicer', 'parse.py', 'SlicerGen.v', ['Gen/SlicerGen.v', 'Proofs/GenBridgeSlicerProofs.v'], SLICER_EDITS, 'C14'),
]
GLOBAL_RENAMES = ('rename-local', 'k-rename', 't-rename', 'h-rename', 'sl-rename-local')
# the property whose check an edit is run through with --check, where it is not the target's default
EDIT_PROP = {'h-cast-or': 'C08', 'h-cast-none-raises': 'C08', 'h-ctor-no-len': 'C08', 'h-cast-swap': 'C08', 'h-index-wrong-ids': 'C05', 'h-axis-num': 'C19', 'h-sum-axis': 'C19', 'u-index-plus1': 'C05', 'u-rename': 'C05'}


def prepare_coq(d):
    """scratch coq tree: every compiled file of the development, plus the sources that are recompiled"""
    for sub in ('Base', 'Model', 'Gen', 'Proofs', 'Props'):
        os.makedirs(os.path.join(d, sub), exist_ok=True)
    for sub in ('Base', 'Model', 'Gen', 'Proofs'):
        for f in os.listdir(os.path.join(VERIF, 'coq', sub)):
            if f.endswith('.vo'):
                shutil.copy(os.path.join(VERIF, 'coq', sub, f), os.path.join(d, sub, f))
    need = set()
    for t in TARGETS:
        need.update(t[3][1:])
    for f in sorted(need):
        shutil.copy(os.path.join(VERIF, 'coq', f), os.path.join(d, f))


def coq_run(d, files=None):
    """compile the dependent files in order -> (ok, 'file: lemma' of the first failure)"""
    for f in files or COQ_FILES:
        rc, out = sh(['/bin/sh', '-c', 'ulimit -v 8000000; exec timeout 300 coqc -Q . BiomV ' + f], cwd=d, timeout=600)
        if rc:
            m = re.search(r'File "\./([^"]+)", line (\d+)', out)
            where = '%s: %s' % (m.group(1), enclosing(os.path.join(d, m.group(1)), int(m.group(2)))) if m else f
            return False, where
    return True, ''


def prepare_check():
    """scratch copies of /verif (without history) and of the repository, for whole-check runs"""
    v, r = '/tmp/builder-translator/verif', '/tmp/builder-translator/repo'
    for src, dst in ((VERIF, v), (REPO, r)):
        if os.path.exists(dst):
            shutil.rmtree(dst)
        shutil.copytree(src, dst, symlinks=True, ignore=shutil.ignore_patterns('.git', 'replays', '__pycache__', '*.pyc'))
    return v, r


def check_run(v, r, text, relsrc='err.py', prop='C20', orig=None):
    open(os.path.join(r, 'biom', relsrc), 'w').write(text)
    env = dict(os.environ, BIOM_REPO=r)
    try:
        rc, out = sh([os.path.join(v, 'check'), prop], cwd=v, env=env, timeout=1800)
    finally:
        if orig is not None:
            open(os.path.join(r, 'biom', relsrc), 'w').write(orig)
    verdict = [ln for ln in out.split('\n') if ln.startswith('VIOLATION')]
    summ = [ln for ln in out.split('\n') if ln.startswith(prop + ' ')]
    if not verdict and rc != 0:
        last = [ln for ln in out.strip().split('\n') if ln.strip()][-1][:80] if out.strip() else ''
        return '%s ABORTED rc=%d, no verdict (%s)' % (prop, rc, last), None
    if not verdict:
        return '%s pass (%s)' % (prop, re.sub(r'^C\d+ \w+: ', '', summ[0])[:60] if summ else 'rc=%d' % rc), None
    m = re.search(r'replay=(\S+)', verdict[0])
    kind = 'no-failing-input-found' if 'no-failing-input-found' in verdict[0] else 'failing input'
    detail = None
    if m and kind == 'failing input':
        import json
        rp = json.load(open(m.group(1)))
        detail = {'case': rp.get('case'), 'oracle': rp.get('oracle'), 'broken': rp.get('broken')}
    return '%s VIOLATION, %s' % (prop, kind), detail


def main(argv):
    do_check = '--check' in argv
    md = '--markdown' in argv
    keep = '--keep' in argv
    only = [a for a in argv if not a.startswith('--')]
    t0 = time.time()
    shutil.rmtree(SCRATCH, ignore_errors=True)
    os.makedirs(os.path.join(SCRATCH, 'repo', 'biom'))
    coqd = os.path.join(SCRATCH, 'coq')
    prepare_coq(coqd)
    rows, details, bad = [], [], False
    vs = prepare_check() if do_check else None
    for target, relsrc, genname, files, edits, prop in TARGETS:
        if only and not any(e[0] in only for e in edits):
            continue
        shutil.rmtree(coqd, ignore_errors=True)      # a fresh tree per target: recompiling Model/*.v invalidates dependants
        prepare_coq(coqd)
        orig = open(os.path.join(REPO, 'biom', relsrc)).read()
        src_path = os.path.join(SCRATCH, 'repo', 'biom', relsrc)
        tr = [sys.executable, os.path.join(HERE, 'main.py'), '--repo', os.path.join(SCRATCH, 'repo'), '--out', SCRATCH, target]
        open(src_path, 'w').write(orig)
        rc, out = sh(tr)
        gen = os.path.join(coqd, 'Gen', genname)
        if rc:
            raise SystemExit('selftest: the translator refuses the unchanged source\n' + out)
        base = open(gen).read()
        if base != open(os.path.join(VERIF, 'coq', 'Gen', genname)).read():
            print('selftest: NOTE committed coq/Gen/%s differs from what the translator emits now' % genname)
        rc2, out2 = sh(tr)
        determ = 'unchanged' in out2 and open(gen).read() == base
        ok, where = coq_run(coqd, files)
        rows.append(('(unchanged %s)' % relsrc, '-', 'source as it is', 'accepts', 'deterministic' if determ else 'NOT DETERMINISTIC',
                     'all proofs check' if ok else 'BREAKS ' + where, ''))
        bad = bad or not ok or not determ
        for name, group, what, reps in edits:
            if only and name not in only:
                continue
            text = apply(orig, reps, name)
            open(src_path, 'w').write(text)
            os.remove(gen)
            rc, out = sh(tr)
            refused = [ln.split('REFUSED', 1)[1].strip() for ln in out.split('\n') if 'REFUSED' in ln]
            wrote = os.path.exists(gen)
            verdict = ''
            if rc:
                if wrote:
                    bad = True
                col_t = 'REFUSES' + (' (but wrote a file!)' if wrote else '')
                col_d, col_p = '-', refused[0].replace('biom/%s: ' % relsrc, '')[:110] if refused else 'rc=%d' % rc
                if group != 'reject':
                    bad = True
                open(gen, 'w').write(base)
            else:
                col_t = 'accepts'
                differs = open(gen).read() != base
                col_d = 'differs' if differs else 'same text'
                ok, where = coq_run(coqd, files)
                col_p = 'all proofs check' if ok else 'breaks ' + where
                if group == 'reject' or (group == 'semantic' and (not differs or ok)):
                    bad = True
                if do_check:
                    verdict, det = check_run(vs[0], vs[1], text, relsrc, EDIT_PROP.get(name, prop), orig)
                    if det:
                        details.append((name, det))
            rows.append((name, group, what, col_t, col_d, col_p, verdict))
        open(src_path, 'w').write(orig)
        sh(tr)
    # report
    hdr = ('edit', 'group', 'what', 'translator', 'generated .v', 'proofs / refusal message', './check')
    if md:
        print('| ' + ' | '.join(hdr) + ' |')
        print('|' + '---|' * len(hdr))
        for r in rows:
            print('| ' + ' | '.join(c.replace('|', '\\|') for c in r) + ' |')
    else:
        w = [max(len(r[i]) for r in rows + [hdr]) for i in range(len(hdr))]
        for r in [hdr] + rows:
            print('  '.join(c.ljust(w[i]) for i, c in enumerate(r)).rstrip())
    for name, det in details:
        print('\n%s: failing input %s\n   oracle: %s\n   broken: %s' % (name, str(det['case'])[:400], det['oracle'], det['broken']))
    print('\nselftest: %s in %.0f s' % ('FAILED' if bad else 'ok', time.time() - t0))
    if not keep:
        shutil.rmtree(SCRATCH, ignore_errors=True)
        if vs:
            shutil.rmtree(vs[0], ignore_errors=True)
            shutil.rmtree(vs[1], ignore_errors=True)
    return 1 if bad else 0


if __name__ == '__main__':
    sys.exit(main(sys.argv[1:]))
