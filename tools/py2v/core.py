"""py2v core: the fail-closed error, the type language of the signature files, Coq text helpers."""
import ast
import re


class Unsupported(Exception):
    """raised for every construct outside the documented subset; the driver turns it into a
    non-zero exit and writes nothing"""

    def __init__(self, node, msg):
        line = getattr(node, 'lineno', node if isinstance(node, int) else 0)
        Exception.__init__(self, 'line %s: %s' % (line, msg))
        self.line, self.msg = line, msg


def parse_type(s):
    """'list str' | 'dict cb' | 'option sized' | 'set int' | 'tuple str,str' | 'fun view -> bool' | base"""
    s = s.strip()
    for head in ('list', 'dict', 'zdict', 'option', 'set', 'orexn'):
        if s.startswith(head + ' '):
            return (head, parse_type(s[len(head) + 1:]))
    if s.startswith('tuple '):
        return ('tuple',) + tuple(parse_type(x) for x in s[6:].split(','))
    if s.startswith('fun '):
        a, r = s[4:].split('->')
        return ('fun', parse_type(a), parse_type(r))
    if not re.match(r'^\w+$', s):
        raise ValueError('bad type in signature file: %r' % s)
    return (s,)


class Types:
    """base types come from the signature file: name -> {coq, eqb?, default?, none?, never_none?}"""

    def __init__(self, table):
        self.table = table

    def base(self, t):
        if t[0] not in self.table:
            raise ValueError('type %r is not declared in the signature file' % (t[0],))
        return self.table[t[0]]

    def coq(self, t, top=True):
        h = t[0]
        if h in ('list', 'set'):
            r = 'list %s' % self.coq(t[1], False)
        elif h == 'dict':
            r = 'dict %s' % self.coq(t[1], False)
        elif h == 'zdict':
            r = 'zdict %s' % self.coq(t[1], False)
        elif h == 'orexn':
            r = '%s + exn' % self.coq(t[1], False)
        elif h == 'option':
            r = 'option %s' % self.coq(t[1], False)
        elif h == 'tuple':
            r = ' * '.join(self.coq(x, False) for x in t[1:])
        elif h == 'fun':
            r = '%s -> %s' % (self.coq(t[1], False), self.coq(t[2], False))
        else:
            return self.base(t)['coq']
        return r if top else '(%s)' % r

    def default(self, t, node):
        h = t[0]
        if h in ('list', 'set', 'dict', 'zdict'):
            return '[]'
        if h == 'option':
            return 'None'
        if h == 'tuple':
            return '(%s)' % ', '.join(self.default(x, node) for x in t[1:])
        d = self.base(t).get('default')
        if d is None:
            raise Unsupported(node, 'type %s has no default value in the signature file (needed to totalise a read)' % h)
        return d

    def eqb(self, t, node):
        if t[0] in ('list', 'set', 'dict', 'zdict', 'orexn', 'option', 'tuple', 'fun'):
            raise Unsupported(node, 'equality on values of type %s' % t[0])
        e = self.base(t).get('eqb')
        if e is None:
            raise Unsupported(node, 'type %s has no boolean equality in the signature file' % t[0])
        return e


COQ_RESERVED = {'end', 'match', 'with', 'in', 'let', 'fun', 'if', 'then', 'else', 'return', 'as', 'at',
                'fix', 'forall', 'exists', 'Type', 'Set', 'Prop', 'using', 'where', 'for', 'cofix',
                # names of the Coq library the generated text uses
                'length', 'nth', 'map', 'app', 'seq', 'fst', 'snd', 'hd', 'tl', 'repeat', 'firstn', 'skipn',
                'filter', 'fold_left', 'combine', 'upd', 'slice', 'splice', 'negb', 'true', 'false', 'tt', 'None', 'Some'}


def cname(py):
    """python identifier -> coq identifier"""
    n = py.lstrip('_') or 'x'
    return n + '_' if n in COQ_RESERVED else n


def cstr(s):
    if any(ord(ch) < 32 or ord(ch) > 126 for ch in s):
        raise ValueError('non-printable character in a string constant')
    return '"%s"' % s.replace('"', '""')


def par(s):
    """parenthesise a term used as an argument unless it is atomic"""
    s = s.strip()
    if re.match(r'^[\w\.\']+$', s) or (s.startswith('"') and s.endswith('"') and s.count('"') == 2):
        return s
    if s.startswith('[') and s.endswith(']') and balanced(s[1:-1]):
        return s
    if s.startswith('(') and s.endswith(')') and balanced(s[1:-1]):
        return s
    return '(%s)' % s


def balanced(s):
    d = 0
    instr = False
    for ch in s:
        if ch == '"':
            instr = not instr
        if instr:
            continue
        if ch in '([':
            d += 1
        elif ch in ')]':
            d -= 1
            if d < 0:
                return False
    return d == 0


def indent(s, n):
    pad = ' ' * n
    return '\n'.join(pad + ln if ln else ln for ln in s.split('\n'))


def match_pattern(pat, node, holes):
    """structural AST match of a signature pattern (python text with the placeholder _0_, _1_..)
    against an expression node; fills holes[name] = sub-node"""
    if isinstance(pat, ast.Name) and re.match(r'^_\d+_$', pat.id):
        if pat.id in holes:
            return ast.dump(holes[pat.id]) == ast.dump(node)
        holes[pat.id] = node
        return True
    if type(pat) is not type(node):
        return False
    for f in pat._fields:
        if f == 'ctx':
            continue
        a, b = getattr(pat, f, None), getattr(node, f, None)
        if isinstance(a, list):
            if not isinstance(b, list) or len(a) != len(b):
                return False
            if not all(match_pattern(x, y, holes) for x, y in zip(a, b)):
                return False
        elif isinstance(a, ast.AST):
            if not isinstance(b, ast.AST) or not match_pattern(a, b, holes):
                return False
        elif a != b:
            return False
    return True
