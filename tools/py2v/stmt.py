"""py2v statements: an explicit state-and-exception monad.
A block of statements is compiled in continuation style to one Gallina term whose shape is
fixed by the effect class of the enclosing definition (see docs/translator.md):
   no state, no raise : v            state, no raise : S  (or (S, v))
   no state, raise    : Ok v | Raise e          state, raise : (S, Ok v) | (S, Raise e)
The state S is threaded THROUGH a raise."""
import ast
import re

from core import Unsupported, cname, cstr, par, indent, parse_type
from expr import (Env, expr, truth, none_test, is_obj, slot_match, resolve_fn, call_fn, call_args, getd,
                  iterable, bind_target)
from core import match_pattern


def oracle_match(mod, node):
    """a call whose result is an input of the model (user function, random generator)"""
    for o in mod.oracles:
        holes = {}
        if match_pattern(o['ast'], node, holes):
            return o, holes
    return None


def method_stmt(env_vars, s):
    """`local.extend(e)` / a call listed under noop_calls -> (kind, local name)"""
    if isinstance(s, ast.Expr) and isinstance(s.value, ast.Call) and isinstance(s.value.func, ast.Attribute) \
            and isinstance(s.value.func.value, ast.Name) and not s.value.keywords:
        return s.value.func.attr, s.value.func.value.id
    return None


# ---------------------------------------------------------------- effect analysis
class Eff:
    def __init__(self):
        self.writes, self.assigned, self.exc, self.returns, self.continues = [], [], False, False, False

    def add(self, o):
        for w in o.writes:
            if w not in self.writes:
                self.writes.append(w)
        for a in o.assigned:
            if a not in self.assigned:
                self.assigned.append(a)
        self.exc |= o.exc
        self.returns |= o.returns
        self.continues |= o.continues


def lambda_get(node):
    """X.get(k, lambda...: ...) -> the Lambda node"""
    if (isinstance(node, ast.Call) and isinstance(node.func, ast.Attribute) and node.func.attr == 'get'
            and len(node.args) == 2 and isinstance(node.args[1], ast.Lambda) and not node.keywords):
        return node.args[1]
    return None


def effects(mod, stmts, env):
    """syntactic effect analysis of a statement list"""
    e = Eff()
    funopt = {}
    for s in stmts:
        for n in ast.walk(s):
            if isinstance(n, ast.Assign) and len(n.targets) == 1 and isinstance(n.targets[0], ast.Name) and lambda_get(n.value):
                funopt[n.targets[0].id] = lambda_get(n.value)

    def target(t, node):
        if isinstance(t, ast.Name):
            if t.id not in e.assigned:
                e.assigned.append(t.id)
        elif isinstance(t, ast.Tuple):
            for x in t.elts:
                target(x, node)
        elif isinstance(t, ast.Subscript):
            sm = slot_match(env, t)
            if sm:
                if sm[0]['component'] not in e.writes:
                    e.writes.append(sm[0]['component'])
            elif isinstance(t.value, ast.Attribute) and is_obj(env, t.value.value) and t.value.attr in mod.components:
                if t.value.attr not in e.writes:
                    e.writes.append(t.value.attr)
            elif isinstance(t.value, ast.Name):
                if t.value.id not in e.assigned:
                    e.assigned.append(t.value.id)
            else:
                raise Unsupported(node, 'assignment target is outside the supported subset')
        elif isinstance(t, ast.Attribute) and isinstance(t.value, ast.Name) and t.value.id in env.structs:
            key = mod.struct_field(env.structs[t.value.id], t.value.id, t.attr, node)
            if key not in e.assigned:
                e.assigned.append(key)
        elif isinstance(t, ast.Attribute) and is_obj(env, t.value) and t.attr in mod.properties:
            f = mod.funs.get('%s.%s.setter' % (mod.cls, t.attr))
            if f is None:
                raise Unsupported(node, 'property %s assigned before its setter is translated' % t.attr)
            for w in f.writes:
                if w not in e.writes:
                    e.writes.append(w)
            e.exc |= f.exc
        else:
            raise Unsupported(node, 'assignment target is outside the supported subset')

    def walk(n, in_loop):
        if isinstance(n, (ast.FunctionDef, ast.AsyncFunctionDef, ast.ClassDef)):
            raise Unsupported(n, 'nested %s is outside the supported subset' % type(n).__name__)
        if isinstance(n, ast.While) and mod._cur and mod._cur.get('while_fuel'):
            if 'fuel_ok' not in e.assigned:
                e.assigned.append('fuel_ok')
        elif isinstance(n, (ast.While, ast.With, ast.Global, ast.Nonlocal, ast.Delete, ast.Import, ast.ImportFrom,
                            ast.Assert, ast.Match, ast.AsyncFor, ast.AsyncWith, ast.Break, ast.Try)):
            raise Unsupported(n, 'statement %s is outside the supported subset' % type(n).__name__)
        ms = method_stmt(None, n)
        if ms and ms[0] in ('extend', 'append', 'update') and ms[1] not in e.assigned:
            e.assigned.append(ms[1])
        if isinstance(n, ast.Raise):
            if raise_is_return(mod, n, env):
                e.returns = True
            else:
                e.exc = True
        elif isinstance(n, ast.Return):
            e.returns = True
        elif isinstance(n, ast.Continue):
            e.continues = True
        elif isinstance(n, ast.Assign):
            for t in n.targets:
                target(t, n)
        elif isinstance(n, ast.AugAssign):
            target(n.target, n)
        elif isinstance(n, ast.For):
            target(n.target, n)
        elif isinstance(n, ast.Call) and oracle_match(mod, n):
            o = oracle_match(mod, n)[0]
            for v in (o['results'], o.get('log')):
                if v and v not in e.assigned:
                    e.assigned.append(v)
            if o.get('guard'):
                e.exc = True
        elif isinstance(n, ast.Call):
            f = resolve_fn(env, n.func)
            if f is not None:
                for w in f.writes:
                    if w not in e.writes:
                        e.writes.append(w)
                e.exc |= f.exc
            elif isinstance(n.func, ast.Name) and n.func.id in funopt:
                if len(funopt[n.func.id].args.args) != len(n.args):
                    e.exc = True
        for c in ast.iter_child_nodes(n):
            walk(c, in_loop)

    for s in stmts:
        walk(s, False)
    return e


def raise_is_return(mod, n, env):
    """`raise x` of a local whose type represents the raise by the value itself"""
    return isinstance(n.exc, ast.Name)


def terminates(stmts):
    if not stmts:
        return False
    s = stmts[-1]
    if isinstance(s, (ast.Return, ast.Raise, ast.Continue)):
        return True
    if isinstance(s, ast.If):
        return terminates(s.body) and terminates(s.orelse)
    return False


# ---------------------------------------------------------------- contexts
class Ctx:
    """shape of the values the current definition produces"""

    def __init__(self, mod, state, exc, ret, loop=None):
        self.mod, self.state, self.exc, self.ret, self.loop = mod, list(state), exc, ret, loop
        # loop: None | 'plain' | 'return'   (a loop body yields its accumulator)

    def S(self, env):
        names = [state_name(env, v) for v in self.state]
        return names[0] if len(names) == 1 else '(%s)' % ', '.join(names)

    def wrap(self, env, r):
        """r: text of the res-level value (or the plain value when no raise)"""
        if self.state:
            return '(%s, %s)' % (self.S(env), r)
        return r

    def ret_(self, env, v, node):
        if self.loop == 'plain':
            raise Unsupported(node, 'internal: return inside a loop classified without return')
        if self.loop == 'return':
            return 'Ok (Some %s)' % par(v) if self.exc else 'Some %s' % par(v)
        if self.exc:
            return self.wrap(env, 'Ok %s' % par(v))
        if self.state:
            return self.S(env) if self.ret == ('unit',) else '(%s, %s)' % (self.S(env), v)
        return v

    def cont(self, env):
        """falling off the end of a loop body / continue"""
        if self.loop == 'return':
            return 'Ok None' if self.exc else 'None'
        if self.exc:
            return self.wrap(env, 'Ok tt')
        return self.S(env)

    def raise_(self, env, e, node):
        if not self.exc:
            raise Unsupported(node, 'internal: raise in a definition classified as non-raising')
        return self.wrap(env, 'Raise %s' % par(e))

    def end(self, env, node):
        """control falls off the end of the definition"""
        if self.loop:
            return self.cont(env)
        if self.ret == ('unit',):
            return self.ret_(env, 'tt', node)
        none = self.mod.T.base(self.ret).get('none') if self.ret[0] not in ('list', 'dict', 'option', 'tuple', 'set', 'fun') else None
        if self.ret[0] == 'option':
            none = 'None'
        if none is None:
            raise Unsupported(node, 'control reaches the end of a function whose result type %s has no None' % (self.ret,))
        return self.ret_(env, none, node)


def state_name(env, v):
    """current coq name of a state variable (a component or a carried local)"""
    if v in env.mod.components or v in [s['component'] for s in env.mod.slots]:
        return env.comps[v]
    return env.vars[v][0]


def exn_term(mod, node, env):
    """raise KeyError('text' % x) -> coq exn term"""
    c = node.exc
    if not (isinstance(c, ast.Call) and isinstance(c.func, ast.Name) and c.func.id in mod.exceptions and not c.keywords):
        raise Unsupported(node, 'raise of something other than a known exception constructor')
    spec = mod.exceptions[c.func.id]
    if spec['args'] == 0:
        if c.args:
            raise Unsupported(node, '%s with arguments' % c.func.id)
        return spec['coq']
    if len(c.args) != 1:
        raise Unsupported(node, '%s with %d arguments' % (c.func.id, len(c.args)))
    a = c.args[0]
    if spec.get('arg') == 'value':
        v, t = expr(env, a)
        if t != ('str',):
            raise Unsupported(node, '%s of a %s' % (c.func.id, t[0]))
        return spec['coq'].format(par(v))
    if isinstance(a, ast.BinOp) and isinstance(a.op, ast.Mod) and isinstance(a.left, ast.Constant) and isinstance(a.left.value, str):
        expr(env, a.right)       # the formatted value must itself be translatable
        text = a.left.value
    elif isinstance(a, ast.Constant) and isinstance(a.value, str):
        text = a.value
    else:
        raise Unsupported(node, 'exception message other than a string constant or constant %% value')
    text = re.split(r'[:%]', text)[0].strip()       # the literal part; the formatted value is not modelled
    return spec['coq'].format(cstr(text))


# ---------------------------------------------------------------- blocks
def block(stmts, env, ctx, tail):
    """compile stmts; tail(env) gives the term for what follows them"""
    if not stmts:
        return tail(env)
    s, rest = stmts[0], stmts[1:]

    def k(env2):
        return block(rest, env2, ctx, tail)

    if isinstance(s, ast.Expr) and isinstance(s.value, ast.Constant) and isinstance(s.value.value, str):
        return k(env)                                  # docstring: dropped, never copied
    if isinstance(s, ast.Pass):
        return k(env)
    if isinstance(s, (ast.Return, ast.Raise, ast.Continue)) and rest:
        raise Unsupported(rest[0], 'statement after return/raise/continue')
    if isinstance(s, ast.Return):
        if s.value is None:
            return ctx.end(env, s) if not ctx.loop else ctx.ret_(env, none_of(ctx, s), s)
        f = resolve_fn(env, s.value.func) if isinstance(s.value, ast.Call) else None
        if f is not None and not f.pure:
            # tail call: same effect class and result type -> the call itself (monad right identity)
            c = call_fn(env, f, call_args(env, f, s.value), s)
            if not ctx.loop and f.ret == ctx.ret and f.exc == ctx.exc and list(f.writes) == ctx.state:
                return c
            return bind_call(env, ctx, f, c, 'r_', s, lambda e2: ctx.ret_(e2, 'r_', s))
        if ctx.ret[0] == 'orexn':
            # the function returns either a value or an exception OBJECT (it does not raise it)
            if isinstance(s.value, ast.Call) and isinstance(s.value.func, ast.Name) and s.value.func.id in ctx.mod.exceptions:
                fake = ast.copy_location(ast.Raise(exc=s.value, cause=None), s)
                return ctx.ret_(env, 'inr %s' % par(exn_term(ctx.mod, fake, env)), s)
            v, t = expr(env, s.value, ctx.ret[1])
            if t != ctx.ret[1]:
                raise Unsupported(s, 'return of a %s where the signature file says %s' % (t, ctx.ret))
            return ctx.ret_(env, 'inl %s' % par(v), s)
        v, t = expr(env, s.value, ctx.ret)
        if ctx.ret[0] == 'option' and t == ctx.ret[1]:
            v, t = 'Some %s' % par(v), ctx.ret             # None | T is option T
        if t != ctx.ret:
            raise Unsupported(s, 'return of a %s where the signature file says %s' % (t, ctx.ret))
        return ctx.ret_(env, v, s)
    if isinstance(s, ast.Raise):
        if s.exc is None:
            raise Unsupported(s, 'bare raise')
        if raise_is_return(ctx.mod, s, env):
            v, t = expr(env, s.exc)
            if t != ctx.ret or not ctx.mod.T.table.get(t[0], {}).get('raise_as_return'):
                raise Unsupported(s, 'raise of a value of type %s' % (t,))
            ctx.mod.assume(s, 'raising a value of type %s is represented by returning it' % t[0])
            return ctx.ret_(env, v, s)
        return ctx.raise_(env, exn_term(ctx.mod, s, env), s)
    if isinstance(s, ast.Continue):
        if not ctx.loop:
            raise Unsupported(s, 'continue outside a loop')
        return ctx.cont(env)
    if isinstance(s, ast.Assign):
        if len(s.targets) != 1:
            raise Unsupported(s, 'chained assignment')
        return assign(s, s.targets[0], s.value, env, ctx, k)
    if isinstance(s, ast.AugAssign):
        if not isinstance(s.target, ast.Name):
            raise Unsupported(s, 'augmented assignment to something other than a local')
        return assign(s, s.target, ast.copy_location(ast.BinOp(left=ast.Name(id=s.target.id, ctx=ast.Load()), op=s.op, right=s.value), s), env, ctx, k)
    if isinstance(s, ast.Expr) and ast.unparse(s.value) in (ctx.mod._cur or {}).get('noop_calls', {}):
        ctx.mod.assume(s, (ctx.mod._cur or {})['noop_calls'][ast.unparse(s.value)])
        return k(env)
    if isinstance(s, ast.Expr) and method_stmt(None, s) and method_stmt(None, s)[0] == 'extend' \
            and method_stmt(None, s)[1] in env.vars and len(s.value.args) == 1:
        name = method_stmt(None, s)[1]
        cq, lt = env.vars[name]
        v, t = expr(env, s.value.args[0])
        if lt[0] != 'list' or t != lt:
            raise Unsupported(s, 'extend of a %s by a %s' % (lt, t))
        e2 = env.fork()
        return let(cq, '%s ++ %s' % (par(cq), par(v)), k(e2))
    ms_ = method_stmt(None, s) if isinstance(s, ast.Expr) else None
    if ms_ and ms_[0] == 'append' and ms_[1] in env.vars and len(s.value.args) == 1:
        cq, lt = env.vars[ms_[1]]
        if lt[0] != 'list':
            raise Unsupported(s, 'append to a %s' % (lt,))
        v, t = expr(env, s.value.args[0], lt[1])
        if t != lt[1]:
            raise Unsupported(s, 'append of a %s to a %s' % (t, lt))
        return let(cq, '%s ++ [%s]' % (par(cq), v), k(env.fork()))
    if ms_ and ms_[0] == 'update' and ms_[1] in env.vars and len(s.value.args) == 1:
        cq, dt = env.vars[ms_[1]]
        rule = ctx.mod.T.table.get(dt[0], {}).get('update')
        v, t = expr(env, s.value.args[0])
        if rule is None or t != dt:
            raise Unsupported(s, 'update of a %s by a %s' % (dt, t))
        return let(cq, rule.format(par(cq), par(v)), k(env.fork()))
    if isinstance(s, ast.While):
        return while_stmt(s, env, ctx, k)
    if isinstance(s, ast.Expr):
        if isinstance(s.value, ast.Call):
            f = resolve_fn(env, s.value.func)
            if f is not None and not f.pure:
                c = call_fn(env, f, call_args(env, f, s.value), s)
                return bind_call(env, ctx, f, c, '_', s, k)
        raise Unsupported(s, 'expression statement other than a call of a translated function with an effect')
    if isinstance(s, ast.If):
        return if_stmt(s, rest, env, ctx, tail)
    if isinstance(s, ast.For):
        return for_stmt(s, env, ctx, k)
    raise Unsupported(s, 'statement %s is outside the supported subset' % type(s).__name__)


def none_of(ctx, node):
    b = ctx.mod.T.base(ctx.ret) if ctx.ret[0] not in ('list', 'dict', 'option', 'tuple', 'set', 'fun') else {}
    if 'none' not in b:
        raise Unsupported(node, 'bare return in a function whose result type has no None')
    return b['none']


def let(pat, val, body):
    """let-binding with the peephole `let x := e in x` -> e"""
    if body.strip() == pat.lstrip("'").strip():
        return val
    if '\n' in val:
        return 'let %s :=\n%s in\n%s' % (pat, indent(val, 2), body)
    return 'let %s := %s in\n%s' % (pat, val, body)


def arms(scrut, *cases):
    """match with (pattern, body) arms; multi-line bodies are indented under their arm"""
    out = ['match %s with' % scrut]
    for pat, body in cases:
        out.append('| %s => %s' % (pat, body) if '\n' not in body else '| %s =>\n%s' % (pat, indent(body, 4)))
    return '\n'.join(out + ['end'])


def ite(c, a, b):
    if '\n' not in a and '\n' not in b and len(c) + len(a) + len(b) < 90:
        return 'if %s then %s else %s' % (c, a, b)
    if b.startswith('if '):
        return 'if %s\nthen%s\nelse %s' % (c, ' ' + a if '\n' not in a else '\n' + indent(a, 2), b)
    return 'if %s\nthen%s\nelse%s' % (c, ' ' + a if '\n' not in a else '\n' + indent(a, 2),
                                      ' ' + b if '\n' not in b else '\n' + indent(b, 2))


def set_state(env, v, newname):
    if v in env.comps or v in env.mod.components or v in [s['component'] for s in env.mod.slots]:
        env.comps[v] = newname
    else:
        env.vars[v] = (newname, env.vars[v][1])


def bind_call(env, ctx, f, c, x, node, k):
    """sequence a call of an effectful translated function with continuation k"""
    for w in f.writes:
        if w not in ctx.state:
            raise Unsupported(node, 'internal: callee writes %s which the caller does not thread' % w)
    e2 = env.fork()
    same = (not ctx.loop or ctx.loop == 'plain') and list(f.writes) == ctx.state and f.exc == ctx.exc and f.exc
    if f.writes:
        if len(f.writes) != 1:
            raise Unsupported(node, 'callee writing more than one state component')
        sv = state_name(env, f.writes[0])
        if f.exc:
            kt = k(e2)
            # monad right identity: m >>= return  is  m
            if same and ((x != '_' and kt == ctx.wrap(e2, 'Ok %s' % x)) or (f.ret == ('unit',) and kt == ctx.wrap(e2, 'Ok tt'))):
                return c
            return "let '(%s, r) := %s in\n%s" % (sv, c, arms('r', ('Raise e', ctx.raise_(e2, 'e', node)), ('Ok %s' % x, kt)))
        if f.ret == ('unit',):
            return let(sv, c, k(e2))
        return let("'(%s, %s)" % (sv, x), c, k(e2))
    kt = k(e2)
    if same and ((x != '_' and kt == 'Ok %s' % x) or (f.ret == ('unit',) and kt == 'Ok tt')):
        return c
    return arms(c, ('Raise e', ctx.raise_(e2, 'e', node)), ('Ok %s' % x, kt))


def oracle_bind(env, ctx, value, node, use):
    """value is an oracle call: consume the next recorded result, log the arguments; use(env, text, type)
    continues with the result"""
    mod = ctx.mod
    o, holes = oracle_match(mod, value)
    args = []
    for i, at in enumerate(o['args']):
        a, t = expr(env, holes['_%d_' % i], at)
        a, t, _, _ = coerce_to(env, a, t, at)
        if t != at:
            raise Unsupported(node, 'argument %d of the oracle call has type %s, the signature file says %s' % (i, t, at))
        args.append(a)
    res = o['results']
    if res not in env.vars or env.vars[res][1] != ('list', o['ret']):
        raise Unsupported(node, 'the result list %s of the oracle is not in scope with type list %s' % (res, o['ret']))
    e2 = env.fork()
    rq = env.vars[res][0]
    r = 'r_'
    e2.vars['r_'] = (r, o['ret'])
    body = use(e2, r, o['ret'])
    if o.get('log'):
        lq, lt = env.vars[o['log']]
        body = let(lq, '%s ++ [(%s)]' % (par(lq), ', '.join(args)), body)
    body = let(r, 'hd %s %s' % (mod.T.default(o['ret'], node), par(rq)), let(rq, 'tl %s' % par(rq), body))
    if o.get('guard'):
        g = o['guard'].format(*[par(a) for a in args])
        return ite(g, body, ctx.raise_(env, mod.exceptions[o['guard_exn']]['coq'], node))
    return body


def coerce_to(env, a, t, want):
    from expr import arith
    if t == ('nat',) and arith(env, want) == 'Z':
        return 'Z.of_nat %s' % par(a), want, None, None
    return a, t, None, None


def assign(s, target, value, env, ctx, k):
    mod = ctx.mod
    e2 = env.fork()
    declared = (mod._cur or {}).get('locals', {})
    if isinstance(value, ast.Call) and oracle_match(mod, value):
        def use(e3, r, rt):
            tmp = ast.copy_location(ast.Name(id='r_', ctx=ast.Load()), value)
            return assign(s, target, tmp, e3, ctx, k)
        return oracle_bind(env, ctx, value, s, use)
    if isinstance(target, ast.Subscript) and isinstance(target.slice, ast.Slice) and isinstance(target.value, ast.Name) \
            and target.value.id in env.vars:
        cq, lt = env.vars[target.value.id]
        sl = target.slice
        if lt[0] != 'list' or sl.step is not None or sl.lower is None or sl.upper is None:
            raise Unsupported(s, 'slice assignment other than a[s:e] = v on a list')
        lo, t1 = expr(env, sl.lower)
        hi, t2 = expr(env, sl.upper)
        if t1 != ('nat',) or t2 != ('nat',):
            raise Unsupported(s, 'slice bounds that are not integers')
        v, t = expr(env, value, lt[1])
        if t == lt[1] and isinstance(value, ast.Constant):
            v = 'repeat %s (%s - %s)' % (par(v), par(hi), par(lo))      # numpy broadcasts a scalar over the slice
        elif t != lt:
            raise Unsupported(s, 'slice assignment of a %s into a %s' % (t, lt))
        else:
            mod.assume(s, 'a[s:e] = v is the splice of v (numpy requires len v = e - s; not checked here)')
        return let(cq, 'splice %s %s %s %s' % (par(cq), par(lo), par(hi), par(v)), k(e2))
    if isinstance(target, ast.Subscript) and isinstance(target.value, ast.Name) and target.value.id in env.vars \
            and env.vars[target.value.id][1][0] == 'zdict':
        cq, dt = env.vars[target.value.id]
        key, kt = expr(env, target.slice)
        v, t = expr(env, value, dt[1])
        if kt != ('int',) or t != dt[1]:
            raise Unsupported(s, 'store of a %s under a %s key into a %s' % (t, kt, dt))
        return let(cq, 'zdset %s %s %s' % (par(cq), par(key), par(v)), k(e2))
    # --- special right-hand sides bound to a local without emitting code
    if isinstance(target, ast.Name):
        lam = lambda_get(value)
        if lam is not None:
            d, dt = expr(env, value.func.value)
            key, kt = expr(env, value.args[0])
            if dt[0] != 'dict' or dt[1][0] != 'fun' or kt != ('str',):
                raise Unsupported(s, '.get with a lambda default on a %s' % (dt,))
            if lam.args.vararg or lam.args.kwarg or lam.args.kwonlyargs or lam.args.defaults:
                raise Unsupported(s, 'lambda default with non-positional parameters')
            e2.vars.pop(target.id, None)
            e2.funopts[target.id] = (d, key, dt[1], lam)
            return k(e2)
        if (isinstance(value, ast.Subscript) and isinstance(value.value, ast.Attribute)
                and is_obj(env, value.value.value) and value.value.attr in mod.tables):
            key, kt = expr(env, value.slice)
            if kt != ('str',):
                raise Unsupported(s, 'reaction table indexed by a %s' % kt[0])
            e2.vars.pop(target.id, None)
            e2.tables[target.id] = (value.value.attr, key)
            return k(e2)
        f = resolve_fn(env, value.func) if isinstance(value, ast.Call) else None
        cq = cname(target.id)
        if f is not None and not f.pure:
            c = call_fn(env, f, call_args(env, f, value), s)

            def kk(e3):
                e3.vars[target.id] = (cq, f.ret)
                return k(e3)
            return bind_call(env, ctx, f, c, cq, s, kk)
        want = env.vars[target.id][1] if target.id in env.vars else (parse_type(declared[target.id]) if target.id in declared else None)
        if target.id in (mod._cur or {}).get('retype', []):
            want = None
        v, t = expr(env, value, want)
        if want is not None and target.id not in env.vars and t != want:
            raise Unsupported(s, 'local %s is declared %s in the signature file but assigned a %s' % (target.id, want, t))
        if isinstance(value, ast.Attribute) and isinstance(value.value, ast.Name) and value.value.id in env.structs and t[0] == 'list':
            mod.aliases.append((target.id, mod.struct_field(env.structs[value.value.id], value.value.id, value.attr, s), s))
        if target.id in env.vars and env.vars[target.id][1] != t and target.id not in (mod._cur or {}).get('retype', []):
            raise Unsupported(s, 'local %s changes type from %s to %s' % (target.id, env.vars[target.id][1], t))
        e2.vars[target.id] = (cq, t)
        e2.known.pop(target.id, None)
        e2.funopts.pop(target.id, None)
        e2.tables.pop(target.id, None)
        return let(cq, v, k(e2))
    if isinstance(target, ast.Attribute) and isinstance(target.value, ast.Name) and target.value.id in env.structs:
        key = mod.struct_field(env.structs[target.value.id], target.value.id, target.attr, s)
        ftype = mod.structs[env.structs[target.value.id]][key.split('.')[1]]
        fname = '%s_%s' % (cname(key.split('.')[0]), cname(key.split('.')[1]))
        v, t = expr(env, value, ftype)
        if ftype[0] == 'option' and t == ftype[1]:
            v, t = 'Some %s' % par(v), ftype                 # None | T is option T
        if t != ftype:
            raise Unsupported(s, 'store of a %s into field %s of type %s' % (t, key, ftype))
        e2.vars[key] = (fname, t)
        return let(fname, v, k(e2))
    if isinstance(target, ast.Tuple):
        if not all(isinstance(t, ast.Name) for t in target.elts):
            raise Unsupported(s, 'tuple assignment to something other than names')
        if not isinstance(value, ast.Tuple):
            v, vt = expr(env, value)
            if vt[0] != 'tuple' or len(vt) - 1 != len(target.elts):
                raise Unsupported(s, 'unpacking of a %s into %d names' % (vt[0], len(target.elts)))
            for t, ty in zip(target.elts, vt[1:]):
                if t.id in env.vars and env.vars[t.id][1] != ty:
                    raise Unsupported(s, 'local %s changes type' % t.id)
                e2.vars[t.id] = (cname(t.id), ty)
            return let("'(%s)" % ', '.join(cname(t.id) for t in target.elts), v, k(e2))
        if len(value.elts) != len(target.elts):
            raise Unsupported(s, 'tuple assignment of different lengths')
        vals = [expr(env, v) for v in value.elts]
        names = []
        for t, (v, ty) in zip(target.elts, vals):
            if t.id in env.vars and env.vars[t.id][1] != ty:
                raise Unsupported(s, 'local %s changes type' % t.id)
            e2.vars[t.id] = (cname(t.id), ty)
            names.append(cname(t.id))
        return let("'(%s)" % ', '.join(names), '(%s)' % ', '.join(v for v, _ in vals), k(e2))
    if isinstance(target, ast.Attribute) and is_obj(env, target.value) and target.attr in mod.properties:
        f = mod.funs['%s.%s.setter' % (mod.cls, target.attr)]
        v = expr(env, value, f.params[0][1])
        c = call_fn(env, f, [v], s)
        return bind_call(env, ctx, f, c, '_', s, k)
    if isinstance(target, ast.Subscript):
        sm = slot_match(env, target)
        if sm:
            comp, vt, knode = sm[0]['component'], sm[0]['type'][1], sm[1]
        elif isinstance(target.value, ast.Attribute) and is_obj(env, target.value.value) and target.value.attr in mod.components:
            comp, vt, knode = target.value.attr, mod.components[target.value.attr]['type'][1], target.slice
        else:
            comp = None
        if comp:
            if comp not in ctx.state:
                raise Unsupported(s, 'internal: write to %s not found by the effect analysis' % comp)
            key, kt = expr(env, knode)
            v, t = expr(env, value, vt)
            if kt != ('str',) or t != vt:
                raise Unsupported(s, 'store of a %s under a %s key into %s' % (t, kt, comp))
            cur = env.comp(comp, s)
            e2.guards = set(g for g in e2.guards if g[0] != cur)
            return let(cur, 'dset %s %s %s' % (par(cur), par(key), par(v)), k(e2))
        if isinstance(target.value, ast.Name) and target.value.id in env.vars:
            cq, lt = env.vars[target.value.id]
            i, it = expr(env, target.slice)
            v, t = expr(env, value, lt[1] if lt[0] == 'list' else None)
            if lt[0] != 'list' or it != ('nat',) or t != lt[1]:
                raise Unsupported(s, 'store of a %s at a %s index into a %s' % (t, it, lt))
            return let(cq, 'upd %s %s %s' % (par(cq), par(i), par(v)), k(e2))
    raise Unsupported(s, 'assignment target is outside the supported subset')


def condition(test, env, ctx, node):
    """-> (wrap(then, else) -> text, env_then, env_else)"""
    et, ee = env.fork(), env.fork()
    nt = none_test(env, test)
    if nt and env.vars[nt[0]][1][0] == 'option':
        name, is_not = nt
        cq, t = env.vars[name]
        (et if is_not else ee).vars[name] = (cq + '_v', t[1])
        (et if is_not else ee).known[name] = 'some'
        (ee if is_not else et).known[name] = 'none'

        def wrap(a, b):
            some, none = (a, b) if is_not else (b, a)
            return arms(cq, ('Some %s_v' % cq, some), ('None', none))
        return wrap, et, ee
    neg = False
    inner = test
    if isinstance(test, ast.UnaryOp) and isinstance(test.op, ast.Not):
        neg, inner = True, test.operand
    if isinstance(inner, ast.Call) and isinstance(inner.func, ast.Name) and inner.func.id in env.funopts:
        d, key, ft, lam = env.funopts[inner.func.id]
        if inner.keywords or len(inner.args) != 1:
            raise Unsupported(node, 'call of an optional function with other than one positional argument')
        a, ta = expr(env, inner.args[0])
        if ta != ft[1] or ft[2] != ('bool',):
            raise Unsupported(node, 'optional function of type %s applied to %s' % (ft, ta))
        fn = cname(inner.func.id)
        if len(lam.args.args) != 1:
            # the default cannot be applied to one argument: Python raises TypeError at the call
            miss = ctx.raise_(env, ctx.mod.exceptions[ctx.mod.arity_error]['coq'], node)
        else:
            raise Unsupported(node, 'lambda default of matching arity (not needed so far)')

        def wrap(a_, b_):
            c = '%s %s' % (fn, par(a))
            if neg:
                c = 'negb (%s)' % c
            return arms('dget %s %s' % (par(d), par(key)), ('None', miss), ('Some %s' % fn, ite(c, a_, b_)))
        return wrap, et, ee
    c = truth(env, test)
    # membership guards make later reads of that key provably total
    if isinstance(inner, ast.Compare) and len(inner.ops) == 1 and isinstance(inner.ops[0], (ast.In, ast.NotIn)) \
            and not is_obj(env, inner.comparators[0]):
        ktxt, _ = expr(env, inner.left)
        dtxt, dt = expr(env, inner.comparators[0])
        if dt[0] == 'dict':
            positive = isinstance(inner.ops[0], ast.In) != neg
            (et if positive else ee).guards.add((dtxt, ktxt))
    return (lambda a, b: ite(c, a, b)), et, ee


def if_stmt(s, rest, env, ctx, tail):
    nt0 = none_test(env, s.test)
    if nt0 and nt0[0] in env.known:
        # an enclosing test of the same local already decided this one: only the live branch exists
        live = s.body if (env.known[nt0[0]] == 'some') == nt0[1] else s.orelse
        if terminates(live):
            return block(list(live), env, ctx, tail)       # what follows the if is not reached on this path
        return block(list(live) + list(rest), env, ctx, tail)
    wrap, et, ee = condition(s.test, env, ctx, s)
    tb, to = terminates(s.body), terminates(s.orelse)

    def k(env2):
        return block(rest, env2, ctx, tail)

    if tb or to:
        if tb and to and rest:
            raise Unsupported(rest[0], 'statement after an if whose branches all leave')
        a = block(s.body, et, ctx, (lambda e: k(e)) if not tb else dead(s))
        b = block(s.orelse, ee, ctx, (lambda e: k(e)) if not to else dead(s))
        return wrap(a, b)
    eb = effects(ctx.mod, s.body + s.orelse, env)
    direct_raise = any(isinstance(n, ast.Raise) for st in s.body + s.orelse for n in ast.walk(st))
    if eb.returns or eb.continues or direct_raise:
        # a branch leaves in the middle: compile each branch with the continuation (it is duplicated)
        return wrap(block(s.body, et, ctx, k), block(s.orelse, ee, ctx, k))
    if not eb.writes and not eb.exc:
        # pure branches: they only (re)bind locals; merge them through a tuple
        merged = []
        ab, ao = effects(ctx.mod, s.body, env).assigned, effects(ctx.mod, s.orelse, env).assigned
        for v in eb.assigned:
            if v in env.vars or (v in ab and v in ao):
                merged.append(v)
            elif uses_name(rest, v):
                raise Unsupported(s, 'local %s is assigned in only one branch, not defined before, and used afterwards' % v)
        merged = by_first_use(merged, [s])
        if not merged:
            raise Unsupported(s, 'if statement without any effect')
        types = {}

        seen = {}
        unify = [False]

        def out(e):
            names = []
            for v in merged:
                cq, t = e.vars[v]
                seen.setdefault(v, set()).add(t)
                if unify[0] and types[v][0] == 'option' and t != types[v]:
                    cq = cq if t == ('none',) else 'Some %s' % par(cq)      # None | T  ->  option T
                names.append(cq)
            return names[0] if len(names) == 1 else '(%s)' % ', '.join(names)
        sub = Ctx(ctx.mod, [], False, ('unit',))
        mark = len(ctx.mod.out)
        a = block(s.body, et.fork(), sub, out)
        b = block(s.orelse, ee.fork(), sub, out)
        for v in merged:
            ts = seen[v] - {('none',)}
            if len(ts) != 1:
                raise Unsupported(s, 'local %s has different types in the branches' % v)
            t = list(ts)[0]
            types[v] = ('option', t) if ('none',) in seen[v] and t[0] != 'option' else t
        if any(('none',) in seen[v] for v in merged):
            # second pass with the unified types (None | T is option T)
            if len(ctx.mod.out) != mark:
                raise Unsupported(s, 'a loop inside branches that assign None')
            unify[0] = True
            a = block(s.body, et, sub, out)
            b = block(s.orelse, ee, sub, out)
        e2 = env.fork()
        def mname(v):
            return '_'.join(cname(x) for x in v.split('.'))
        for v in merged:
            e2.vars[v] = (mname(v), types[v])
            e2.funopts.pop(v, None)
        names = [mname(v) for v in merged]
        pat = names[0] if len(names) == 1 else "'(%s)" % ', '.join(names)
        return let(pat, wrap(a, b), k(e2))
    # effectful, non-leaving branches: the if is a sub-computation of its own effect class
    if eb.assigned:
        for v in eb.assigned:
            if uses_name(rest, v):
                raise Unsupported(s, 'local %s assigned in an effectful branch and used afterwards' % v)
    sub = Ctx(ctx.mod, [c for c in ctx.state if c in eb.writes], eb.exc, ('unit',))
    a = block(s.body, et, sub, lambda e: sub.ret_(e, 'tt', s))
    b = block(s.orelse, ee, sub, lambda e: sub.ret_(e, 'tt', s))
    return bind_sub(env, ctx, sub, wrap(a, b), s, k)


def by_first_use(names, stmts):
    """order variables by their first occurrence in the source of stmts"""
    pos = {}
    for st in stmts:
        for n in ast.walk(st):
            nm = None
            if isinstance(n, ast.Name):
                nm = n.id
            elif isinstance(n, ast.Attribute) and isinstance(n.value, ast.Name):
                nm = '%s.%s' % (n.value.id, n.attr)
            if nm in names:
                p = (n.lineno, n.col_offset)
                if nm not in pos or p < pos[nm]:
                    pos[nm] = p
    return sorted(names, key=lambda v: pos.get(v, (10 ** 9, 0)))


def dead(node):
    def f(env):
        raise Unsupported(node, 'internal: continuation of a leaving branch')
    return f


def uses_name(stmts, name):
    return any(isinstance(n, ast.Name) and n.id == name for s in stmts for n in ast.walk(s))


def bind_sub(env, ctx, sub, term, node, k, okpat='_'):
    """sequence a sub-computation of class `sub` (unit result) with continuation k"""
    e2 = env.fork()
    if sub.state and sub.exc:
        S = sub.S(env)
        return "let '(%s, r) :=\n%s in\n%s" % (S, indent(term, 2), arms('r', ('Raise e', ctx.raise_(e2, 'e', node)), ('Ok %s' % okpat, k(e2))))
    if sub.state:
        S = sub.S(env)
        return let(S if len(sub.state) == 1 else "'" + S, term, k(e2))
    if sub.exc:
        return arms(term, ('Raise e', ctx.raise_(e2, 'e', node)), ('Ok %s' % okpat, k(e2)))
    raise Unsupported(node, 'internal: sub-computation without effect')


# ---------------------------------------------------------------- loops
def for_stmt(s, env, ctx, k):
    mod = ctx.mod
    if s.orelse:
        raise Unsupported(s, 'for ... else')
    it, et = iterable(env, s.iter)
    be = effects(mod, s.body, env)
    targets = [n.id for n in ast.walk(s.target) if isinstance(n, ast.Name)]
    carried = by_first_use([v for v in env.vars if v in be.assigned and v not in targets], s.body)
    state = [c for c in ctx.state if c in be.writes] + carried
    for w in be.writes:
        if w not in ctx.state:
            raise Unsupported(s, 'internal: loop writes %s which the function does not thread' % w)
    if be.returns and state:
        raise Unsupported(s, 'a loop that both returns early and mutates state')
    if not state and not be.exc and not be.returns:
        raise Unsupported(s, 'a loop without any effect')
    name = mod.loop_name(s)
    kind = 'return' if be.returns else 'plain'
    lctx = Ctx(mod, state, be.exc, ctx.ret, loop=kind)
    # --- the body definition
    benv = env.fork()
    benv.used_comps = set()
    pat = bind_target(benv, s.target, et)
    for v in targets:
        benv.funopts.pop(v, None)
    body = block(s.body, benv, lctx, lambda e: lctx.cont(e))
    elem_name = pat
    if pat.startswith("'"):
        elem_name = 'kv'
        body = 'let %s := kv in\n%s' % (pat, body)
    free = [v for v in env.vars if v not in state and v not in targets and uses_name(s.body, v)]
    if env.record:
        ctxparams = [(env.record, mod.record['type'])] if benv.used_comps or calls_record_fn(mod, s.body, env) else []
    else:
        ctxparams = [(env.comps[c], mod.T.coq(mod.comp_type(c), False)) for c in mod.comp_order
                     if c in benv.used_comps and c not in state and c in env.comps]
    env.used_comps |= benv.used_comps
    ctxparams += [(env.vars[v][0], mod.T.coq(env.vars[v][1], False)) for v in free]
    stypes = [mod.T.coq(mod.comp_type(v) if v in mod.comp_names else env.vars[v][1], False) for v in state]
    snames = [state_name(env, v) for v in state]
    Sty = stypes[0] if len(stypes) == 1 else '(%s)' % ' * '.join(stypes) if stypes else None
    Spat = snames[0] if len(snames) == 1 else '(%s)' % ', '.join(snames) if snames else None
    if kind == 'return':
        rty = mod.T.coq(ctx.ret, False)
        acc_ty = 'res (option %s)' % rty if be.exc else 'option %s' % rty
        if be.exc:
            body_txt = arms('acc', ('Raise e', 'Raise e'), ('Ok (Some r)', 'Ok (Some r)'), ('Ok None', body))
        else:
            body_txt = arms('acc', ('Some r', 'Some r'), ('None', body))
        acc_name, init = 'acc', ('Ok None' if be.exc else 'None')
    elif state and be.exc:
        acc_ty, acc_name = '(%s * res unit)' % Sty, 'st'
        body_txt = arms('st', ('(%s, Raise e)' % Spat, '(%s, Raise e)' % Spat), ('(%s, Ok _)' % Spat, body))
        init = '(%s, Ok tt)' % Spat
    elif state:
        acc_ty = Sty
        if len(state) == 1:
            acc_name, body_txt = snames[0], body
        else:
            acc_name, body_txt = 'st', "let '%s := st in\n%s" % (Spat, body)
        init = Spat
    else:
        acc_ty, acc_name, init = 'res unit', 'acc', 'Ok tt'
        body_txt = arms('acc', ('Raise e', 'Raise e'), ('Ok _', body))
    params = ''.join(' (%s : %s)' % (n, t) for n, t in ctxparams)
    mod.emit_def(name, '%s (%s : %s) (%s : %s)' % (params, acc_name, acc_ty, elem_name, mod.T.coq(et, False)),
                 acc_ty, body_txt, s)
    fold = 'fold_left %s %s %s' % (par(' '.join([name] + [n for n, _ in ctxparams])), par(it), par(init))
    # --- the loop in its function
    e2 = env.fork()
    for v in targets:
        e2.vars.pop(v, None)          # loop targets are not available after the loop
    if kind == 'return':
        if be.exc:
            return arms(fold, ('Raise e', ctx.raise_(e2, 'e', s)), ('Ok (Some r)', ctx.ret_(e2, 'r', s)), ('Ok None', k(e2)))
        return arms(fold, ('Some r', ctx.ret_(e2, 'r', s)), ('None', k(e2)))
    if state and be.exc:
        return arms(fold, ('(%s, Raise e)' % Spat, ctx.raise_(e2, 'e', s)), ('(%s, Ok _)' % Spat, k(e2)))
    if state:
        return let(Spat if len(state) == 1 else "'" + Spat, fold, k(e2))
    return arms(fold, ('Raise e', ctx.raise_(e2, 'e', s)), ('Ok _', k(e2)))


def while_stmt(s, env, ctx, k):
    """while c: body  ->  structural recursion on an explicit fuel argument.  The generated function
    returns (state, true) when the condition became false and (state, false) when the fuel ran out;
    the caller folds that flag into the local fuel_ok, which the function returns."""
    mod = ctx.mod
    cur = mod._cur or {}
    if not cur.get('while_fuel'):
        raise Unsupported(s, 'statement While is outside the supported subset (no fuel named in the signature file)')
    if s.orelse:
        raise Unsupported(s, 'while ... else')
    be = effects(mod, s.body, env)
    if be.writes or be.exc or be.returns or be.continues or 'fuel_ok' in be.assigned:
        raise Unsupported(s, 'a while body that raises, returns, continues, writes object state or contains another while')
    if 'fuel_ok' not in env.vars:
        raise Unsupported(s, 'internal: fuel_ok is not in scope')
    state = by_first_use([v for v in env.vars if v in be.assigned], [s])
    if not state:
        raise Unsupported(s, 'a while loop that changes nothing')
    i = mod._whiles.get(id(cur), 0)
    mod._whiles[id(cur)] = i + 1
    if i >= len(cur.get('whiles', [])) or i >= len(cur['while_fuel']):
        raise Unsupported(s, 'while number %d of %s has no name / fuel in the signature file' % (i + 1, cur['py']))
    name = cur['whiles'][i]
    fuel, ft = expr(env, ast.parse(cur['while_fuel'][i], mode='eval').body)
    if ft != ('nat',):
        raise Unsupported(s, 'the fuel expression of %s is not an integer' % name)
    benv = env.fork()
    cond = truth(benv, s.test)
    lctx = Ctx(mod, state, False, ('unit',), loop='plain')
    body = block(s.body, benv, lctx, lambda e: lctx.cont(e))
    free = [v for v in env.vars if v not in state and v != 'fuel_ok' and (uses_name(s.body, v) or uses_name([s.test], v))]
    fparams = [(env.vars[v][0], mod.T.coq(env.vars[v][1], False)) for v in free]
    stypes = [mod.T.coq(env.vars[v][1], False) for v in state]
    snames = [env.vars[v][0] for v in state]
    Sty = stypes[0] if len(stypes) == 1 else '(%s)' % ' * '.join(stypes)
    Spat = snames[0] if len(snames) == 1 else '(%s)' % ', '.join(snames)
    rec = ' '.join([name, "fuel'"] + [n for n, _ in fparams])
    text = ("let %s := st in\n" % (Spat if len(snames) == 1 else "'" + Spat)
            + 'if %s\nthen\n  match fuel with\n  | O => (st, false)\n  | S fuel\' =>\n      %s\n%s\n  end\nelse (st, true)'
            % (cond, rec, indent(par_block(body), 8)))
    params = ' (fuel : nat)' + ''.join(' (%s : %s)' % x for x in fparams) + ' (st : %s) {struct fuel}' % Sty
    mod.emit_def(name, params, '%s * bool' % Sty, text, s, keyword='Fixpoint')
    e2 = env.fork()
    call = ' '.join([name, par(fuel)] + [n for n, _ in fparams] + [Spat])
    okq = env.vars['fuel_ok'][0]
    return "let '(%s, okw) := %s in\n%s" % (Spat, call, let(okq, '%s && okw' % okq, k(e2)))


def par_block(body):
    return '(%s)' % body


def calls_record_fn(mod, stmts, env):
    for s in stmts:
        for n in ast.walk(s):
            if isinstance(n, ast.Call):
                f = resolve_fn(env, n.func)
                if f is not None and f.record:
                    return True
    return False
