#!/usr/bin/env python3
"""Regenerates MANIFEST.json from the table below (one place to edit)."""
import json, os
ROOT = os.path.dirname(os.path.dirname(os.path.abspath(__file__)))
BASE_NOTE = ('Trusted: Coq 8.16.1 kernel and vm_compute (no native_compute); no axioms declared; extraction with ExtrOcamlBasic only '
             '+ ocaml/driver_tail.ml (sampled against vm_compute on every run); the hand-written model is tied to /repo by the '
             'correspondence run of this check (same cases through implementation and model, all observables compared); ')
CHECKS = {
}
PENDING = {}
import glob
for f in sorted(glob.glob(os.path.join(ROOT, 'manifest.d', 'C*.json'))):
    try:
        d = json.load(open(f))
        pid = os.path.basename(f)[:-5]
        if os.path.exists(os.path.join(ROOT, 'harness', pid.lower() + '.py')) and os.path.exists(os.path.join(ROOT, 'coq', 'Props', pid + '.v')):
            CHECKS[pid] = dict(text=d['text'], note=d.get('note', ''), technique=d.get('technique', 'Coq proof over executable model + correspondence run'), design=d.get('design', '5 ' + pid))
    except Exception as e:
        print('skipping', f, e)
def main():
    props = [json.loads(l)['id'] for l in open(os.path.join(ROOT, 'properties.jsonl'))]
    checks, na = [], []
    for p in props:
        if p in CHECKS:
            c = CHECKS[p]
            checks.append({'property_id': p, 'quick_cmd': './check %s --tier quick' % p,
                           'thorough_cmd': './check %s --tier thorough' % p,
                           'evidence_file': 'evidence/%s.json' % p,
                           'replay_cmd_template': './check %s --replay {path}' % p, 'engine': 'biomv',
                           'level_claimed': {'category': 'proof', 'text': c['text'], 'design_ref': c['design']},
                           'level_note': BASE_NOTE + c['note'], 'technique': c['technique']})
        else:
            na.append({'property_id': p, 'reason': PENDING.get(p, 'check not built yet in this session; design in DESIGN.md section 5 (not a limit of the technique)')})
    m = {'version': 1,
         'setup_cmd': 'tools/setup.sh',
         'hooks': {'guard': 'BIOM_FORMAT_VERIF', 'enable': 'no source hooks: the harness reads private attributes and patches inside its own process; the variable is exported by ./check for completeness',
                   'baseline_off_cmd': 'cd /repo && /venv/bin/python -m pytest -ra -q -p no:cacheprovider --timeout=900 --continue-on-collection-errors',
                   'source_commits': [], 'add_only': True},
         'engines': [{'name': 'biomv', 'path': 'coq/', 'serves_properties': [c['property_id'] for c in checks],
                      'kind_free_text': 'Coq 8.16 development (model + theorems) with extracted OCaml model runner and Python correspondence harness'}],
         'checks': checks, 'not_applicable': na,
         'notes': 'See DESIGN.md. known_findings.jsonl lists recorded and repaired defects.'}
    json.dump(m, open(os.path.join(ROOT, 'MANIFEST.json'), 'w'), indent=1)
main()
