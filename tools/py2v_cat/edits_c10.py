"""The edits of biom/table.py tried against the C10 translator tie (docs/C10.md, "Translator tie"): each is applied to a
scratch copy of the repository (cp -r /repo /tmp/c10gen-repo first; mkdir -p /tmp/c10gen) and run through the whole
`BIOM_REPO=/tmp/c10gen-repo VERIF_OUT=/tmp/c10gen-out ./check C10`; rows go to /tmp/c10gen/rows.json.  Afterwards run
tools/regen_cat.sh and ./check C10 against /repo again."""
import os, re, shutil, subprocess, sys, json, glob
REPO = '/tmp/c10gen-repo'
EDITS = [
 ('check-inverted', 'semantic', 'the disjointness test loses its `not` (raises when the ids ARE disjoint)',
  "if not axis_ids.isdisjoint(table_axis_ids):", "if axis_ids.isdisjoint(table_axis_ids):"),
 ('wrong-accumulator', 'semantic', 'the ids seen so far are accumulated from the other axis',
  "axis_ids.update(table_axis_ids)", "axis_ids.update(table_invaxis_order)"),
 ('md-wrong-axis', 'semantic', 'the remembered metadata of a new id is read on the concatenation axis',
  "invaxis_metadata[i] = table.metadata(i, axis=invaxis)", "invaxis_metadata[i] = table.metadata(i, axis=axis)"),
 ('getter-swapped', 'semantic', "axis == 'sample' selects itemgetter(0) (the None padding of the axis metadata gets the other dimension)",
  "            dim_getter = itemgetter(1)\n            stack = hstack", "            dim_getter = itemgetter(0)\n            stack = hstack"),
 ('never-sorted', 'semantic', 'an operand whose order differs is appended without sort_order',
  "padded_tables.append(tmp_table.sort_order(invaxis_order,\n                                                          axis=invaxis))",
  "padded_tables.append(tmp_table)"),
 ('inv-md-unpadded', 'semantic', "the other axis' metadata is taken from the unpadded receiver",
  "inv_md = padded_tables[0].metadata(axis=invaxis)", "inv_md = all_tables[0].metadata(axis=invaxis)"),
 ('pad-md-none', 'semantic', 'the metadata of the ids an operand lacks is None instead of the remembered entry',
  "tmp_inv_md.extend([invaxis_metadata[i] for i in missing_ids])", "tmp_inv_md.extend([None] * len(missing_ids))"),
 ('union-not-updated', 'semantic', 'the union of the other axis is updated from the concatenation axis ids',
  "invaxis_ids.update(table_invaxis)", "invaxis_ids.update(table_axis_ids)"),
 ('sample-arm-ctor', 'semantic', "the padded block's constructor call in the axis == 'sample' arm gets its two metadata arguments swapped",
  "tmp_table = self.__class__(tmp_mat, tmp_inv_ids, tmp_ids,\n                                               tmp_inv_md, tmp_md)",
  "tmp_table = self.__class__(tmp_mat, tmp_inv_ids, tmp_ids,\n                                               tmp_md, tmp_inv_md)"),
 ('rename-local', 'preserving', 'local table_axis_ids renamed',
  "            table_axis_ids = table.ids(axis=axis)\n", "            tids = table.ids(axis=axis)\n"),
 ('swap-inits', 'preserving', 'the two independent set() initialisations swapped',
  "        axis_ids = set()\n        invaxis_ids = set()\n", "        invaxis_ids = set()\n        axis_ids = set()\n"),
 ('reversed-loop', 'reject', 'the first loop runs over reversed(all_tables)',
  "        # verify disjoint, and fetch all ids from all tables\n        for table in all_tables:",
  "        # verify disjoint, and fetch all ids from all tables\n        for table in reversed(all_tables):"),
 ('sorted-reverse', 'reject', 'sorted(invaxis_ids, reverse=True)',
  "invaxis_order = sorted(invaxis_ids)", "invaxis_order = sorted(invaxis_ids, reverse=True)"),
 ('pinned-invert', 'reject', "_invert_axis (pinned, not translated) returns 'sample' for 'sample'",
  "            return 'observation'\n        elif axis == 'observation':", "            return 'sample'\n        elif axis == 'observation':"),
]
names = sys.argv[1:]
rows = []
os.makedirs('/tmp/c10gen', exist_ok=True)
for name, group, what, old, new in EDITS:
    if names and name not in names:
        continue
    shutil.copy('/repo/biom/table.py', REPO + '/biom/table.py')
    s = open(REPO + '/biom/table.py').read()
    if name == 'rename-local':
        assert s.count('table_axis_ids') == 3
        s2 = s.replace('table_axis_ids', 'tids')
    else:
        assert s.count(old) == 1, (name, s.count(old))
        s2 = s.replace(old, new)
    open(REPO + '/biom/table.py', 'w').write(s2)
    env = dict(os.environ, BIOM_REPO=REPO, VERIF_OUT='/tmp/c10gen-out')
    shutil.rmtree('/tmp/c10gen-out/replays', ignore_errors=True)
    p = subprocess.run(['./check', 'C10'], cwd='/verif', env=env, capture_output=True, text=True)
    out = p.stdout + p.stderr
    open('/tmp/c10gen/%s.log' % name, 'w').write(out)
    refused = [l for l in out.split('\n') if 'REFUSED' in l]
    try:
        ev = json.load(open('/tmp/c10gen-out/evidence/C10.json'))
        refused += [l for l in ev['coverage']['trusted_base'] if 'REFUSED' in l]
    except Exception:
        pass
    diff = subprocess.run(['git', 'diff', '--quiet', '--', 'coq/Gen/ConcatGen.v'], cwd='/verif').returncode
    broke = ''
    rep = {}
    for f in glob.glob('/tmp/c10gen-out/replays/C10-*.json'):
        try:
            rep = json.load(open(f))
        except Exception:
            pass
    out2 = out
    if p.returncode and not refused:
        q = subprocess.run('ulimit -v 8000000; timeout 300 coqc -Q . BiomV Gen/ConcatGen.v && timeout 300 coqc -Q . BiomV '
                           'Proofs/GenBridgeConcatProofs.v && timeout 300 coqc -Q . BiomV Props/C10.v', shell=True,
                           cwd='/verif/coq', capture_output=True, text=True)
        out2 = q.stdout + q.stderr
    m = re.search(r'File "\./(Gen/ConcatGen\.v|Proofs/GenBridgeConcatProofs\.v|Props/C10\.v)", line (\d+)', out2)
    if m:
        lines = open('/verif/coq/' + m.group(1)).read().split('\n')[:int(m.group(2))]
        for l in reversed(lines):
            mm = re.match(r'(Lemma|Theorem|Example|Definition|Fixpoint)\s+(\w+)', l)
            if mm:
                broke = m.group(1) + ': ' + mm.group(2)
                break
    verdict = [l for l in out.split('\n') if l.startswith('VIOLATION') or 'quick:' in l]
    fail = json.dumps([rep.get('case', ''), rep.get('impl', ''), rep.get('oracle', '')], default=str)[:400]
    rows.append((name, group, what, 'REFUSES' if refused else 'accepts', 'differs' if diff else 'same text',
                 broke or (refused[0][:200] if refused else 'all proofs check'), ' | '.join(verdict)[:300], p.returncode, fail))
    print(rows[-1], flush=True)
shutil.copy('/repo/biom/table.py', REPO + '/biom/table.py')
json.dump(rows, open('/tmp/c10gen/rows.json', 'w'), indent=1)
