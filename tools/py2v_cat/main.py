#!/venv/bin/python
"""py2v_cat: small fail-closed translator for Table.concat (biom/table.py): the Python-level logic of the
method (locals, sets / dicts / lists of ids and metadata, loops with accumulators, the pad / reorder
decisions, what is handed to the constructor) becomes Gallina over the named primitives of the
hand-written prelude coq/Gen/CatPrelude.v, typed by the signature file tools/py2v_cat/sigs/concat.json.

usage: main.py [--repo DIR] [--out DIR] [--stdout] [target ...]
Any AST node, name, attribute, call, keyword or message text not covered by the signature file gives exit
code 2 and NO file is written; methods the primitives rely on are pinned by AST hash; statements of the
method after the translated part (if the signature file says "until") are pinned by AST hash too.
Output is deterministic; a file is rewritten only when its text changed.  Source text is never copied
into the output.  (Sibling of tools/py2v, tools/py2v_dyn, tools/py2v_eq; docs/translator.md, "Accumulator mode".)

Every local is a value: `x.m(..)` with m declared mutating rebinds x; a loop becomes a Fixpoint over the
list it runs through whose parameters are the locals it reads and whose result is the tuple of locals it
changes; an `if` whose arms fall through yields the tuple of names it changes."""
import ast
import glob
import hashlib
import json
import os
import sys

HERE = os.path.dirname(os.path.abspath(__file__))
TOOL = 'py2v_cat'


class Unsupported(Exception):
    def __init__(self, node, msg):
        Exception.__init__(self, 'line %s: %s' % (getattr(node, 'lineno', 0), msg))


def dump(nodes, extra=''):
    text = ast.dump(ast.Module(body=list(nodes), type_ignores=[]), annotate_fields=False, include_attributes=False)
    return hashlib.sha256((text + extra).encode()).hexdigest()[:16]


def ast_hash(fn):
    body = fn.body
    if body and isinstance(body[0], ast.Expr) and isinstance(getattr(body[0], 'value', None), ast.Constant) \
            and isinstance(body[0].value.value, str):
        body = body[1:]
    return dump(body, '|' + ast.dump(fn.args, annotate_fields=False, include_attributes=False))


def paren(t):
    t = t.strip()
    if ' ' not in t:
        return t
    if t[0] in '([' and t[-1] in ')]':
        depth = 0
        for i, ch in enumerate(t):
            depth += ch in '(['
            depth -= ch in ')]'
            if depth == 0:
                if i == len(t) - 1:
                    return t
                break
    return '(%s)' % t


def fmt(template, *args):
    return template.format(*[paren(a) for a in args])


def match_pattern(p, node, binds):
    if isinstance(p, ast.Name) and p.id.startswith('_') and p.id.endswith('_') and p.id[1:-1].isdigit():
        k = int(p.id[1:-1])
        if k in binds:
            return ast.dump(binds[k]).replace('Store()', 'Load()') == ast.dump(node).replace('Store()', 'Load()')
        binds[k] = node
        return True
    if type(p) is not type(node):
        return False
    for f, va in ast.iter_fields(p):
        if f in ('ctx', 'type_comment'):
            continue
        vb = getattr(node, f)
        if isinstance(va, list):
            if not isinstance(vb, list) or len(va) != len(vb) or not all(
                    match_pattern(x, y, binds) if isinstance(x, ast.AST) else x == y for x, y in zip(va, vb)):
                return False
        elif isinstance(va, ast.AST):
            if not isinstance(vb, ast.AST) or not match_pattern(va, vb, binds):
                return False
        elif va != vb:
            return False
    return True


def ind(text, n):
    return '\n'.join(' ' * n + ln if ln else ln for ln in text.split('\n'))


class Fn:
    def __init__(self, tr, spec, node):
        self.tr, self.sig, self.spec, self.node = tr, tr.sig, spec, node
        self.aux = []
        self.nloop = 0
        self.depth = 0          # > 0 inside a loop or a merged if: no return
        self.ntmp = 0

    def v(self, name):
        return self.sig.get('rename', {}).get(name, name)

    def tmp(self):
        self.ntmp += 1
        return 't%d_' % self.ntmp

    # ------------------------------------------------------------ expressions
    def overload(self, e, what, table, args, recv=None):
        tys = [a[1] for a in args]
        for ent in table:
            if ent['args'] == tys:
                terms = ([recv] if recv is not None else []) + [a[0] for a in args]
                return fmt(ent['coq'], *terms), ent['type'], ent
        raise Unsupported(e, '%s on arguments of types %s is not in the signature file' % (what, tys))

    def finish(self, term, ent, pre):
        if ent.get('monadic'):
            t = self.tmp()
            pre.append((t, term))
            return t, ent['type']
        return term, ent['type']

    def truth(self, e, t, ty):
        if ty == 'bool':
            return t
        c = self.sig.get('truth', {}).get(ty)
        if c is None:
            raise Unsupported(e, 'truth value of a %s' % ty)
        return fmt(c, t)

    def args_of(self, e, env, pre):
        """positional then keyword arguments -> ([(term, type)], key suffix naming the keywords)"""
        out = []
        for a in e.args:
            if isinstance(a, ast.Starred):
                raise Unsupported(e, 'starred argument')
            out.append(self.cx(a, env, pre))
        kws = []
        for k in e.keywords:
            if k.arg is None:
                raise Unsupported(e, '** argument')
            kws.append(k.arg)
            out.append(self.cx(k.value, env, pre))
        return out, ('(%s)' % ','.join(kws) if kws else '')

    def cx(self, e, env, pre):
        sig = self.sig
        for p in sig.get('patterns', []):
            b = {}
            if match_pattern(ast.parse(p['py'], mode='eval').body, e, b):
                args = [self.cx(b[i], env, pre) for i in sorted(b)]
                if [a[1] for a in args] != p['args']:
                    raise Unsupported(e, 'pattern arguments of types %s, expected %s' % ([a[1] for a in args], p['args']))
                return fmt(p['coq'], *[a[0] for a in args]), p['type']
        if isinstance(e, ast.Name):
            if e.id in env:
                return self.v(e.id), env[e.id]
            g = sig.get('globals', {}).get(e.id)
            if g is None:
                raise Unsupported(e, 'name %s is not a parameter, a local or a name of the signature file' % e.id)
            self.tr.need_import(e, e.id)
            return g[0], g[1]
        if isinstance(e, ast.Constant):
            if isinstance(e.value, bool):
                return ('true' if e.value else 'false'), 'bool'
            if isinstance(e.value, int) and e.value >= 0:
                return str(e.value), 'nat'
            raise Unsupported(e, 'constant %r' % (e.value,))
        if isinstance(e, ast.Attribute):
            base, bty = self.cx(e.value, env, pre)
            a = sig['attrs'].get(bty, {}).get(e.attr)
            if a is None:
                raise Unsupported(e, 'attribute .%s of a %s is not in the signature file' % (e.attr, bty))
            return fmt(a[0], base), a[1]
        if isinstance(e, ast.UnaryOp) and isinstance(e.op, ast.Not):
            t, ty = self.cx(e.operand, env, pre)
            return 'negb %s' % paren(self.truth(e, t, ty)), 'bool'
        if isinstance(e, ast.BinOp):
            l, lty = self.cx(e.left, env, pre)
            r, rty = self.cx(e.right, env, pre)
            key = '%s %s %s' % (lty, type(e.op).__name__, rty)
            b = sig.get('binops', {}).get(key)
            if b is None:
                raise Unsupported(e, 'operator %s is not in the signature file' % key)
            return fmt(b[0], l, r), b[1]
        if isinstance(e, ast.Compare):
            if len(e.ops) != 1:
                raise Unsupported(e, 'chained comparison')
            op, l, r = e.ops[0], e.left, e.comparators[0]
            if isinstance(op, (ast.Is, ast.IsNot)) and isinstance(r, ast.Constant) and r.value is None:
                t, ty = self.cx(l, env, pre)
                c = sig.get('is_none', {}).get(ty)
                if c is None:
                    raise Unsupported(e, 'None test of a %s' % ty)
                t = fmt(c, t)
                return (t if isinstance(op, ast.Is) else 'negb %s' % paren(t)), 'bool'
            if isinstance(op, (ast.Eq, ast.NotEq)) and isinstance(r, ast.Constant) and isinstance(r.value, str):
                t, ty = self.cx(l, env, pre)
                c = sig.get('const_eq', {}).get(ty, {}).get(r.value)
                if c is None:
                    raise Unsupported(e, 'comparison of a %s with the text %r' % (ty, r.value))
                t = fmt(c, t)
                return (t if isinstance(op, ast.Eq) else 'negb %s' % paren(t)), 'bool'
            raise Unsupported(e, 'comparison outside the subset')
        if isinstance(e, ast.Subscript):
            base, bty = self.cx(e.value, env, pre)
            if isinstance(e.slice, ast.Slice):
                s = e.slice
                c = sig.get('copy_slice', {}).get(bty)
                if s.lower is not None or s.upper is not None or s.step is not None or c is None:
                    raise Unsupported(e, 'slice outside the subset')
                return fmt(c, base), bty
            i, ity = self.cx(e.slice, env, pre)
            for ent in sig.get('getitem', {}).get(bty, []):
                if ent['args'] == [ity]:
                    return self.finish(fmt(ent['coq'], base, i), ent, pre)
            raise Unsupported(e, 'item %s[%s] is not in the signature file' % (bty, ity))
        if isinstance(e, ast.Tuple):
            parts = [self.cx(x, env, pre) for x in e.elts]
            key = ','.join(p[1] for p in parts)
            t = sig.get('tuples', {}).get(key)
            if t is None:
                raise Unsupported(e, 'tuple of (%s) is not in the signature file' % key)
            return fmt(t[0], *[p[0] for p in parts]), t[1]
        if isinstance(e, ast.List):
            if not e.elts:
                raise Unsupported(e, 'an empty list whose type is not known')
            parts = [self.cx(x, env, pre) for x in e.elts]
            lty = sig.get('listof', {}).get(parts[0][1])
            if lty is None or any(p[1] != parts[0][1] for p in parts):
                raise Unsupported(e, 'list of %s' % [p[1] for p in parts])
            return '[%s]' % '; '.join(p[0] for p in parts), lty
        if isinstance(e, ast.Dict):
            d = sig.get('empty_dict')
            if e.keys or d is None:
                raise Unsupported(e, 'dict display outside the subset')
            return d[0], d[1]
        if isinstance(e, ast.ListComp):
            if len(e.generators) != 1 or e.generators[0].ifs or e.generators[0].is_async \
                    or not isinstance(e.generators[0].target, ast.Name):
                raise Unsupported(e, 'list comprehension outside the subset')
            g = e.generators[0]
            src, sty = self.cx(g.iter, env, pre)
            ety = sig.get('elem', {}).get(sty)
            if ety is None:
                raise Unsupported(e, 'comprehension over a %s' % sty)
            if g.target.id in env:
                raise Unsupported(e, 'comprehension variable %s shadows a name' % g.target.id)
            env2 = dict(env)
            env2[g.target.id] = ety
            p2 = []
            body, bty = self.cx(e.elt, env2, p2)
            lty = sig.get('listof', {}).get(bty)
            if p2 or lty is None:
                raise Unsupported(e, 'comprehension element outside the subset (a %s)' % bty)
            return 'map (fun %s => %s) %s' % (self.v(g.target.id), body, paren(src)), lty
        if isinstance(e, ast.Call):
            return self.call(e, env, pre)
        raise Unsupported(e, 'expression %s is outside the supported subset' % type(e).__name__)

    def call(self, e, env, pre):
        sig, f = self.sig, e.func
        # self.__class__(...)
        if isinstance(f, ast.Attribute) and f.attr == '__class__' and isinstance(f.value, ast.Name) \
                and f.value.id == 'self' and env.get('self') == sig['self_type']:
            args, suffix = self.args_of(e, env, pre)
            t, ty, ent = self.overload(e, 'the constructor' + suffix, sig.get('constructor', {}).get(suffix, []), args)
            return self.finish(t, ent, pre)
        if isinstance(f, ast.Name) and f.id in env:
            c = sig.get('callable', {}).get(env[f.id])
            if c is None:
                raise Unsupported(e, 'call of a %s' % env[f.id])
            args, suffix = self.args_of(e, env, pre)
            if suffix:
                raise Unsupported(e, 'keyword arguments in a call of a local')
            t, ty, ent = self.overload(e, 'call of a %s' % env[f.id], c, args, self.v(f.id))
            return self.finish(t, ent, pre)
        name = None
        if isinstance(f, ast.Name):
            name = f.id
        elif isinstance(f, ast.Attribute) and isinstance(f.value, ast.Name) and f.value.id not in env \
                and '%s.%s' % (f.value.id, f.attr) in sig.get('functions', {}):
            name = '%s.%s' % (f.value.id, f.attr)
        if name is not None:
            args, suffix = self.args_of(e, env, pre)
            key = name + suffix
            if key not in sig.get('functions', {}):
                raise Unsupported(e, 'call of %s is not in the signature file' % key)
            self.tr.need_import(e, name.split('.')[0])
            t, ty, ent = self.overload(e, key, sig['functions'][key], args)
            return self.finish(t, ent, pre)
        if not isinstance(f, ast.Attribute):
            raise Unsupported(e, 'call outside the supported subset')
        base, bty = self.cx(f.value, env, pre)
        args, suffix = self.args_of(e, env, pre)
        ms = sig['methods'].get(bty, {}).get(f.attr + suffix)
        if ms is None:
            raise Unsupported(e, 'method .%s%s of a %s is not in the signature file' % (f.attr, suffix, bty))
        t, ty, ent = self.overload(e, '.%s%s' % (f.attr, suffix), ms, args, base)
        if ent.get('mutating'):
            raise Unsupported(e, 'in-place method .%s used as a value or on something that is not a local' % f.attr)
        return self.finish(t, ent, pre)

    # ------------------------------------------------------------ statements
    def wrap(self, pre, code):
        for pat, term in reversed(pre):
            code = '%s <- %s ;;\n%s' % (pat, term, code)
        return code

    def leaves(self, stmts):
        if not stmts:
            return False
        s = stmts[-1]
        if isinstance(s, (ast.Return, ast.Raise)):
            return True
        if isinstance(s, ast.If):
            return self.leaves(s.body) and self.leaves(s.orelse)
        return False

    def assigned(self, stmts):
        out = []

        def add(n):
            if isinstance(n, ast.Name) and n.id not in out:
                out.append(n.id)
        for s in stmts:
            for n in ast.walk(s):
                if isinstance(n, ast.Assign):
                    for t in n.targets:
                        add(t if isinstance(t, ast.Name) else getattr(t, 'value', None))
                elif isinstance(n, (ast.AugAssign, ast.AnnAssign, ast.Delete, ast.With, ast.NamedExpr, ast.While,
                                    ast.Try, ast.Global, ast.Nonlocal, ast.Lambda, ast.FunctionDef, ast.ClassDef,
                                    ast.Import, ast.ImportFrom, ast.Yield, ast.YieldFrom, ast.Await)):
                    raise Unsupported(n, 'statement %s is outside the supported subset' % type(n).__name__)
                elif isinstance(n, ast.Expr) and isinstance(n.value, ast.Call) and isinstance(n.value.func, ast.Attribute):
                    add(n.value.func.value)
        return out

    def tuple_of(self, names):
        vs = [self.v(n) for n in names]
        return 'tt' if not vs else vs[0] if len(vs) == 1 else '(%s)' % ', '.join(vs)

    def bind_tuple(self, names, mterm, body):
        if not names:
            return '_ <- (\n%s) ;;\n%s' % (ind(mterm, 4), body)
        if len(names) == 1:
            return '%s <- (\n%s) ;;\n%s' % (self.v(names[0]), ind(mterm, 4), body)
        m = self.tmp()
        return "%s <- (\n%s) ;;\nlet '(%s) := %s in\n%s" % (m, ind(mterm, 4), ', '.join(self.v(n) for n in names), m, body)

    def block(self, stmts, env, tail):
        if not stmts:
            return tail(env)
        s, rest = stmts[0], stmts[1:]
        sig = self.sig
        if isinstance(s, ast.Expr) and isinstance(s.value, ast.Constant) and isinstance(s.value.value, str):
            return self.block(rest, env, tail)
        if isinstance(s, ast.Pass):
            return self.block(rest, env, tail)
        for p in sig.get('stmt_patterns', []):
            b = {}
            if match_pattern(ast.parse(p['py']).body[0], s, b):
                names = [b[i] for i in sorted(b)]
                if not all(isinstance(n, ast.Name) and n.id in env for n in names) or \
                        [env[n.id] for n in names] != p['args']:
                    raise Unsupported(s, 'statement pattern on %s' % [ast.dump(n) for n in names])
                env = dict(env)
                env[names[p['sets']].id] = p['type']
                return 'let %s := %s in\n%s' % (self.v(names[p['sets']].id), fmt(p['coq'], *[self.v(n.id) for n in names]),
                                                self.block(rest, env, tail))
        if isinstance(s, ast.Return):
            if s.value is None or self.depth:
                raise Unsupported(s, 'bare return, or return inside a loop or a merged if')
            if 'until' in self.spec:
                raise Unsupported(s, 'return before the end of the translated part')
            pre = []
            t, ty = self.cx(s.value, env, pre)
            if ty != self.spec['ret']:
                raise Unsupported(s, 'return of a %s where %s is expected' % (ty, self.spec['ret']))
            return self.wrap(pre, 'ROk %s' % paren(t))
        if isinstance(s, ast.Raise):
            return self.raise_(s, env)
        if isinstance(s, ast.Assign):
            return self.assign(s, rest, env, tail)
        if isinstance(s, ast.If):
            return self.if_(s, rest, env, tail)
        if isinstance(s, ast.For):
            return self.for_(s, rest, env, tail)
        if isinstance(s, ast.Expr) and isinstance(s.value, ast.Call) and isinstance(s.value.func, ast.Attribute) \
                and isinstance(s.value.func.value, ast.Name) and s.value.func.value.id in env:
            e, name = s.value, s.value.func.value.id
            if name in self.spec.get('readonly', []):
                raise Unsupported(s, 'in-place method on %s (the caller can see it)' % name)
            pre = []
            args, suffix = self.args_of(e, env, pre)
            ms = sig['methods'].get(env[name], {}).get(e.func.attr + suffix)
            if ms is None:
                raise Unsupported(s, 'method .%s%s of a %s is not in the signature file' % (e.func.attr, suffix, env[name]))
            t, ty, ent = self.overload(e, '.%s' % e.func.attr, ms, args, self.v(name))
            if not ent.get('mutating') or ty != env[name]:
                raise Unsupported(s, 'a call statement that is not an in-place method of a local')
            body = self.block(rest, env, tail)
            if ent.get('monadic'):
                return self.wrap(pre, '%s <- %s ;;\n%s' % (self.v(name), t, body))
            return self.wrap(pre, 'let %s := %s in\n%s' % (self.v(name), t, body))
        raise Unsupported(s, 'statement %s is outside the supported subset' % type(s).__name__)

    def raise_(self, s, env):
        e = s.exc
        if s.cause is not None or not (isinstance(e, ast.Call) and isinstance(e.func, ast.Name) and len(e.args) == 1
                                       and not e.keywords and e.func.id in self.sig.get('exceptions', {})
                                       and e.func.id not in env):
            raise Unsupported(s, 'raise outside the subset (an exception class of the signature file, one message)')
        self.tr.need_import(s, e.func.id)
        m = e.args[0]
        if not (isinstance(m, ast.Constant) and isinstance(m.value, str)):
            raise Unsupported(s, 'exception message outside the subset')
        if m.value not in self.sig.get('raise_messages', []):
            raise Unsupported(s, 'message text %r is not in the signature file' % m.value[:50])
        return 'RErr %s' % self.sig['exceptions'][e.func.id]

    def set_local(self, s, name, ty, env):
        if name == 'self':
            raise Unsupported(s, 'assignment to self')
        if ty not in self.sig['types']:
            raise Unsupported(s, 'a local of type %s' % ty)
        env = dict(env)
        env[name] = ty
        return env

    def assign(self, s, rest, env, tail):
        if len(s.targets) != 1:
            raise Unsupported(s, 'multiple assignment targets')
        tg = s.targets[0]
        pre = []
        if isinstance(tg, ast.Name):
            if isinstance(s.value, ast.List) and not s.value.elts:
                ty = self.sig.get('empty_list', {}).get(tg.id)
                if ty is None:
                    raise Unsupported(s, 'an empty list whose type is not known')
                t = '[]'
            else:
                t, ty = self.cx(s.value, env, pre)
            env = self.set_local(s, tg.id, ty, env)
            return self.wrap(pre, 'let %s := %s in\n%s' % (self.v(tg.id), t, self.block(rest, env, tail)))
        if isinstance(tg, ast.Subscript) and isinstance(tg.value, ast.Name) and tg.value.id in env \
                and not isinstance(tg.slice, ast.Slice):
            name = tg.value.id
            if name in self.spec.get('readonly', []):
                raise Unsupported(s, 'item store into %s (the caller can see it)' % name)
            i, ity = self.cx(tg.slice, env, pre)
            t, ty = self.cx(s.value, env, pre)
            si = self.sig.get('setitem', {}).get(env[name])
            if si is None or [ity, ty] != si['args']:
                raise Unsupported(s, 'item store %s[%s] = %s outside the signature file' % (env[name], ity, ty))
            return self.wrap(pre, 'let %s := %s in\n%s' % (self.v(name), fmt(si['coq'], self.v(name), i, t),
                                                          self.block(rest, env, tail)))
        raise Unsupported(s, 'assignment target outside the subset')

    def if_(self, s, rest, env, tail):
        pre = []
        c, ty = self.cx(s.test, env, pre)
        c = self.truth(s, c, ty)
        if self.leaves(s.body):
            a = self.block(list(s.body), env, tail)
            b = self.block(list(s.orelse) + list(rest), env, tail)
            return self.wrap(pre, 'if %s then\n%s\nelse\n%s' % (c, ind(a, 2), ind(b, 2)))
        if s.orelse and self.leaves(s.orelse):
            a = self.block(list(s.body) + list(rest), env, tail)
            b = self.block(list(s.orelse), env, tail)
            return self.wrap(pre, 'if %s then\n%s\nelse\n%s' % (c, ind(a, 2), ind(b, 2)))
        if any(isinstance(n, ast.Return) for x in list(s.body) + list(s.orelse) for n in ast.walk(x)):
            raise Unsupported(s, 'an if that returns on some paths only')
        names = self.assigned(list(s.body) + list(s.orelse))
        ends = []

        def grab(env2):
            ends.append(env2)
            return '@@END%d@@' % (len(ends) - 1)
        self.depth += 1
        a = self.block(list(s.body), env, grab)
        b = self.block(list(s.orelse), env, grab)
        self.depth -= 1
        # a name survives the if when every path through it gives it a type (the same one, or one the
        # signature file coerces to the others')
        keep, kty, co = [], {}, [dict() for _ in ends]
        for n in names:
            tys = [e2.get(n) for e2 in ends]
            if None in tys:
                continue
            coerce = self.sig.get('coerce', {})
            for target in tys:
                if all(t == target or '%s->%s' % (t, target) in coerce for t in tys):
                    break
            else:
                raise Unsupported(s, 'name %s has types %s on the paths through an if' % (n, sorted(set(tys))))
            for k, t in enumerate(tys):
                if t != target:
                    co[k][n] = coerce['%s->%s' % (t, target)]
            keep.append(n)
            kty[n] = target
        for k in range(len(ends)):
            vals = [fmt(co[k][n], self.v(n)) if n in co[k] else self.v(n) for n in keep]
            ret = 'ROk %s' % ('tt' if not vals else paren(vals[0]) if len(vals) == 1 else '(%s)' % ', '.join(vals))
            a = a.replace('@@END%d@@' % k, ret)
            b = b.replace('@@END%d@@' % k, ret)
        env = dict(env)
        for n in names:
            if n in keep:
                env[n] = kty[n]
            elif n in env:
                raise Unsupported(s, 'name %s is bound on one path only after this if' % n)
        body = self.block(rest, env, tail)
        return self.wrap(pre, self.bind_tuple(keep, 'if %s then\n%s\nelse\n%s' % (c, ind(a, 2), ind(b, 2)), body))

    def for_(self, s, rest, env, tail):
        if s.orelse or not isinstance(s.target, ast.Name):
            raise Unsupported(s, 'loop outside the subset (`for x in <list or set>` without else)')
        item = s.target.id
        pre = []
        src, sty = self.cx(s.iter, env, pre)
        it = self.sig.get('iter', {}).get(sty)
        if it is None:
            raise Unsupported(s, 'loop over a %s' % sty)
        src, ety = fmt(it[0], src), it[1]
        if item in env:
            raise Unsupported(s, 'loop target %s shadows a name' % item)
        for n in ast.walk(ast.Module(body=s.body, type_ignores=[])):
            if isinstance(n, (ast.Return, ast.Break, ast.Continue, ast.While)):
                raise Unsupported(n, '%s inside a loop' % type(n).__name__)
        state = [n for n in self.assigned(s.body) if n in env]
        if not state:
            raise Unsupported(s, 'a loop without any effect on a local')
        used = {n.id for b in s.body for n in ast.walk(b) if isinstance(n, ast.Name)}
        frees = [n for n in env if n in used and n not in state]
        self.nloop += 1
        lname = '%s_loop%d' % (self.spec['coq'], self.nloop)
        types = self.sig['types']
        params = ' '.join('(%s : %s)' % (self.v(n), types[env[n]]) for n in frees + state)
        lenv = dict(env)
        lenv[item] = ety
        before = {n: env[n] for n in state}

        def again(env2):
            for n in state:
                if env2.get(n) != before[n]:
                    raise Unsupported(s, 'name %s changes type inside a loop' % n)
            return '%s %s rest_' % (lname, ' '.join(self.v(n) for n in frees + state))
        self.depth += 1
        body = self.block(list(s.body), lenv, again)
        self.depth -= 1
        self.aux.append('Fixpoint %s %s (l_ : list %s) {struct l_} : result (%s) :=\n  match l_ with\n  | [] => ROk %s\n'
                        '  | %s :: rest_ =>\n%s\n  end.'
                        % (lname, params, types[ety], ' * '.join(types[before[n]] for n in state), self.tuple_of(state),
                           self.v(item), ind(body, 6)))
        call = '%s %s %s' % (lname, ' '.join(self.v(n) for n in frees + state), paren(src))
        after = self.block(rest, env, tail)
        return self.wrap(pre, self.bind_tuple(state, call, after))

    def translate(self):
        fn, spec, sig = self.node, self.spec, self.sig
        a = fn.args
        if a.posonlyargs or a.kwonlyargs or a.vararg or a.kwarg or a.kw_defaults or fn.decorator_list:
            raise Unsupported(fn, 'parameter list of %s outside the subset' % fn.name)
        names = [x.arg for x in a.args]
        if names[:1] != ['self'] or names[1:] != [p[0] for p in spec['params']]:
            raise Unsupported(fn, 'parameters of %s are %s, the signature file says %s'
                              % (fn.name, names[1:], [p[0] for p in spec['params']]))
        got = []
        for d in a.defaults:
            if not isinstance(d, ast.Constant):
                raise Unsupported(fn, 'a default of %s is not a constant' % fn.name)
            got.append(d.value)
        if got != spec.get('defaults', []):
            raise Unsupported(fn, 'defaults of %s are %s, the signature file says %s' % (fn.name, got, spec.get('defaults', [])))
        env = {'self': sig['self_type']}
        ps = ' (self : %s)' % sig['types'][sig['self_type']]
        for pn, pt in spec['params']:
            env[pn] = pt
            ps += ' (%s : %s)' % (self.v(pn), sig['types'][pt])
        body = list(fn.body)
        if body and isinstance(body[0], ast.Expr) and isinstance(body[0].value, ast.Constant):
            body = body[1:]
        if 'until' in spec:
            cut = [i for i, s in enumerate(body) if isinstance(s, ast.Assign) and len(s.targets) == 1
                   and isinstance(s.targets[0], ast.Name) and s.targets[0].id == spec['until']]
            if len(cut) != 1:
                raise Unsupported(fn, 'the statement that binds %s (end of the translated part) was not found once' % spec['until'])
            head, rest = body[:cut[0] + 1], body[cut[0] + 1:]
            got = dump(rest)
            # the statements after the translated part are pinned unless another entry translates the whole method
            if 'rest_hash' in spec and got != spec['rest_hash']:
                raise Unsupported(rest[0] if rest else fn, 'the part of %s after the translated statements is pinned and '
                                  'changed (ast hash %s, pinned %s)' % (fn.name, got, spec['rest_hash']))

            def tail(env2):
                for n, ty in spec['returns']:
                    if env2.get(n) != ty:
                        raise Unsupported(fn, 'local %s has type %s at the end of the translated part, expected %s'
                                          % (n, env2.get(n), ty))
                return 'ROk (%s)' % ', '.join(self.v(n) for n, _ in spec['returns'])
            rty = ' * '.join(sig['types'][ty] for _, ty in spec['returns'])
        else:
            head = body

            def tail(env2):
                raise Unsupported(fn, '%s can end without a return' % fn.name)
            rty = sig['types'][spec['ret']]
        code = self.block(head, env, tail)
        text = 'Definition %s%s : result (%s) :=\n%s.' % (spec['coq'], ps, rty, ind(code, 2))
        return '\n\n'.join(self.aux + [text])


class Translator:
    def __init__(self, sig, text):
        self.sig = sig
        self.tree = ast.parse(text)
        cls = [n for n in self.tree.body if isinstance(n, ast.ClassDef) and n.name == sig['class']]
        if len(cls) != 1:
            raise Unsupported(self.tree, 'class %s not found' % sig['class'])
        self.cls = cls[0]
        self.methods = {}
        for n in self.cls.body:
            if isinstance(n, ast.FunctionDef):
                if n.name in self.methods:
                    if n.name in sig.get('pinned', {}) or n.name in [e['py'] for e in sig['emit']]:
                        raise Unsupported(n, 'method %s is defined twice' % n.name)
                self.methods.setdefault(n.name, n)

    def need_import(self, node, name):
        """a module-level name the signature file gives a meaning to must come from the module it names"""
        want = self.sig.get('imports', {}).get(name)
        if want is None:
            raise Unsupported(node, 'name %s has no import entry in the signature file' % name)
        if want == 'builtin':
            ok = True
        elif want.startswith('import '):
            ok = any(isinstance(n, ast.Import) and any(a.name == want[7:].split(' as ')[0] and
                                                       (a.asname or a.name) == name for a in n.names)
                     for n in self.tree.body)
        else:
            ok = any(isinstance(n, ast.ImportFrom) and n.level == 0 and n.module == want
                     and any(a.name == name and a.asname is None for a in n.names) for n in self.tree.body)
        if not ok:
            raise Unsupported(node, 'name %s does not come from %s' % (name, want))
        count = 0
        for n in ast.walk(self.tree):
            if isinstance(n, (ast.FunctionDef, ast.ClassDef)) and n.name == name or \
                    isinstance(n, ast.Name) and n.id == name and isinstance(n.ctx, ast.Store) or \
                    isinstance(n, ast.arg) and n.arg == name:
                raise Unsupported(node, 'name %s is rebound somewhere in the module' % name)
            if isinstance(n, ast.alias) and (n.asname or n.name) == name:
                count += 1
        if count > (0 if want == 'builtin' else 1):
            raise Unsupported(node, 'name %s is imported more than once' % name)

    def translate(self):
        sig = self.sig
        for name, h in sorted(sig.get('pinned', {}).items()):
            if name not in self.methods:
                raise Unsupported(self.cls, 'pinned method %s is missing' % name)
            got = ast_hash(self.methods[name])
            if got != h:
                raise Unsupported(self.methods[name], '%s is not translated but pinned (the primitives rely on it), '
                                  'and it changed (ast hash %s, pinned %s)' % (name, got, h))
        out = []
        for ent in sig['emit']:
            if ent['py'] not in self.methods:
                raise Unsupported(self.cls, 'method %s not found' % ent['py'])
            node = self.methods[ent['py']]
            text = Fn(self, ent, node).translate()
            out.append('(* %s.%s, lines %d-%d *)\n%s' % (sig['class'], ent['py'], node.lineno, node.end_lineno, text))
        head = ['(* GENERATED by tools/%s from %s (class %s) - do not edit; regenerated on every check. *)'
                % (TOOL, sig['source'], sig['class'])] + sig['header']
        return '\n'.join(head) + '\n\n' + '\n\n'.join(out) + '\n' + ''.join(l + '\n' for l in sig.get('footer', []))


def translate(sigpath, repo):
    sig = json.load(open(sigpath))
    raw = open(os.path.join(repo, sig['source']), 'rb').read()
    out = Translator(sig, raw.decode('utf8')).translate()
    return sig, out, hashlib.sha256(raw).hexdigest()


def main(argv):
    repo = os.environ.get('BIOM_REPO', '/repo')
    outroot = os.path.dirname(os.path.dirname(HERE))
    to_stdout = False
    targets = []
    it = iter(argv)
    for a in it:
        if a == '--repo':
            repo = next(it)
        elif a == '--out':
            outroot = next(it)
        elif a == '--stdout':
            to_stdout = True
        else:
            targets.append(a)
    sigs = sorted(glob.glob(os.path.join(HERE, 'sigs', '*.json')))
    if targets:
        sigs = [s for s in sigs if os.path.basename(s)[:-5] in targets]
        if len(sigs) != len(targets):
            print('%s: unknown target in %s' % (TOOL, targets), file=sys.stderr)
            return 2
    failed = False
    for s in sigs:
        src = json.load(open(s))['source']
        try:
            sig, out, sha = translate(s, repo)
        except Unsupported as e:
            print('%s: REFUSED %s (%s): %s' % (TOOL, src, os.path.basename(s)[:-5], e), file=sys.stderr)
            failed = True
            continue
        except (OSError, SyntaxError, ValueError, KeyError, IndexError, TypeError, AttributeError, AssertionError) as e:
            print('%s: REFUSED %s (%s): %s: %s' % (TOOL, src, os.path.basename(s)[:-5], type(e).__name__, e), file=sys.stderr)
            failed = True
            continue
        if to_stdout:
            sys.stdout.write(out)
            continue
        path = os.path.join(outroot, sig['output'])
        old = open(path).read() if os.path.exists(path) else None
        if old != out:
            os.makedirs(os.path.dirname(path), exist_ok=True)
            tmp = path + '.tmp'
            open(tmp, 'w').write(out)
            os.replace(tmp, path)
            state = 'written'
        else:
            state = 'unchanged'
        print('%s: %s -> %s %s (source sha256 %s)' % (TOOL, sig['source'], sig['output'], state, sha))
    return 2 if failed else 0


if __name__ == '__main__':
    sys.exit(main(sys.argv[1:]))
