#!/bin/sh
# Regenerate every translated part of the Coq model from the source tree under test
# (BIOM_REPO, default /repo).  Exit code 2 = the translator refused a source file (the tie is
# broken); nothing is written for a refused target.  Files are rewritten only when they change.
# Without arguments both translators run (tools/py2v and the dynamic-mode tools/py2v_dyn);
# with arguments only the named tools/py2v targets (tools/regen_dyn.sh takes the py2v_dyn ones).
here="$(cd "$(dirname "$0")/.." && pwd)"
if [ $# -eq 0 ]; then
  /venv/bin/python "$here/tools/py2v/main.py" --repo "${BIOM_REPO:-/repo}" --out "$here"; rc1=$?
  /venv/bin/python "$here/tools/py2v_dyn/main.py" --repo "${BIOM_REPO:-/repo}" --out "$here"; rc2=$?
  [ "$rc1" -ne 0 ] && exit "$rc1"
  exit "$rc2"
fi
exec /venv/bin/python "$here/tools/py2v/main.py" --repo "${BIOM_REPO:-/repo}" --out "$here" "$@"
