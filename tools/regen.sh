#!/bin/sh
# Regenerate every translated part of the Coq model from the source tree under test
# (BIOM_REPO, default /repo).  Exit code 2 = the translator refused a source file (the tie is
# broken); nothing is written for a refused target.  Files are rewritten only when they change.
# Without arguments all translators run (tools/py2v, the dynamic-mode tools/py2v_dyn and the
# comparison-mode tools/py2v_eq, which tools/regen_eq.sh runs alone);
# with arguments only the named tools/py2v targets (tools/regen_dyn.sh takes the py2v_dyn ones).
here="$(cd "$(dirname "$0")/.." && pwd)"
if [ $# -eq 0 ]; then
  /venv/bin/python "$here/tools/py2v/main.py" --repo "${BIOM_REPO:-/repo}" --out "$here"; rc1=$?
  /venv/bin/python "$here/tools/py2v_dyn/main.py" --repo "${BIOM_REPO:-/repo}" --out "$here"; rc2=$?
  /venv/bin/python "$here/tools/py2v_eq/main.py" --repo "${BIOM_REPO:-/repo}" --out "$here"; rc3=$?
  /venv/bin/python "$here/tools/py2v_uc/main.py" --repo "${BIOM_REPO:-/repo}" --out "$here"; rcuc=$?   # uc importer (tools/regen_uc.sh)
  [ "$rcuc" -ne 0 ] && exit "$rcuc"
  /venv/bin/python "$here/tools/py2v_filt/main.py" --repo "${BIOM_REPO:-/repo}" --out "$here"; rcfilt=$?   # wrapper mode (tools/regen_filt.sh)
  [ "$rcfilt" -ne 0 ] && exit "$rcfilt"
  /venv/bin/python "$here/tools/py2v_part/main.py" --repo "${BIOM_REPO:-/repo}" --out "$here"; rcpart=$?   # grouping mode (tools/regen_part.sh): PartitionGen.v and CollapseGen.v
  [ "$rcpart" -ne 0 ] && exit "$rcpart"
  /venv/bin/python "$here/tools/py2v_cat/main.py" --repo "${BIOM_REPO:-/repo}" --out "$here"; rccat=$?   # accumulator mode (tools/regen_cat.sh)
  [ "$rccat" -ne 0 ] && exit "$rccat"
  /venv/bin/python "$here/tools/py2v_sum/main.py" --repo "${BIOM_REPO:-/repo}" --out "$here"; rcsum=$?   # summary mode (tools/regen_sum.sh)
  [ "$rcsum" -ne 0 ] && exit "$rcsum"
  /venv/bin/python "$here/tools/py2v_tsv/main.py" --repo "${BIOM_REPO:-/repo}" --out "$here"; rctsv=$?   # TSV mode (tools/regen_tsv.sh)
  [ "$rctsv" -ne 0 ] && exit "$rctsv"
  /venv/bin/python "$here/tools/py2v_merge/main.py" --repo "${BIOM_REPO:-/repo}" --out "$here"; rcmerge=$?   # dispatch mode (tools/regen_merge.sh)
  [ "$rcmerge" -ne 0 ] && exit "$rcmerge"
  /venv/bin/python "$here/tools/py2v_json/main.py" --repo "${BIOM_REPO:-/repo}" --out "$here"; rcjson=$?   # JSON writer (tools/regen_json.sh)
  [ "$rcjson" -ne 0 ] && exit "$rcjson"
  /venv/bin/python "$here/tools/py2v_ord/main.py" --repo "${BIOM_REPO:-/repo}" --out "$here"; rcord=$?   # reorder mode (tools/regen_ord.sh)
  [ "$rcord" -ne 0 ] && exit "$rcord"
  /venv/bin/python "$here/tools/py2v_wrap/main.py" --repo "${BIOM_REPO:-/repo}" --out "$here"; rcwrap=$?   # wrapper-object mode (tools/regen_wrap.sh)
  [ "$rcwrap" -ne 0 ] && exit "$rcwrap"
  /venv/bin/python "$here/tools/py2v_h5r/main.py" --repo "${BIOM_REPO:-/repo}" --out "$here"; rch5r=$?   # reader mode (tools/regen_h5r.sh)
  [ "$rch5r" -ne 0 ] && exit "$rch5r"
  /venv/bin/python "$here/tools/py2v_h5/main.py" --repo "${BIOM_REPO:-/repo}" --out "$here"; rch5=$?   # HDF5 writer mode (tools/regen_h5.sh)
  [ "$rch5" -ne 0 ] && exit "$rch5"
  [ "$rc1" -ne 0 ] && exit "$rc1"
  [ "$rc2" -ne 0 ] && exit "$rc2"
  exit "$rc3"
fi
exec /venv/bin/python "$here/tools/py2v/main.py" --repo "${BIOM_REPO:-/repo}" --out "$here" "$@"
