#!/bin/sh
# Regenerate every translated part of the Coq model from the source tree under test
# (BIOM_REPO, default /repo).  Exit code 2 = the translator refused a source file (the tie is
# broken); nothing is written for a refused target.  Files are rewritten only when they change.
here="$(cd "$(dirname "$0")/.." && pwd)"
exec /venv/bin/python "$here/tools/py2v/main.py" --repo "${BIOM_REPO:-/repo}" --out "$here" "$@"
