"""py2v_dyn, state mode (signature files with "mode": "state"): methods of one Python class that
read and mutate the receiver -> Gallina over an explicit state record (`st`), every access to
the receiver becoming one of the tb_* primitives of coq/Gen/MetaPrelude.v and every step that
can raise a bind of the `result` monad.  main.py dispatches here on the "mode" key; nothing is
shared with the JSON mode (whose output is untouched).  See docs/translator.md, "State mode".

Fail closed: any AST node, name, attribute, call or type combination not handled below raises
Unsupported (exit code 2 of main.py, nothing written).  No source text is copied into the output."""
import ast
import hashlib
import os


class Unsupported(ValueError):
    def __init__(self, node, msg):
        ValueError.__init__(self, 'line %s: %s' % (getattr(node, 'lineno', 0), msg))


def coq_string(s):
    if any(ord(c) < 32 or ord(c) > 126 for c in s):
        raise ValueError('non-ASCII text constant')
    return '"%s"' % s.replace('"', '""')


def ast_hash(fn):
    body = fn.body
    if body and isinstance(body[0], ast.Expr) and isinstance(getattr(body[0], 'value', None), ast.Constant) \
            and isinstance(body[0].value.value, str):
        body = body[1:]
    text = ast.dump(ast.Module(body=body, type_ignores=[]), annotate_fields=False, include_attributes=False)
    text += '|' + ast.dump(fn.args, annotate_fields=False, include_attributes=False)
    return hashlib.sha256(text.encode()).hexdigest()[:16]


def same(a, b):
    return ast.dump(a) == ast.dump(b)


def coq_type(t):
    if isinstance(t, tuple):
        return '(%s %s)' % (t[0], coq_type(t[1]))
    return t


def parse_type(s):
    s = s.strip()
    for head in ('option', 'list'):
        if s.startswith(head + ' '):
            return (head, parse_type(s[len(head) + 1:]))
    if s.startswith('(') and s.endswith(')'):
        return parse_type(s[1:-1])
    if s not in ('text', 'bool', 'nat', 'assoc', 'entry', 'mapping', 'mdraw', 'bset'):
        raise ValueError('unknown type %r in the signature file' % s)
    return s


class Var:
    """a local: an ordinary value, or an alias of receiver state (kind 'axis': the metadata tuple
    of an axis; kind 'entry': the dict object at a position of that tuple)"""

    def __init__(self, kind, typ=None, term=None, ax=None, pos=None, deps=()):
        self.kind, self.typ, self.term, self.ax, self.pos, self.deps = kind, typ, term, ax, pos, tuple(deps)
        self.dead = False


class Fn:
    def __init__(self, tr, spec, node):
        self.tr, self.spec, self.node = tr, spec, node
        self.name = spec['coq']
        self.defs = []
        self.nloop = 0
        self.nfresh = 0
        self.loop_depth = 0
        self.alias_loop = 0
        self.loops = {}

    def fresh(self, base='r'):
        self.nfresh += 1
        return '%s%d_' % (base, self.nfresh)

    # ------------------------------------------------------------ expressions
    def axis_kw(self, call, env, nargs):
        """the arguments of self.metadata(axis=E) / self.exists(id, axis=E): positional ones and the axis"""
        if len(call.args) != nargs or len(call.keywords) != 1 or call.keywords[0].arg != 'axis':
            raise Unsupported(call, 'call of self.%s with other arguments than %d positional and axis=' % (
                call.func.attr, nargs))
        return call.keywords[0].value

    def pure(self, node, env, want=None):
        b, t, ty = self.expr(node, env, want)
        if b:
            raise Unsupported(node, 'an operation that can raise where only a pure expression is translated')
        return t, ty

    def names_of(self, node):
        return [n.id for n in ast.walk(node) if isinstance(n, ast.Name)]

    def expr(self, node, env, want=None):
        """-> (binds, term, type); binds = [(variable, result-typed term)] to run first, in order"""
        if isinstance(node, ast.Constant):
            v = node.value
            if v is None:
                if want in ('entry', 'mdraw') or (isinstance(want, tuple) and want[0] == 'option'):
                    return [], 'None', want
                raise Unsupported(node, 'None where the expected type (%s) has no None' % (want,))
            if v is True or v is False:
                return [], 'true' if v else 'false', 'bool'
            if isinstance(v, str):
                return [], '(txt %s)' % coq_string(v), 'text'
            raise Unsupported(node, 'constant %r' % (v,))
        if isinstance(node, ast.Name):
            v = env.get(node.id)
            if v is None:
                raise Unsupported(node, 'name %s is not a parameter or local' % node.id)
            if v.kind == 'val':
                if v.typ == 'none':
                    raise Unsupported(node, 'use of %s where it is known to be None' % node.id)
                return [], v.term, v.typ
            if v.kind == 'axis':
                if v.dead:
                    raise Unsupported(node, 'local %s aliases a metadata field that was reassigned since' % node.id)
                r = self.fresh()
                return [(r, 'tb_metadata st %s' % v.ax)], r, 'mdraw'
            raise Unsupported(node, 'the dict object %s is used as a value' % node.id)
        if isinstance(node, ast.Dict) and not node.keys:
            if want == 'entry':
                return [], '(Some [])', 'entry'
            return [], '[]', 'assoc'
        if isinstance(node, (ast.List, ast.Tuple)):
            parts = [self.expr(e, env) for e in node.elts]
            if not parts or any(p[2] != parts[0][2] for p in parts):
                raise Unsupported(node, 'list display of mixed or no elements')
            return sum((p[0] for p in parts), []), '[%s]' % '; '.join(p[1] for p in parts), ('list', parts[0][2])
        if isinstance(node, ast.Set):
            parts = [self.pure(e, env) for e in node.elts]
            if not parts or any(p[1] != 'bool' for p in parts):
                raise Unsupported(node, 'set display other than of booleans')
            return [], '(bset_of [%s])' % '; '.join(p[0] for p in parts), 'bset'
        if isinstance(node, ast.UnaryOp) and isinstance(node.op, ast.Not):
            b, t, ty = self.expr(node.operand, env)
            return b, '(negb %s)' % self.truth(node, t, ty), 'bool'
        if isinstance(node, ast.Compare):
            return self.compare(node, env)
        if isinstance(node, ast.IfExp):
            return self.ifexp(node, env, want)
        if isinstance(node, ast.Call):
            return self.call(node, env, want)
        if isinstance(node, (ast.SetComp, ast.GeneratorExp, ast.ListComp)):
            b, t, ty = self.comprehension(node, env)
            if isinstance(node, ast.SetComp):
                if ty != ('list', 'bool'):
                    raise Unsupported(node, 'set comprehension other than of booleans')
                return b, '(bset_of %s)' % t, 'bset'
            if isinstance(node, ast.ListComp):
                return b, t, ty
            raise Unsupported(node, 'generator expression outside tuple(..)')
        raise Unsupported(node, 'expression %s is outside the supported subset' % type(node).__name__)

    def truth(self, node, t, ty):
        if ty == 'bool':
            return t
        if ty == 'entry':
            return '(entry_truthy %s)' % t
        if ty == 'assoc':
            return '(negb (is_nil %s))' % t
        raise Unsupported(node, 'truth value of a %s' % (ty,))

    def comprehension(self, node, env):
        if len(node.generators) != 1:
            raise Unsupported(node, 'comprehension with several generators')
        g = node.generators[0]
        if g.ifs or g.is_async or not isinstance(g.target, ast.Name):
            raise Unsupported(node, 'comprehension with a filter / a pattern target')
        b, it, ity = self.expr(g.iter, env)
        if ity == 'mdraw':
            r = self.fresh()
            b = b + [(r, 'py_iter_md %s' % it)]
            it, ity = r, ('list', 'entry')
        if not (isinstance(ity, tuple) and ity[0] == 'list'):
            raise Unsupported(node, 'iteration over a %s' % (ity,))
        if g.target.id in env:
            raise Unsupported(node, 'comprehension variable %s shadows a local' % g.target.id)
        env2 = dict(env)
        x = 'v_' + g.target.id
        env2[g.target.id] = Var('val', ity[1], x)
        et, ety = self.pure(node.elt, env2, None)
        return b, '(map (fun %s => %s) %s)' % (x, et, it), ('list', ety)

    def lookup_or(self, node, d, k, default, env):
        """d[k] if k in d else E   /   d.get(k, E): the entry the mapping holds, or E"""
        dt, dty = self.pure(d, env)
        kt, kty = self.pure(k, env)
        if dty != 'mapping' or kty != 'text':
            raise Unsupported(node, 'guarded read of a %s by a %s' % (dty, kty))
        et, ety = ('None', 'entry') if default is None else self.pure(default, env, 'entry')
        if ety != 'entry':
            raise Unsupported(node, 'default of type %s for an entry' % (ety,))
        return [], '(match mlookup %s %s with Some w_ => Some w_ | None => %s end)' % (kt, dt, et), 'entry'

    def ifexp(self, node, env, want):
        t = node.test
        if (isinstance(t, ast.Compare) and len(t.ops) == 1 and isinstance(t.ops[0], ast.In)
                and isinstance(node.body, ast.Subscript) and same(node.body.value, t.comparators[0])
                and same(node.body.slice, t.left)):
            return self.lookup_or(node, t.comparators[0], t.left, node.orelse, env)
        if (isinstance(t, ast.Compare) and len(t.ops) == 1 and isinstance(t.ops[0], ast.NotIn)
                and isinstance(node.orelse, ast.Subscript) and same(node.orelse.value, t.comparators[0])
                and same(node.orelse.slice, t.left)):
            return self.lookup_or(node, t.comparators[0], t.left, node.body, env)
        cb, ct, cty = self.expr(t, env)
        ct = self.truth(t, ct, cty)
        at, aty = self.pure(node.body, env, want)
        bt, bty = self.pure(node.orelse, env, want)
        if aty != bty:
            raise Unsupported(node, 'conditional expression of a %s and a %s' % (aty, bty))
        return cb, '(if %s then %s else %s)' % (ct, at, bt), aty

    def compare(self, node, env):
        if len(node.ops) != 1:
            raise Unsupported(node, 'chained comparison')
        op, l, r = node.ops[0], node.left, node.comparators[0]
        if isinstance(op, (ast.Is, ast.IsNot)):
            if not (isinstance(r, ast.Constant) and r.value is None):
                raise Unsupported(node, '`is` against something other than None')
            if isinstance(l, ast.Name) and l.id in env and env[l.id].kind == 'val' and env[l.id].typ == 'none':
                return [], 'true' if isinstance(op, ast.Is) else 'false', 'bool'
            b, t, ty = self.expr(l, env)
            if ty == 'mdraw':
                c = '(mdraw_is_none %s)' % t
            elif ty == 'entry' or (isinstance(ty, tuple) and ty[0] == 'option'):
                c = '(match %s with None => true | Some _ => false end)' % t
            else:
                raise Unsupported(node, 'None test of a %s' % (ty,))
            return b, c if isinstance(op, ast.Is) else '(negb %s)' % c, 'bool'
        if isinstance(op, (ast.In, ast.NotIn)):
            neg = isinstance(op, ast.NotIn)
            if isinstance(r, ast.Name) and r.id in env and env[r.id].kind == 'entry':
                v = env[r.id]
                kb, kt, kty = self.expr(l, env)
                if kty != 'text':
                    raise Unsupported(node, 'membership of a %s in a dict' % (kty,))
                x = self.fresh()
                return kb + [(x, 'tb_entry_has st %s %s %s' % (v.ax, v.pos, kt))], \
                    '(negb %s)' % x if neg else x, 'bool'
            lb, lt, lty = self.expr(l, env)
            rb, rt, rty = self.expr(r, env)
            if lty == 'text' and rty == ('list', 'text'):
                c = '(tmem %s %s)' % (lt, rt)
            elif lty == 'text' and rty == 'mapping':
                c = '(md_in %s %s)' % (lt, rt)
            else:
                raise Unsupported(node, 'membership of a %s in a %s' % (lty, rty))
            return lb + rb, '(negb %s)' % c if neg else c, 'bool'
        if isinstance(op, (ast.Eq, ast.NotEq)):
            lb, lt, lty = self.expr(l, env)
            rb, rt, rty = self.expr(r, env)
            if lty != rty or lty not in ('text', 'bset', 'bool'):
                raise Unsupported(node, 'comparison of a %s with a %s' % (lty, rty))
            c = '(%s %s %s)' % ({'text': 'text_eqb', 'bset': 'bset_eqb', 'bool': 'Bool.eqb'}[lty], lt, rt)
            return lb + rb, '(negb %s)' % c if isinstance(op, ast.NotEq) else c, 'bool'
        raise Unsupported(node, 'comparison %s' % type(op).__name__)

    def is_self_call(self, node, name=None):
        return (isinstance(node, ast.Call) and isinstance(node.func, ast.Attribute)
                and isinstance(node.func.value, ast.Name) and node.func.value.id == 'self'
                and (name is None or node.func.attr == name))

    def call(self, node, env, want):
        f = node.func
        if self.is_self_call(node):
            m = f.attr
            if m not in self.tr.sig['receiver_methods']:
                raise Unsupported(node, 'method self.%s is not in the signature file' % m)
            prim, nargs, rty = self.tr.sig['receiver_methods'][m]
            axn = self.axis_kw(node, env, nargs)
            b, at, aty = self.expr(axn, env)
            if aty != 'text':
                raise Unsupported(node, 'axis of type %s' % (aty,))
            args = []
            for a in node.args:
                ab, t, ty = self.expr(a, env)
                if ty != 'text':
                    raise Unsupported(node, 'id of type %s' % (ty,))
                b, args = b + ab, args + [t]
            r = self.fresh()
            return b + [(r, ' '.join([prim, 'st'] + args + [at]))], r, parse_type(rty)
        if isinstance(f, ast.Name) and f.id == 'tuple' and len(node.args) == 1 and not node.keywords \
                and isinstance(node.args[0], ast.GeneratorExp) and 'tuple' not in env:
            return self.comprehension(node.args[0], env)
        if isinstance(f, ast.Attribute) and f.attr == 'get' and not node.keywords and len(node.args) in (1, 2):
            return self.lookup_or(node, f.value, node.args[0], node.args[1] if len(node.args) == 2 else None, env)
        raise Unsupported(node, 'call of %s is outside the supported subset' % ast.dump(f)[:60])

    # ------------------------------------------------------------ statements
    def binds(self, b, ind):
        return ''.join('%s%s <- %s ;;\n' % (ind, v, t) for v, t in b)

    def block(self, stmts, env, k, ind):
        if not stmts:
            return k(env, ind)
        s, rest = stmts[0], stmts[1:]

        def cont(env2, ind2):
            return self.block(rest, env2, k, ind2)
        if isinstance(s, ast.Expr) and isinstance(s.value, ast.Constant) and isinstance(s.value.value, str):
            return cont(env, ind)
        if isinstance(s, ast.Pass):
            return cont(env, ind)
        if isinstance(s, ast.Return):
            if s.value is not None and not (isinstance(s.value, ast.Constant) and s.value.value is None):
                raise Unsupported(s, 'return of a value')
            if self.loop_depth:
                raise Unsupported(s, 'return inside a loop')
            return ind + 'ROk st'
        if isinstance(s, ast.Continue):
            if not self.loop_depth:
                raise Unsupported(s, 'continue outside a loop')
            return self.loop_k(env, ind)
        if isinstance(s, ast.Raise):
            e = s.exc
            if not (isinstance(e, ast.Call) and isinstance(e.func, ast.Name)
                    and e.func.id in self.tr.sig['exceptions']) or s.cause is not None:
                raise Unsupported(s, 'raise of something the signature file does not list')
            for a in e.args:
                for n in ast.walk(a):
                    if not isinstance(n, (ast.Name, ast.Constant, ast.BinOp, ast.Mod, ast.Load)):
                        raise Unsupported(s, 'exception argument that computes')
            return ind + 'RErr %s' % self.tr.sig['exceptions'][e.func.id]
        if isinstance(s, ast.If):
            return self.if_(s, env, cont, ind)
        if isinstance(s, ast.For):
            return self.for_(s, env, cont, ind)
        if isinstance(s, ast.Assign):
            return self.assign(s, env, cont, ind)
        if isinstance(s, ast.Delete):
            if len(s.targets) == 1 and isinstance(s.targets[0], ast.Subscript) \
                    and isinstance(s.targets[0].value, ast.Name) and s.targets[0].value.id in env \
                    and env[s.targets[0].value.id].kind == 'entry':
                v = env[s.targets[0].value.id]
                b, kt, kty = self.expr(s.targets[0].slice, env)
                if kty != 'text':
                    raise Unsupported(s, 'del with a key of type %s' % (kty,))
                return self.binds(b, ind) + '%sst <- tb_entry_del st %s %s %s ;;\n' % (ind, v.ax, v.pos, kt) \
                    + cont(env, ind)
            raise Unsupported(s, 'del other than of a key of a metadata dict')
        if isinstance(s, ast.Expr) and isinstance(s.value, ast.Call):
            c = s.value
            if self.is_self_call(c) and c.func.attr in self.tr.sig['receiver_updates'] \
                    and not c.args and not c.keywords:
                self.kill_aliases(s, env)
                return '%slet st := %s st in\n' % (ind, self.tr.sig['receiver_updates'][c.func.attr]) + cont(env, ind)
            f = c.func
            if isinstance(f, ast.Attribute) and f.attr == 'update' and len(c.args) == 1 and not c.keywords \
                    and isinstance(f.value, ast.Subscript) and isinstance(f.value.value, ast.Name) \
                    and f.value.value.id in env and env[f.value.value.id].kind == 'axis':
                v = env[f.value.value.id]
                if v.dead:
                    raise Unsupported(s, 'local %s aliases a metadata field that was reassigned since'
                                      % f.value.value.id)
                ib, it, ity = self.expr(f.value.slice, env)
                eb, et, ety = self.expr(c.args[0], env)
                if ity != 'nat' or ety != 'assoc':
                    raise Unsupported(s, 'update at a %s with a %s' % (ity, ety))
                return self.binds(ib + eb, ind) + '%sst <- tb_entry_update st %s %s %s ;;\n' % (ind, v.ax, it, et) \
                    + cont(env, ind)
            raise Unsupported(s, 'call statement outside the supported subset')
        raise Unsupported(s, 'statement %s is outside the supported subset' % type(s).__name__)

    def kill_aliases(self, node, env):
        if self.alias_loop:
            raise Unsupported(node, 'a metadata field is reassigned inside a loop over its dict objects')
        for v in env.values():
            if v.kind in ('axis', 'entry'):
                v.dead = True

    def assign(self, s, env, cont, ind):
        if len(s.targets) != 1:
            raise Unsupported(s, 'multiple assignment')
        tg = s.targets[0]
        if isinstance(tg, ast.Attribute) and isinstance(tg.value, ast.Name) and tg.value.id == 'self':
            setter = self.tr.sig['fields'].get(tg.attr)
            if setter is None:
                raise Unsupported(s, 'store to self.%s, which the signature file does not cover' % tg.attr)
            b, t, ty = self.expr(s.value, env, 'mdraw')
            if ty == ('list', 'entry'):
                t = '(Some %s)' % t
            elif ty != 'mdraw':
                raise Unsupported(s, 'store of a %s into a metadata field' % (ty,))
            env = {n: self.copy_var(v) for n, v in env.items()}
            self.kill_aliases(s, env)
            return self.binds(b, ind) + '%slet st := %s st %s in\n' % (ind, setter, t) + cont(env, ind)
        if not isinstance(tg, ast.Name):
            raise Unsupported(s, 'assignment target %s' % type(tg).__name__)
        if tg.id in env and env[tg.id].kind != 'val':
            raise Unsupported(s, 'reassignment of the alias %s' % tg.id)
        env2 = dict(env)
        if self.is_self_call(s.value, 'metadata') and not s.value.args:
            axn = self.axis_kw(s.value, env, 0)
            at, aty = self.pure(axn, env)
            if aty != 'text':
                raise Unsupported(s, 'axis of type %s' % (aty,))
            r = self.fresh()
            env2[tg.id] = Var('axis', ax=at, deps=self.names_of(axn))
            # the call itself can raise (unknown axis): evaluate it here
            return '%s%s <- tb_metadata st %s ;;\n' % (ind, r, at) + cont(env2, ind)
        b, t, ty = self.expr(s.value, env)
        if tg.id in env and env[tg.id].typ != ty:
            raise Unsupported(s, 'local %s changes type (%s -> %s)' % (tg.id, env[tg.id].typ, ty))
        x = 'v_' + tg.id
        env2[tg.id] = Var('val', ty, x)
        return self.binds(b, ind) + '%slet %s := %s in\n' % (ind, x, t) + cont(env2, ind)

    def copy_var(self, v):
        w = Var(v.kind, v.typ, v.term, v.ax, v.pos, v.deps)
        w.dead = v.dead
        return w

    def leaves(self, stmts):
        return bool(stmts) and isinstance(stmts[-1], (ast.Return, ast.Raise, ast.Continue))

    def if_(self, s, env, cont, ind):
        t = s.test
        # narrowing: `if x is None` / `if x is not None` on an optional parameter or local
        if isinstance(t, ast.Compare) and len(t.ops) == 1 and isinstance(t.ops[0], (ast.Is, ast.IsNot)) \
                and isinstance(t.left, ast.Name) and t.left.id in env and env[t.left.id].kind == 'val' \
                and isinstance(env[t.left.id].typ, tuple) and env[t.left.id].typ[0] == 'option' \
                and isinstance(t.comparators[0], ast.Constant) and t.comparators[0].value is None:
            v = env[t.left.id]
            envn = {n: self.copy_var(x) for n, x in env.items()}
            envs = {n: self.copy_var(x) for n, x in env.items()}
            envn[t.left.id] = Var('val', 'none', v.term)
            envs[t.left.id] = Var('val', v.typ[1], v.term)
            nb, sb = (s.body, s.orelse) if isinstance(t.ops[0], ast.Is) else (s.orelse, s.body)
            return ('%smatch %s with\n%s| None =>\n%s\n%s| Some %s =>\n%s\n%send' % (
                ind, v.term, ind, self.block(nb, envn, cont, ind + '    '), ind, v.term,
                self.block(sb, envs, cont, ind + '    '), ind))
        b, c, cty = self.expr(t, env)
        c = self.truth(t, c, cty)
        envs = [{n: self.copy_var(v) for n, v in env.items()} for _ in range(2)]
        return (self.binds(b, ind) + '%sif %s then\n%s\n%selse\n%s' % (
            ind, c, self.block(s.body, envs[0], cont, ind + '  '), ind,
            self.block(s.orelse, envs[1], cont, ind + '  ')))

    def for_(self, s, env, cont, ind):
        if s.orelse:
            raise Unsupported(s, 'for .. else')
        it = s.iter
        loopenv_extra = {}
        alias = False
        if isinstance(it, ast.Call) and isinstance(it.func, ast.Name) and it.func.id == 'zip' and 'zip' not in env:
            # zip(self.ids(axis=A), self.metadata(axis=A)): ids with the dict OBJECTS of the axis
            if not (len(it.args) == 2 and not it.keywords and self.is_self_call(it.args[0], 'ids')
                    and self.is_self_call(it.args[1], 'metadata') and not it.args[0].args and not it.args[1].args
                    and same(self.axis_kw(it.args[0], env, 0), self.axis_kw(it.args[1], env, 0))):
                raise Unsupported(s, 'zip other than of self.ids(axis=A) with self.metadata(axis=A)')
            if not (isinstance(s.target, ast.Tuple) and len(s.target.elts) == 2
                    and all(isinstance(e, ast.Name) for e in s.target.elts)):
                raise Unsupported(s, 'loop target of the zip is not a pair of names')
            axn = self.axis_kw(it.args[0], env, 0)
            at, aty = self.pure(axn, env)
            if aty != 'text':
                raise Unsupported(s, 'axis of type %s' % (aty,))
            r = self.fresh()
            b, itt = [(r, 'tb_zip_ids_md st %s' % at)], r
            n1, n2 = s.target.elts[0].id, s.target.elts[1].id
            pos = 'p_' + n2
            loopenv_extra[n1] = Var('val', 'text', 'v_' + n1)
            loopenv_extra[n2] = Var('entry', ax=at, pos=pos, deps=self.names_of(axn))
            pat, elty = '(v_%s, %s)' % (n1, pos), '(text * nat)'
            alias = True
        elif isinstance(it, ast.Call) and isinstance(it.func, ast.Attribute) and it.func.attr == 'items' \
                and not it.args and not it.keywords:
            mt, mty = self.pure(it.func.value, env)
            if mty != 'mapping':
                raise Unsupported(s, '.items() of a %s' % (mty,))
            if not (isinstance(s.target, ast.Tuple) and len(s.target.elts) == 2
                    and all(isinstance(e, ast.Name) for e in s.target.elts)):
                raise Unsupported(s, 'loop target of .items() is not a pair of names')
            b, itt = [], mt
            n1, n2 = s.target.elts[0].id, s.target.elts[1].id
            loopenv_extra[n1] = Var('val', 'text', 'v_' + n1)
            loopenv_extra[n2] = Var('val', 'assoc', 'v_' + n2)
            pat, elty = '(v_%s, v_%s)' % (n1, n2), '(text * assoc)'
        else:
            b, itt, ity = self.expr(it, env)
            if not (isinstance(ity, tuple) and ity[0] == 'list' and isinstance(ity[1], str)):
                raise Unsupported(s, 'loop over a %s' % (ity,))
            if not isinstance(s.target, ast.Name):
                raise Unsupported(s, 'loop target is not a name')
            loopenv_extra[s.target.id] = Var('val', ity[1], 'v_' + s.target.id)
            pat, elty = 'v_' + s.target.id, coq_type(ity[1])
        for n in loopenv_extra:
            if n in env:
                raise Unsupported(s, 'loop variable %s shadows a local' % n)
        if any(v.kind != 'val' and not v.dead for v in env.values()) and self.reassigns(s.body):
            raise Unsupported(s, 'a loop reassigns a metadata field while an alias of one is live')
        # the locals the body reads (through aliases: the names their axis is computed from)
        used, todo = [], []
        for st_ in s.body:
            todo += self.names_of(st_)
        for v in loopenv_extra.values():
            todo += list(v.deps)
        while todo:
            n = todo.pop(0)
            if n in env and n not in used:
                used.append(n)
                todo += list(env[n].deps)
        free = [n for n in env if n in used]
        params, args, benv = [], [], {}
        for n in free:
            v = env[n]
            if v.kind == 'val':
                if v.typ == 'none':
                    continue
                params.append('(%s : %s)' % (v.term, coq_type(v.typ)))
                args.append(v.term)
            elif v.kind == 'entry':
                params.append('(%s : nat)' % v.pos)
                args.append(v.pos)
            benv[n] = self.copy_var(v)
        for n, v in loopenv_extra.items():
            benv[n] = v
        key = (id(s), tuple(params), pat, elty,
               tuple((n, v.kind, v.typ, v.term, v.ax, v.pos, v.dead) for n, v in sorted(benv.items())))
        if key in self.loops:     # the same loop reached on another path (the rest of a block is copied into
            call = self.loops[key]   # both branches of an `if`): one definition, several calls
            return self.binds(b, ind) + '%sst <- %s %s st ;;\n' % (ind, call, itt) + cont(env, ind)
        self.nloop += 1
        lname = '%s_loop%d' % (self.name, self.nloop)
        call = ' '.join([lname] + args)
        saved = getattr(self, 'loop_k', None)
        self.loop_k = lambda e_, i_: '%s%s items_ st' % (i_, call)
        self.loop_depth += 1
        self.alias_loop += 1 if alias else 0
        body = self.block(s.body, benv, self.loop_k, '      ')
        self.alias_loop -= 1 if alias else 0
        self.loop_depth -= 1
        self.loop_k = saved
        self.loops[key] = call
        self.defs.append(
            '(* the loop at %s:%d *)\nFixpoint %s %s(items_ : list %s) (st : %s) : result %s :=\n'
            '  match items_ with\n  | [] => ROk st\n  | %s :: items_ =>\n%s\n  end.' % (
                self.tr.sig['source'], s.lineno, lname, ''.join(p + ' ' for p in params), elty,
                self.tr.sig['state'], self.tr.sig['state'], pat, body))
        # aliases of the enclosing scope stay valid: the body may only mutate dict objects in place
        return self.binds(b, ind) + '%sst <- %s %s st ;;\n' % (ind, call, itt) + cont(env, ind)

    def reassigns(self, stmts):
        for st_ in stmts:
            for n in ast.walk(st_):
                if isinstance(n, ast.Attribute) and isinstance(n.ctx, ast.Store):
                    return True
                if self.is_self_call(n) and n.func.attr in self.tr.sig['receiver_updates']:
                    return True
        return False

    def translate(self):
        fn = self.node
        a = fn.args
        if a.vararg or a.kwarg or a.kwonlyargs or a.posonlyargs:
            raise Unsupported(fn, 'parameter kinds other than positional-or-keyword')
        names = [x.arg for x in a.args]
        want = ['self'] + [p[0] for p in self.spec['params']]
        if names != want:
            raise Unsupported(fn, 'parameters %s differ from the signature file (%s)' % (names, want))
        defaults = [ast.dump(d) for d in a.defaults]
        if defaults != self.spec.get('defaults', []):
            raise Unsupported(fn, 'parameter defaults %s differ from the signature file' % defaults)
        if fn.decorator_list:
            raise Unsupported(fn, 'decorated method')
        env = {}
        params = ['(st : %s)' % self.tr.sig['state']]
        for n, t in self.spec['params']:
            ty = parse_type(t)
            env[n] = Var('val', ty, 'v_' + n)
            params.append('(v_%s : %s)' % (n, coq_type(ty)))
        body = self.block(fn.body, env, lambda e_, i_: i_ + 'ROk st', '  ')
        self.defs.append('(* %s, %s:%d-%d *)\nDefinition %s %s : result %s :=\n%s.' % (
            self.spec['py'], self.tr.sig['source'], fn.lineno, fn.end_lineno, self.name, ' '.join(params),
            self.tr.sig['state'], body))
        return self.defs


class Translator:
    def __init__(self, sig, text):
        self.sig = sig
        self.tree = ast.parse(text)

    def find(self, qual):
        cls, meth = qual.split('.')
        hits = [m for c in self.tree.body if isinstance(c, ast.ClassDef) and c.name == cls
                for m in c.body if isinstance(m, ast.FunctionDef) and m.name == meth]
        if len(hits) != 1:
            raise Unsupported(self.tree, '%s: %d definitions in the source' % (qual, len(hits)))
        return hits[0]

    def translate(self):
        sig = self.sig
        for qual, h in sorted(sig['pinned'].items()):
            fn = self.find(qual)
            got = ast_hash(fn)
            if got != h:
                raise Unsupported(fn, '%s is not translated but pinned, and it changed (ast hash %s, pinned %s)'
                                  % (qual, got, h))
        out = []
        for spec in sig['emit']:
            out += Fn(self, spec, self.find(spec['py'])).translate()
        head = ['(* GENERATED by tools/py2v_dyn (state mode) from %s - do not edit; regenerate with tools/regen_dyn.sh.'
                % sig['source'],
                '   Methods: %s.  The receiver is the explicit state st; vocabulary: coq/Gen/MetaPrelude.v.'
                % ', '.join(s['py'] for s in sig['emit']),
                '   Pinned (not translated, the prelude primitives stand for them): %s. *)'
                % ', '.join(sorted(sig['pinned']))] + sig['header']
        return '\n'.join(head) + '\n\n' + '\n\n'.join(out) + '\n'


def translate(sig, repo):
    path = os.path.join(repo, sig['source'])
    raw = open(path, 'rb').read()
    out = Translator(sig, raw.decode('utf8')).translate()
    return sig, out, hashlib.sha256(raw).hexdigest()
