#!/venv/bin/python
"""py2v_dyn: fail-closed translator, "dynamic mode": methods of one Python class whose values
are dynamically typed JSON data -> Gallina over the json type, every dynamic operation becoming
one of the py_* primitives of coq/Gen/DynPrelude.v (see docs/translator.md, "Dynamic mode").

usage: main.py [--repo DIR] [--out DIR] [--stdout] [target ...]
Targets are the signature files in tools/py2v_dyn/sigs/ (default: all).  Any AST node, name,
attribute, call or message text not covered by the signature file gives exit code 2 and NO
file is written.  Output is deterministic; a file is rewritten only when its text changed.
Source text is never copied into the output."""
import ast
import glob
import hashlib
import json
import os
import sys

HERE = os.path.dirname(os.path.abspath(__file__))


class Unsupported(Exception):
    def __init__(self, node, msg):
        line = getattr(node, 'lineno', 0)
        Exception.__init__(self, 'line %s: %s' % (line, msg))


COQ_TYPES = {'json': 'json', 'bool': 'bool', 'str': 'str', 'nat': 'nat', 'Z': 'Z', 'etype': 'etype',
             'status': 'status', 'jset': 'list json', 'lines': 'list msg', 'methods': 'methods',
             'method': 'json -> result status', 'strset': 'list str', 'edict': 'list (str * etype)',
             'emptydict': 'unit', 'report': 'bool * list msg'}
RESERVED = {'result', 'status', 'msg', 'str', 'json', 'type', 'at', 'as', 'in', 'end', 'match', 'fun', 'return',
            'bind', 'methods', 'etype', 'error', 'exists', 'forall', 'fix', 'let', 'if', 'then', 'else', 'with',
            'bool', 'nat', 'list', 'option', 'K', 'fst', 'snd', 'map', 'length'}


def coq_string(s):
    if any(ord(c) < 32 or ord(c) > 126 for c in s):
        raise ValueError('non-ASCII text constant')
    return '"%s"' % s.replace('"', '""')


def K(s):
    return '(K %s)' % coq_string(s)


def vname(py):
    return py + '_' if py in RESERVED else py


def ast_hash(fn):
    body = fn.body
    if body and isinstance(body[0], ast.Expr) and isinstance(getattr(body[0], 'value', None), ast.Constant) \
            and isinstance(body[0].value.value, str):
        body = body[1:]
    text = ast.dump(ast.Module(body=body, type_ignores=[]), annotate_fields=False, include_attributes=False)
    text += '|' + ast.dump(fn.args, annotate_fields=False, include_attributes=False)
    return hashlib.sha256(text.encode()).hexdigest()[:16]


# ---------------------------------------------------------------- code trees
# ('let', pat, term, body) | ('bind', pat, mterm, body) | ('if', cond, A, B) | ('ret', term) | ('m', mterm)
# | ('match', scrut, [(pat, body)..])
def is_pure(c):
    k = c[0]
    if k == 'let':
        return is_pure(c[3])
    if k == 'if':
        return is_pure(c[2]) and is_pure(c[3])
    return k == 'ret'


def render(c, ind, pure=False):
    sp = ' ' * ind
    k = c[0]
    if k == 'let':
        return '%slet %s := %s in\n%s' % (sp, c[1], c[2], render(c[3], ind, pure))
    if k == 'bind':
        return '%s%s <- %s ;;\n%s' % (sp, c[1], c[2], render(c[3], ind, pure))
    if k == 'if':
        return '%sif %s then\n%s\n%selse\n%s' % (sp, c[1], render(c[2], ind + 2, pure), sp, render(c[3], ind + 2, pure))
    if k == 'ret':
        return sp + (c[1] if pure else 'ROk %s' % paren(c[1]))
    if k == 'm':
        return sp + c[1]
    if k == 'match':
        rows = ''.join('\n%s| %s =>\n%s' % (sp, p, render(b, ind + 4, pure)) for p, b in c[2])
        return '%smatch %s with%s\n%send' % (sp, c[1], rows, sp)
    raise AssertionError(k)


def inline(c, pure=False):
    """one-line rendering in parentheses"""
    return '(' + ' '.join(render(c, 0, pure).split()) + ')'


def paren(t):
    t = t.strip()
    if ' ' not in t:
        return t
    if t[0] in '([' and t[-1] in ')]':
        depth = 0
        for i, ch in enumerate(t):
            if ch in '([':
                depth += 1
            elif ch in ')]':
                depth -= 1
                if depth == 0 and i < len(t) - 1:
                    break
        else:
            return t
        if depth == 0 and i == len(t) - 1:
            return t
    return '(%s)' % t


class Ctx:
    """where a return / fall-through goes"""

    def __init__(self, ret, ret_m, tail, cont=None):
        self.ret, self.ret_m, self.tail, self.cont = ret, ret_m, tail, cont


class Fn:
    """one method being translated"""

    def __init__(self, tr, spec, node):
        self.tr, self.spec, self.node = tr, spec, node
        self.sig = tr.sig
        self.aux = []          # Fixpoints emitted before the definition
        self.ntemp = 0
        self.nloop = 0
        self.consts = {}       # local name -> literal list-of-pairs / empty dict info

    def fresh(self):
        self.ntemp += 1
        return 't%d' % self.ntemp

    # ------------------------------------------------------------ expressions
    def cx(self, e, env, pre):
        """-> (pure term, type); monadic sub-computations are appended to pre as (var, mterm)"""
        m = self.cm(e, env, pre)
        if m[2]:
            v = self.fresh()
            pre.append((v, m[0]))
            return v, m[1]
        return m[0], m[1]

    def cm(self, e, env, pre):
        """-> (term, type, is_monadic).  A monadic term has Coq type result <type>."""
        sig = self.sig
        if isinstance(e, ast.Name):
            if e.id not in env:
                raise Unsupported(e, 'name %s is not a parameter or local' % e.id)
            return env[e.id][0], env[e.id][1], False
        if isinstance(e, ast.Constant):
            if isinstance(e.value, str):
                return K(e.value), 'str', False
            if e.value is None:
                return 'JNull', 'json', False
            if isinstance(e.value, bool):
                return ('true' if e.value else 'false'), 'bool', False
            if isinstance(e.value, int) and e.value >= 0:
                return '(JInt %d)' % e.value, 'json', False
            raise Unsupported(e, 'constant %r' % (e.value,))
        if isinstance(e, ast.JoinedStr):
            parts = []
            for v in e.values:
                if isinstance(v, ast.Constant) and isinstance(v.value, str):
                    parts.append(K(v.value))
                elif isinstance(v, ast.FormattedValue) and v.conversion == -1 and v.format_spec is None:
                    t, ty = self.cx(v.value, env, pre)
                    if ty != 'str':
                        raise Unsupported(e, 'f-string part of type %s (only text)' % ty)
                    parts.append(t)
                else:
                    raise Unsupported(e, 'f-string part outside the subset')
            return '(%s)' % ' ++ '.join(parts), 'str', False
        if isinstance(e, ast.Attribute):
            if isinstance(e.value, ast.Name) and e.value.id == 'self':
                a = sig['self_attrs'].get(e.attr)
                if a is None and (e.attr in self.tr.specs or e.attr in sig.get('primitives', {})):
                    return self.tr.method_ref(e, e.attr), 'method', False
                if a is None:
                    raise Unsupported(e, 'attribute self.%s is not in the signature file' % e.attr)
                if a.get('kind') == 'const':
                    self.tr.need_const(e, e.attr)
                return a['coq'], a['type'], False
            raise Unsupported(e, 'attribute .%s outside the subset' % e.attr)
        if isinstance(e, ast.Subscript):
            return self.subscript(e, env, pre)
        if isinstance(e, ast.UnaryOp) and isinstance(e.op, ast.Not):
            t, ty = self.cx(e.operand, env, pre)
            return 'negb %s' % paren(self.truth(e, t, ty)), 'bool', False
        if isinstance(e, ast.BoolOp):
            return self.boolop(e, env, pre)
        if isinstance(e, ast.Compare):
            return self.compare(e, env, pre)
        if isinstance(e, ast.Call):
            return self.call(e, env, pre)
        if isinstance(e, ast.ListComp):
            return self.listcomp(e, env, pre)
        raise Unsupported(e, 'expression %s is outside the supported subset' % type(e).__name__)

    def truth(self, node, t, ty):
        if ty == 'bool':
            return t
        if ty == 'json':
            return 'py_truthy %s' % paren(t)
        raise Unsupported(node, 'truth value of a %s' % ty)

    def cond(self, e, env, pre):
        """a condition as a pure bool (monadic parts bound in pre)"""
        t, ty = self.cx(e, env, pre)
        return self.truth(e, t, ty)

    def subscript(self, e, env, pre):
        sl = e.slice
        # kwargs['name'] of a **kwargs function
        if isinstance(e.value, ast.Name) and e.value.id in env and env[e.value.id][1] == 'kwargs':
            if not (isinstance(sl, ast.Constant) and sl.value in self.spec.get('kwargs', {})):
                raise Unsupported(e, 'kwargs entry not in the signature file')
            ent = self.spec['kwargs'][sl.value]
            return ent['coq'], ent['type'], False
        base, bty = self.cx(e.value, env, pre)
        if bty == 'json' and isinstance(sl, ast.Constant) and isinstance(sl.value, str):
            return 'py_getitem %s %s' % (paren(base), K(sl.value)), 'json', True
        if bty == 'json' and isinstance(sl, ast.Constant) and isinstance(sl.value, int) \
                and not isinstance(sl.value, bool) and sl.value >= 0:
            return 'py_index %s %d%%nat' % (paren(base), sl.value), 'json', True
        if bty == 'edict':
            k, kty = self.cx(sl, env, pre)
            if kty != 'json':
                raise Unsupported(e, 'key of type %s into a class constant' % kty)
            return 'py_const_dict_get %s %s' % (paren(base), paren(k)), 'etype', True
        raise Unsupported(e, 'subscript of a %s' % bty)

    def boolop(self, e, env, pre):
        op = '||' if isinstance(e.op, ast.Or) else '&&'
        rop = 'r_or' if isinstance(e.op, ast.Or) else 'r_and'
        first = self.cond(e.values[0], env, pre)
        acc, mon = first, False
        for v in e.values[1:]:
            p2 = []
            c = self.cond(v, env, p2)
            if not p2 and not mon:
                acc = '%s %s %s' % (paren(acc), op, paren(c))
            else:
                # the operand may raise: it is only evaluated when the operands before it did not decide
                code = ('ret', c)
                for var, mt in reversed(p2):
                    code = ('bind', var, mt, code)
                left = acc if mon else 'ROk %s' % paren(acc)
                acc = '%s %s %s' % (rop, paren(left), inline(code))
                mon = True
        return acc, 'bool', mon

    def compare(self, e, env, pre):
        if len(e.ops) != 1:
            raise Unsupported(e, 'chained comparison')
        op, l, r = e.ops[0], e.left, e.comparators[0]
        neg = isinstance(op, (ast.NotEq, ast.NotIn, ast.IsNot))
        wrap = (lambda t: 'negb %s' % paren(t)) if neg else (lambda t: t)
        if isinstance(op, (ast.Is, ast.IsNot)):
            if not (isinstance(r, ast.Constant) and r.value is None):
                raise Unsupported(e, '`is` with anything but None')
            t, ty = self.cx(l, env, pre)
            if ty != 'json':
                raise Unsupported(e, 'None test of a %s' % ty)
            return wrap('is_null %s' % paren(t)), 'bool', False
        if isinstance(op, (ast.Eq, ast.NotEq)):
            a, aty = self.cx(l, env, pre)
            b, bty = self.cx(r, env, pre)
            if aty == 'json' and bty == 'json':
                return wrap('py_eq %s %s' % (paren(a), paren(b))), 'bool', False
            if aty == 'json' and bty == 'str':
                return wrap('py_eq %s (JStr %s)' % (paren(a), b)), 'bool', False
            if aty == 'str' and bty == 'str':
                return wrap('str_eqb %s %s' % (paren(a), paren(b))), 'bool', False
            if aty == 'nat' and bty == 'json':
                t = 'py_ne_nat %s %s' % (paren(a), paren(b))
                return (t if neg else 'negb %s' % paren(t)), 'bool', False
            raise Unsupported(e, 'comparison of a %s with a %s' % (aty, bty))
        if isinstance(op, (ast.In, ast.NotIn)):
            if isinstance(r, ast.List):
                a, aty = self.cx(l, env, pre)
                if aty != 'json':
                    raise Unsupported(e, 'membership of a %s in a list display' % aty)
                alts = []
                for it in r.elts:
                    b, bty = self.cx(it, env, pre)
                    if bty != 'str':
                        raise Unsupported(e, 'list display item of type %s' % bty)
                    alts.append('py_eq %s (JStr %s)' % (paren(a), b))
                return wrap('(%s)' % ' || '.join(alts) if alts else 'false'), 'bool', False
            a, aty = self.cx(l, env, pre)
            b, bty = self.cx(r, env, pre)
            if aty == 'str' and bty == 'json':
                m = 'py_in %s %s' % (paren(a), paren(b))
            elif aty == 'str' and bty == 'strset':
                return wrap('str_mem %s %s' % (paren(a), paren(b))), 'bool', False
            elif aty == 'json' and bty == 'strset':
                m = 'py_in_strset %s %s' % (paren(a), paren(b))
            elif aty == 'json' and bty == 'edict':
                m = 'py_in_strset %s (map fst %s)' % (paren(a), paren(b))
            elif aty == 'json' and bty == 'jset':
                m = 'py_in_set %s %s' % (paren(a), paren(b))
            else:
                raise Unsupported(e, 'membership of a %s in a %s' % (aty, bty))
            if not neg:
                return m, 'bool', True
            v = self.fresh()
            pre.append((v, m))
            return 'negb %s' % v, 'bool', False
        if isinstance(op, (ast.Lt, ast.Gt, ast.LtE, ast.GtE)):
            a, aty = self.cx(l, env, pre)
            if aty == 'statuslen':
                if isinstance(op, ast.Gt) and isinstance(r, ast.Constant) and r.value == 0 and not isinstance(r.value, bool):
                    return 'status_nonempty %s' % paren(a), 'bool', False
                raise Unsupported(e, 'length of a status text compared with anything but > 0')
            b, bty = self.cx(r, env, pre)
            if aty != 'json' or bty != 'json':
                raise Unsupported(e, 'ordering of a %s and a %s' % (aty, bty))
            if isinstance(op, (ast.Gt, ast.GtE)):
                a, b = b, a
            prim = 'py_lt' if isinstance(op, (ast.Lt, ast.Gt)) else 'py_le'
            return '%s %s %s' % (prim, paren(a), paren(b)), 'bool', True
        raise Unsupported(e, 'comparison operator %s' % type(op).__name__)

    def call(self, e, env, pre):
        f = e.func
        if e.keywords:
            raise Unsupported(e, 'keyword arguments')
        # self.method(args)
        if isinstance(f, ast.Attribute) and isinstance(f.value, ast.Name) and f.value.id == 'self':
            spec = self.tr.callee(e, f.attr)
            if len(e.args) != len(spec['params']):
                raise Unsupported(e, 'call of %s with %d arguments' % (f.attr, len(e.args)))
            args = []
            for a, (pn, pt) in zip(e.args, spec['params']):
                t, ty = self.cx(a, env, pre)
                if ty != pt:
                    raise Unsupported(e, 'argument %s of %s has type %s, expected %s' % (pn, f.attr, ty, pt))
                args.append(paren(t))
            return '%s %s' % (spec['coq'], ' '.join(args)), spec['ret'], spec['monadic']
        # a local holding a bound method
        if isinstance(f, ast.Name) and f.id in env and env[f.id][1] == 'method':
            if len(e.args) != 1:
                raise Unsupported(e, 'call of a bound method with %d arguments' % len(e.args))
            t, ty = self.cx(e.args[0], env, pre)
            if ty != 'json':
                raise Unsupported(e, 'bound method applied to a %s' % ty)
            return '%s %s' % (env[f.id][0], paren(t)), 'status', True
        if isinstance(f, ast.Name) and f.id == 'len' and len(e.args) == 1:
            t, ty = self.cx(e.args[0], env, pre)
            if ty == 'json':
                return 'py_len %s' % paren(t), 'nat', True
            if ty == 'status':
                return t, 'statuslen', False
            raise Unsupported(e, 'len of a %s' % ty)
        if isinstance(f, ast.Name) and f.id == 'isinstance' and len(e.args) == 2:
            t, ty = self.cx(e.args[0], env, pre)
            if ty != 'json':
                raise Unsupported(e, 'isinstance of a %s' % ty)
            c = e.args[1]
            if isinstance(c, ast.Name) and c.id in env and env[c.id][1] == 'etype':
                return 'py_isinstance_t %s %s' % (paren(t), env[c.id][0]), 'bool', False
            if isinstance(c, ast.Name) and c.id in sig_get(self.sig, 'isinstance'):
                return '%s %s' % (self.sig['isinstance'][c.id], paren(t)), 'bool', False
            raise Unsupported(e, 'isinstance against a class the signature file does not cover')
        if isinstance(f, ast.Name) and f.id == 'hasattr' and len(e.args) == 2 and isinstance(e.args[1], ast.Constant):
            t, ty = self.cx(e.args[0], env, pre)
            known = sig_get(self.sig, 'hasattr')
            if ty != 'json' or e.args[1].value not in known:
                raise Unsupported(e, 'hasattr outside the signature file')
            return ('true' if known[e.args[1].value] else 'false'), 'staticbool', False
        if isinstance(f, ast.Name) and f.id == 'reduce' and len(e.args) == 2 \
                and isinstance(e.args[0], ast.Name) and e.args[0].id == 'and_':
            t, ty = self.cx(e.args[1], env, pre)
            if ty != 'boollist':
                raise Unsupported(e, 'reduce(and_, ..) of a %s' % ty)
            return 'py_reduce_and %s' % paren(t), 'bool', True
        # x.lower() / x.get(k[, None])
        if isinstance(f, ast.Attribute) and f.attr == 'lower' and not e.args:
            t, ty = self.cx(f.value, env, pre)
            if ty != 'json':
                raise Unsupported(e, '.lower() of a %s' % ty)
            return 'py_lower %s' % paren(t), 'str', True
        if isinstance(f, ast.Attribute) and f.attr == 'get' and len(e.args) in (1, 2):
            if len(e.args) == 2 and not (isinstance(e.args[1], ast.Constant) and e.args[1].value is None):
                raise Unsupported(e, '.get with a default other than None')
            t, ty = self.cx(f.value, env, pre)
            k, kty = self.cx(e.args[0], env, pre)
            if ty != 'json' or kty != 'str':
                raise Unsupported(e, '.get of a %s with a key of type %s' % (ty, kty))
            return 'py_get %s %s' % (paren(t), paren(k)), 'json', True
        # patterns of the signature file (whole-call match on the dumped AST with holes)
        for p in self.sig.get('patterns', []):
            b = match_pattern(p['py'], e)
            if b is not None:
                args = []
                for i, want in enumerate(p['args']):
                    t, ty = self.cx(b[i], env, pre)
                    if ty != want:
                        raise Unsupported(e, 'pattern argument of type %s, expected %s' % (ty, want))
                    args.append(paren(t))
                return p['coq'].format(*args), p['type'], bool(p.get('monadic'))
        raise Unsupported(e, 'call of %s is outside the supported subset' % ast.dump(f)[:60])

    def listcomp(self, e, env, pre):
        if len(e.generators) != 1 or e.generators[0].ifs or e.generators[0].is_async \
                or not isinstance(e.generators[0].target, ast.Name):
            raise Unsupported(e, 'list comprehension outside the subset')
        g = e.generators[0]
        it, ity = self.cx(g.iter, env, pre)
        if ity != 'json':
            raise Unsupported(e, 'comprehension over a %s' % ity)
        items = self.fresh()
        pre.append((items, 'py_iter %s' % paren(it)))
        env2 = dict(env)
        v = vname(g.target.id)
        env2[g.target.id] = (v, 'json')
        p2 = []
        body = self.cond(e.elt, env2, p2)
        if p2:
            raise Unsupported(e, 'comprehension element that can raise')
        return 'map (fun %s => %s) %s' % (v, body, items), 'boollist', False

    # ------------------------------------------------------------ messages
    def message(self, e, env, pre):
        """a return value that is a report text -> Some [code; params] or None"""
        if isinstance(e, ast.Constant) and e.value == '':
            return 'None'
        text, args = None, []
        if isinstance(e, ast.Constant) and isinstance(e.value, str):
            text = e.value
        elif isinstance(e, ast.BinOp) and isinstance(e.op, ast.Mod) and isinstance(e.left, ast.Constant) \
                and isinstance(e.left.value, str):
            text = e.left.value
            args = list(e.right.elts) if isinstance(e.right, ast.Tuple) else [e.right]
        elif isinstance(e, ast.JoinedStr):
            text = ''
            for v in e.values:
                if isinstance(v, ast.Constant):
                    text += v.value
                elif isinstance(v, ast.FormattedValue) and v.conversion == -1 and v.format_spec is None:
                    text += '{}'
                    args.append(v.value)
                else:
                    raise Unsupported(e, 'f-string part outside the subset')
        if text is None:
            return None
        ent = self.sig['messages'].get(text)
        if ent is None:
            raise Unsupported(e, 'message text %r is not in the signature file' % text[:50])
        if len(ent['args']) != len(args):
            raise Unsupported(e, 'message %r with %d parameters' % (text[:40], len(args)))
        vals = []
        for a, want in zip(args, ent['args']):
            if want == '_':
                self.ignored_arg(a, env)
                vals.append('')
            else:
                t, ty = self.cx(a, env, pre)
                if ty != want:
                    raise Unsupported(e, 'message parameter of type %s, expected %s' % (ty, want))
                vals.append(paren(t))
        return 'Some %s' % ent['coq'].format(*vals)

    def ignored_arg(self, a, env):
        """a message parameter the codes do not carry: only forms that cannot raise after the checks before"""
        if isinstance(a, ast.Call) and isinstance(a.func, ast.Name) and a.func.id in ('repr', 'str') \
                and len(a.args) == 1 and not a.keywords:
            a = a.args[0]
        if isinstance(a, ast.Subscript) and isinstance(a.slice, ast.Constant) and isinstance(a.slice.value, str):
            a = a.value
        if isinstance(a, ast.Name) and a.id in env:
            return
        if isinstance(a, ast.Attribute) and isinstance(a.value, ast.Name) and a.value.id == 'self' \
                and self.sig['self_attrs'].get(a.attr, {}).get('kind') == 'field':
            return
        raise Unsupported(a, 'message parameter outside the subset')

    # ------------------------------------------------------------ statements
    def binds(self, pre, code):
        for var, mt in reversed(pre):
            code = ('bind', var, mt, code)
        return code

    def block(self, stmts, env, ctx):
        if not stmts:
            return ctx.tail(env)
        s, rest = stmts[0], stmts[1:]
        env = dict(env)
        if isinstance(s, ast.Expr) and isinstance(s.value, ast.Constant) and isinstance(s.value.value, str):
            return self.block(rest, env, ctx)
        if isinstance(s, ast.Pass):
            return self.block(rest, env, ctx)
        if isinstance(s, ast.Return):
            return self.ret(s, env, ctx)
        if isinstance(s, ast.Continue):
            if ctx.cont is None:
                raise Unsupported(s, 'continue outside a loop')
            return ctx.cont(env)
        if isinstance(s, ast.Assign):
            return self.assign(s, rest, env, ctx)
        if isinstance(s, ast.AugAssign):
            if isinstance(s.target, ast.Name) and isinstance(s.op, ast.Sub) and isinstance(s.value, ast.Constant) \
                    and isinstance(s.value.value, int) and s.target.id in env and env[s.target.id][1] == 'json':
                v = env[s.target.id][0]
                return ('bind', v, 'py_sub_int %s %d' % (v, s.value.value), self.block(rest, env, ctx))
            raise Unsupported(s, 'augmented assignment outside the subset')
        if isinstance(s, ast.If):
            return self.if_(s, rest, env, ctx)
        if isinstance(s, ast.For):
            return self.for_(s, rest, env, ctx)
        if isinstance(s, ast.Try):
            return self.try_(s, rest, env, ctx)
        if isinstance(s, ast.Expr) and isinstance(s.value, ast.Call):
            return self.call_stmt(s, rest, env, ctx)
        raise Unsupported(s, 'statement %s is outside the supported subset' % type(s).__name__)

    def ret(self, s, env, ctx):
        e = s.value
        if e is None:
            raise Unsupported(s, 'bare return')
        rty = self.spec['ret']
        pre = []
        if rty == 'report':
            want = self.spec['return_dict']
            if not (isinstance(e, ast.Dict) and [getattr(k, 'value', None) for k in e.keys] == want
                    and all(isinstance(v, ast.Name) and v.id == k for k, v in zip(want, e.values))):
                raise Unsupported(s, 'return value is not the report dict of the signature file')
            types = [env[k][1] for k in want]
            if types != ['bool', 'lines']:
                raise Unsupported(s, 'report dict of types %s' % types)
            return ctx.ret('(%s)' % ', '.join(env[k][0] for k in want))
        if rty == 'status':
            m = self.message(e, env, pre)
            if m is not None:
                return self.binds(pre, ctx.ret(m))
        t, ty, mon = self.cm(e, env, pre)
        if ty != rty:
            raise Unsupported(s, 'return of a %s where %s is expected' % (ty, rty))
        return self.binds(pre, ctx.ret_m(t) if mon else ctx.ret(t))

    def assign(self, s, rest, env, ctx):
        if len(s.targets) != 1:
            raise Unsupported(s, 'multiple assignment targets')
        tg = s.targets[0]
        pre = []
        if isinstance(tg, ast.Attribute) and isinstance(tg.value, ast.Name) and tg.value.id == 'self':
            a = self.sig['self_attrs'].get(tg.attr)
            t, ty = self.cx(s.value, env, pre)
            if a is None or a.get('kind') != 'field' or pre or t != a['coq'] or ty != a['type']:
                raise Unsupported(s, 'store into self.%s does not match the signature file' % tg.attr)
            return self.block(rest, env, ctx)
        if isinstance(tg, ast.Tuple) and all(isinstance(x, ast.Name) for x in tg.elts) and len(tg.elts) == 2:
            t, ty = self.cx(s.value, env, pre)
            if ty != 'json':
                raise Unsupported(s, 'unpacking of a %s' % ty)
            pv = self.fresh()
            a, b = [vname(x.id) for x in tg.elts]
            env[tg.elts[0].id] = (a, 'json')
            env[tg.elts[1].id] = (b, 'json')
            code = ('let', a, 'fst %s' % pv, ('let', b, 'snd %s' % pv, self.block(rest, env, ctx)))
            return self.binds(pre, ('bind', pv, 'py_unpack2 %s' % paren(t), code))
        if not isinstance(tg, ast.Name):
            raise Unsupported(s, 'assignment target outside the subset')
        name = tg.id
        v = vname(name)
        # literals that stay symbolic
        if isinstance(s.value, ast.List) and not s.value.elts:
            want = self.spec.get('locals', {}).get(name)
            if want != 'lines':
                raise Unsupported(s, 'empty list for a local the signature file does not type')
            env[name] = (v, 'lines')
            return ('let', v, '[]', self.block(rest, env, ctx))
        if isinstance(s.value, ast.List):
            items = []
            for it in s.value.elts:
                if not (isinstance(it, ast.Tuple) and len(it.elts) == 2):
                    raise Unsupported(s, 'list display outside the subset')
                k, kty = self.cx(it.elts[0], env, pre)
                m, mty = self.cx(it.elts[1], env, pre)
                if kty != 'str' or mty != 'method' or pre:
                    raise Unsupported(s, 'list display of (%s, %s) pairs' % (kty, mty))
                items.append('(%s, %s)' % (k, m))
            env[name] = (v, 'methods')
            return ('let', v, '[%s]' % '; '.join(items), self.block(rest, env, ctx))
        if isinstance(s.value, ast.Dict) and not s.value.keys:
            env[name] = (v, 'emptydict')
            return self.block(rest, env, ctx)
        if isinstance(s.value, ast.Call) and isinstance(s.value.func, ast.Name) and s.value.func.id == 'set' \
                and not s.value.args and not s.value.keywords:
            env[name] = (v, 'jset')
            return ('let', v, '[]', self.block(rest, env, ctx))
        if name in env and env[name][1] == 'kwargs':
            raise Unsupported(s, 'assignment to kwargs')
        t, ty, mon = self.cm(s.value, env, pre)
        if ty in ('statuslen', 'staticbool', 'boollist', 'method'):
            raise Unsupported(s, 'a local of type %s' % ty)
        if name in env and env[name][1] == 'json' and ty == 'str' and not mon:
            t, ty = 'JStr %s' % t, 'json'       # a text constant stored into a dynamically typed local
        if name in env and env[name][1] != ty:
            raise Unsupported(s, 'local %s changes type from %s to %s' % (name, env[name][1], ty))
        env[name] = (v, ty)
        body = self.block(rest, env, ctx)
        return self.binds(pre, ('bind', v, t, body) if mon else ('let', v, t, body))

    def leaves(self, stmts):
        """does every path through the block end in return / continue?"""
        if not stmts:
            return False
        s = stmts[-1]
        if isinstance(s, (ast.Return, ast.Continue)):
            return True
        if isinstance(s, ast.If):
            return self.leaves(s.body) and self.leaves(s.orelse)
        return False

    def has_leave(self, stmts):
        for s in stmts:
            for n in ast.walk(s):
                if isinstance(n, (ast.Return, ast.Continue)):
                    return True
        return False

    def assigned(self, stmts):
        out = []

        def add(n):
            if n not in out:
                out.append(n)
        for s in stmts:
            for n in ast.walk(s):
                if isinstance(n, (ast.Assign, ast.AugAssign)):
                    tgs = n.targets if isinstance(n, ast.Assign) else [n.target]
                    for t in tgs:
                        for x in ast.walk(t):
                            if isinstance(x, ast.Name):
                                add(x.id)
                elif isinstance(n, ast.Expr) and isinstance(n.value, ast.Call) \
                        and isinstance(n.value.func, ast.Attribute) and isinstance(n.value.func.value, ast.Name) \
                        and n.value.func.attr in ('append', 'add', 'extend'):
                    add(n.value.func.value.id)
        return out

    def static_cond(self, s, env):
        """hasattr(..) of the signature file decides a test at translation time"""
        t = s.test
        if isinstance(t, ast.Call) and isinstance(t.func, ast.Name) and t.func.id == 'hasattr':
            p = []
            v, ty, _ = self.cm(t, env, p)
            if ty == 'staticbool' and not p:
                return v == 'true'
        return None

    def if_(self, s, rest, env, ctx):
        st = self.static_cond(s, env)
        if st is not None:
            # the branch the JSON specialisation never takes is dropped, the other is inlined
            live = s.body if st else s.orelse
            return self.block(list(live) + list(rest), env, ctx)
        pre = []
        c = self.cond(s.test, env, pre)
        if self.leaves(s.body):
            code = ('if', c, self.block(s.body, env, ctx), self.block(list(s.orelse) + list(rest), env, ctx))
            return self.binds(pre, code)
        if s.orelse and self.leaves(s.orelse):
            code = ('if', c, self.block(list(s.body) + list(rest), env, ctx), self.block(s.orelse, env, ctx))
            return self.binds(pre, code)
        if self.has_leave(s.body) or self.has_leave(s.orelse):
            raise Unsupported(s, 'an if that leaves on some paths only')
        # both branches only rebind locals: merge through the tuple of the rebound variables
        names = [n for n in self.assigned(list(s.body) + list(s.orelse)) if n in env]
        if not names:
            raise Unsupported(s, 'an if without any effect')
        new = [n for n in self.assigned(list(s.body) + list(s.orelse)) if n not in env]
        tup = lambda en: ('ret', '(%s)' % ', '.join(en[n][0] for n in names) if len(names) > 1 else en[names[0]][0])
        tctx = Ctx(None, None, tup)
        tctx.ret = tctx.ret_m = lambda *_: (_ for _ in ()).throw(Unsupported(s, 'return inside a merged if'))
        a = self.block(s.body, env, tctx)
        b = self.block(s.orelse, env, tctx)
        pat = "'(%s)" % ', '.join(env[n][0] for n in names) if len(names) > 1 else env[names[0]][0]
        # locals first bound inside the branches are not visible afterwards
        env2 = {k: v for k, v in env.items() if k not in new}
        body = self.block(rest, env2, ctx)
        if is_pure(a) and is_pure(b):
            return self.binds(pre, ('let', pat, 'if %s then %s else %s' % (c, inline(a, True), inline(b, True)), body))
        stv = self.fresh()
        code = ('bind', stv, '(if %s then\n%s\n      else\n%s)' % (c, render(a, 8), render(b, 8)),
                ('let', pat, stv, body) if len(names) > 1 else ('let', pat, stv, body))
        return self.binds(pre, code)

    def try_(self, s, rest, env, ctx):
        ok = (len(s.body) == 1 and isinstance(s.body[0], ast.Assign) and len(s.handlers) == 1
              and not s.orelse and not s.finalbody and s.handlers[0].type is None and s.handlers[0].name is None)
        if ok:
            a = s.body[0]
            tg = a.targets[0]
            ok = (len(a.targets) == 1 and isinstance(tg, ast.Tuple) and len(tg.elts) == 3
                  and all(isinstance(x, ast.Name) for x in tg.elts) and isinstance(a.value, ast.Name)
                  and a.value.id in env and env[a.value.id][1] == 'json' and self.leaves(s.handlers[0].body))
        if not ok:
            raise Unsupported(s, 'try statement outside the subset (only a 3-name unpacking with a bare except that leaves)')
        names = [vname(x.id) for x in tg.elts]
        handler = self.block(s.handlers[0].body, env, ctx)
        for x, n in zip(tg.elts, names):
            env[x.id] = (n, 'json')
        body = self.block(rest, env, ctx)
        return ('match', 'unpack3 %s' % env[a.value.id][0],
                [('None', handler), ('Some (%s, %s, %s)' % tuple(names), body)])

    def call_stmt(self, s, rest, env, ctx):
        c = s.value
        f = c.func
        if isinstance(f, ast.Attribute) and isinstance(f.value, ast.Name) and f.value.id in env and not c.keywords \
                and len(c.args) == 1:
            recv, rty = env[f.value.id]
            pre = []
            if f.attr == 'append' and rty == 'lines':
                m = self.message(c.args[0], env, pre)
                if m is not None and m.startswith('Some '):
                    line = m[5:]
                else:
                    t, ty = self.cx(c.args[0], env, pre)
                    if ty != 'status':
                        raise Unsupported(s, 'append of a %s to the report' % ty)
                    line = 'status_line %s' % paren(t)
                return self.binds(pre, ('let', recv, '%s ++ [%s]' % (recv, line), self.block(rest, env, ctx)))
            if f.attr == 'add' and rty == 'jset':
                t, ty = self.cx(c.args[0], env, pre)
                if ty != 'json':
                    raise Unsupported(s, 'add of a %s to a set' % ty)
                return self.binds(pre, ('bind', recv, 'py_set_add %s %s' % (paren(t), recv), self.block(rest, env, ctx)))
            if f.attr == 'extend' and rty == 'methods':
                # l.extend(d.get(e, [])) with d an empty dict display: e is evaluated, nothing is added
                a = c.args[0]
                if isinstance(a, ast.Call) and isinstance(a.func, ast.Attribute) and a.func.attr == 'get' \
                        and isinstance(a.func.value, ast.Name) and a.func.value.id in env \
                        and env[a.func.value.id][1] == 'emptydict' and len(a.args) == 2 and not a.keywords \
                        and isinstance(a.args[1], ast.List) and not a.args[1].elts:
                    t, ty, mon = self.cm(a.args[0], env, pre)
                    if ty != 'str':
                        raise Unsupported(s, 'lookup key of type %s (must be hashable text)' % ty)
                    code = self.block(rest, env, ctx)
                    return self.binds(pre, ('bind', '_', t, code) if mon else code)
        raise Unsupported(s, 'call statement outside the supported subset')

    def for_(self, s, rest, env, ctx):
        if s.orelse:
            raise Unsupported(s, 'for ... else')
        self.nloop += 1
        lname = '%s_loop%d' % (self.spec['coq'], self.nloop)
        pre = []
        it = s.iter
        idx = None
        if isinstance(it, ast.Call) and isinstance(it.func, ast.Name) and it.func.id == 'enumerate' \
                and len(it.args) == 1 and not it.keywords:
            if not (isinstance(s.target, ast.Tuple) and len(s.target.elts) == 2
                    and all(isinstance(x, ast.Name) for x in s.target.elts)):
                raise Unsupported(s, 'enumerate without (index, item) targets')
            idx = s.target.elts[0].id
            item = s.target.elts[1].id
            src, sty = self.cx(it.args[0], env, pre)
            if sty != 'json':
                raise Unsupported(s, 'enumerate of a %s' % sty)
            lst = self.fresh()
            pre.append((lst, 'py_iter %s' % paren(src)))
            elt_ty, lst_ty = 'json', 'list json'
            targets = [(item, 'json', None)]
        else:
            src, sty = self.cx(it, env, pre)
            if sty == 'json' and isinstance(s.target, ast.Name):
                lst = self.fresh()
                pre.append((lst, 'py_iter %s' % paren(src)))
                lst_ty = 'list json'
                targets = [(s.target.id, 'json', None)]
            elif sty == 'methods' and isinstance(s.target, ast.Tuple) and len(s.target.elts) == 2 \
                    and all(isinstance(x, ast.Name) for x in s.target.elts):
                lst, lst_ty = src, 'methods'
                targets = [(s.target.elts[0].id, 'str', 'fst'), (s.target.elts[1].id, 'method', 'snd')]
            else:
                raise Unsupported(s, 'loop over a %s' % sty)
        tnames = [t[0] for t in targets] + ([idx] if idx else [])
        for n in tnames:
            if n in env:
                raise Unsupported(s, 'loop target %s shadows a local' % n)
        state = [n for n in self.assigned(s.body) if n in env]
        early = any(isinstance(n, ast.Return) for b in s.body for n in ast.walk(b))
        if early and ctx.ret is None:
            raise Unsupported(s, 'return inside a loop inside a merged if')
        used = set()
        for b in s.body:
            for n in ast.walk(b):
                if isinstance(n, ast.Name):
                    used.add(n.id)
        frees = [n for n in env if n in used and n not in state and env[n][1] not in ('kwargs', 'emptydict')]
        for n in frees + state:
            if env[n][1] not in COQ_TYPES:
                raise Unsupported(s, 'loop over a variable of type %s' % env[n][1])
        params = ''.join(' (%s : %s)' % (env[n][0], COQ_TYPES[env[n][1]]) for n in frees)
        if idx:
            params += ' (%s : Z)' % vname(idx)
        params += ''.join(' (%s : %s)' % (env[n][0], COQ_TYPES[env[n][1]]) for n in state)
        rty = self.spec['ret']
        if early:
            res_ty = 'option %s' % paren(COQ_TYPES[rty])
        elif state:
            res_ty = ' * '.join(paren(COQ_TYPES[env[n][1]]) for n in state)
        else:
            raise Unsupported(s, 'a loop without any effect')

        def call(en, lst_term, step):
            args = [en[n][0] for n in frees]
            if idx:
                args.append('(%s + 1)' % vname(idx) if step else '0')
            args += [en[n][0] for n in state]
            return '%s %s %s' % (lname, ' '.join(args), lst_term) if args else '%s %s' % (lname, lst_term)

        benv = dict(env)
        if idx:
            benv[idx] = (vname(idx), 'Z')
        for n, ty, _ in targets:
            benv[n] = (vname(n), ty)
        again = lambda en: ('m', call(en, 'rest_', True))
        if early:
            bctx = Ctx(lambda t: ('ret', 'Some %s' % paren(t)),
                       lambda m: ('bind', 'r_', m, ('ret', 'Some r_')), again, again)
            nil = ('ret', 'None')
        else:
            bad = lambda *_: (_ for _ in ()).throw(Unsupported(s, 'return in a loop that carries state'))
            bctx = Ctx(bad, bad, again, again)
            nil = ('ret', '(%s)' % ', '.join(env[n][0] for n in state) if len(state) > 1 else env[state[0]][0])
        body = self.block(s.body, benv, bctx)
        if targets[0][2]:
            for n, ty, proj in reversed(targets):
                body = ('let', vname(n), '%s p_' % proj, body)
            head = 'p_'
        else:
            head = vname(targets[0][0])
        text = 'Fixpoint %s%s (l_ : %s) {struct l_} : result %s :=\n  match l_ with\n  | [] => %s\n  | %s :: rest_ =>\n%s\n  end.' % (
            lname, params, lst_ty, paren(res_ty), ' '.join(render(nil, 0).split()), head, render(body, 6))
        self.aux.append(text)
        # after the loop: the state variables of an early-return loop are gone, targets are never visible
        if early:
            env2 = {k: v for k, v in env.items() if k not in state}
            rv = self.fresh()
            after = self.block(rest, env2, ctx)
            code = ('bind', rv, call(env, lst, False),
                    ('match', rv, [('Some s_', ctx.ret('s_')), ('None', after)]))
        else:
            after = self.block(rest, env, ctx)
            pat = "'(%s)" % ', '.join(env[n][0] for n in state) if len(state) > 1 else env[state[0]][0]
            rv = self.fresh()
            code = ('bind', rv, call(env, lst, False), ('let', pat, rv, after))
        return self.binds(pre, code)

    # ------------------------------------------------------------ the definition
    def translate(self):
        fn, spec = self.node, self.spec
        a = fn.args
        if a.posonlyargs or a.kwonlyargs or a.vararg or a.defaults or a.kw_defaults or fn.decorator_list:
            raise Unsupported(fn, 'parameter list of %s outside the subset' % fn.name)
        names = [x.arg for x in a.args]
        if not names or names[0] != 'self':
            raise Unsupported(fn, '%s is not a method' % fn.name)
        env = {}
        if a.kwarg:
            if 'kwargs' not in spec or names != ['self']:
                raise Unsupported(fn, 'a kwargs method the signature file does not describe')
            env[a.kwarg.arg] = (a.kwarg.arg, 'kwargs')
            params = spec['params']
        else:
            if names[1:] != [p[0] for p in spec['params']]:
                raise Unsupported(fn, 'parameters of %s are %s, the signature file says %s'
                                  % (fn.name, names[1:], [p[0] for p in spec['params']]))
            params = spec['params']
            for pn, pt in params:
                env[pn] = (vname(pn), pt)

        def no_tail(en):
            raise Unsupported(fn, '%s can end without a return' % fn.name)
        if spec['monadic']:
            ctx = Ctx(lambda t: ('ret', t), lambda m: ('m', m), no_tail)
        else:
            def no_m(m):
                raise Unsupported(fn, '%s is declared pure but can raise' % fn.name)
            ctx = Ctx(lambda t: ('ret', t), no_m, no_tail)
        code = self.block(fn.body, env, ctx)
        ps = ''.join(' (%s : %s)' % (vname(pn), COQ_TYPES[pt]) for pn, pt in params)
        rty = COQ_TYPES[spec['ret']]
        if spec['monadic']:
            text = 'Definition %s%s : result %s :=\n%s.' % (spec['coq'], ps, paren(rty), render(code, 2))
        else:
            if not is_pure(code):
                raise Unsupported(fn, '%s is declared pure but can raise' % fn.name)
            text = 'Definition %s%s : %s :=\n%s.' % (spec['coq'], ps, rty, render(code, 2, True))
        return '\n\n'.join(self.aux + [text])


def sig_get(sig, k):
    return sig.get(k, {})


def match_pattern(pat, node):
    """pat: python expression text with holes _0_, _1_; structural match on the AST"""
    p = ast.parse(pat, mode='eval').body
    binds = {}

    def go(a, b):
        if isinstance(a, ast.Name) and a.id.startswith('_') and a.id.endswith('_') and a.id[1:-1].isdigit():
            binds[int(a.id[1:-1])] = b
            return True
        if type(a) is not type(b):
            return False
        for f, va in ast.iter_fields(a):
            if f in ('ctx',):
                continue
            vb = getattr(b, f)
            if isinstance(va, list):
                if not isinstance(vb, list) or len(va) != len(vb) or not all(go(x, y) for x, y in zip(va, vb)):
                    return False
            elif isinstance(va, ast.AST):
                if not isinstance(vb, ast.AST) or not go(va, vb):
                    return False
            elif va != vb:
                return False
        return True
    return [binds[i] for i in sorted(binds)] if go(p, node) else None


class Translator:
    def __init__(self, sig, text):
        self.sig = sig
        self.tree = ast.parse(text)
        self.done = []           # python names already emitted (a callee must come before its caller)
        self.consts_done = []
        cls = [n for n in self.tree.body if isinstance(n, ast.ClassDef) and n.name == sig['class']]
        if len(cls) != 1:
            raise Unsupported(self.tree, 'class %s not found' % sig['class'])
        self.cls = cls[0]
        self.methods = {n.name: n for n in self.cls.body if isinstance(n, ast.FunctionDef)}
        self.specs = {e['py']: e for e in sig['emit'] if e['kind'] == 'function'}

    def need_const(self, node, name):
        if name not in self.consts_done:
            raise Unsupported(node, 'class constant %s is used before it is emitted' % name)

    def callee(self, node, name):
        prim = self.sig.get('primitives', {}).get(name)
        if prim is not None:
            return prim
        if name not in self.specs:
            raise Unsupported(node, 'call of method %s, which the signature file does not cover' % name)
        if name not in self.done:
            raise Unsupported(node, 'method %s is called before it is emitted' % name)
        return self.specs[name]

    def method_ref(self, node, name):
        spec = self.callee(node, name)
        if [p[1] for p in spec['params']] != ['json'] or spec['ret'] != 'status':
            raise Unsupported(node, 'method %s used as a validator has the wrong type' % name)
        if spec['monadic']:
            return spec['coq']
        return '(fun j_ => ROk (%s j_))' % spec['coq']

    def const(self, ent):
        name = ent['py']
        node = [n for n in self.cls.body if isinstance(n, ast.Assign) and len(n.targets) == 1
                and isinstance(n.targets[0], ast.Name) and n.targets[0].id == name]
        if len(node) != 1:
            raise Unsupported(self.cls, 'class constant %s not found' % name)
        v = node[0].value
        ty = ent['type']
        if ty == 'str' and isinstance(v, ast.Constant) and isinstance(v.value, str):
            body, cty = K(v.value), 'str'
        elif ty == 'strset' and isinstance(v, ast.Set) and all(isinstance(x, ast.Constant) and isinstance(x.value, str) for x in v.elts):
            body, cty = '[%s]' % '; '.join(K(x.value)[1:-1] for x in v.elts), 'list str'
        elif ty == 'edict' and isinstance(v, ast.Dict) and all(isinstance(k, ast.Constant) and isinstance(k.value, str) for k in v.keys):
            items = []
            for k, x in zip(v.keys, v.values):
                if not (isinstance(x, ast.Name) and x.id in self.sig['etypes']):
                    raise Unsupported(node[0], 'value of %s outside the signature file' % name)
                items.append('(%s, %s)' % (K(k.value)[1:-1], self.sig['etypes'][x.id]))
            body, cty = '[%s]' % '; '.join(items), 'list (str * etype)'
        else:
            raise Unsupported(node[0], 'class constant %s is not a %s literal' % (name, ty))
        self.consts_done.append(name)
        return '(* %s.%s, line %d *)\nDefinition %s : %s := %s.' % (self.sig['class'], name, node[0].lineno, ent['coq'], cty, body)

    def translate(self):
        sig = self.sig
        out = []
        # every member of the class is accounted for
        covered = set(self.specs) | set(sig.get('not_translated', [])) | set(sig.get('pinned', {}))
        for n in self.cls.body:
            if isinstance(n, ast.FunctionDef):
                if n.name not in covered:
                    raise Unsupported(n, 'method %s is not covered by the signature file' % n.name)
            elif isinstance(n, ast.Assign) and len(n.targets) == 1 and isinstance(n.targets[0], ast.Name):
                if n.targets[0].id not in [e['py'] for e in sig['emit'] if e['kind'] == 'const'] + sig.get('consts_not_translated', []):
                    raise Unsupported(n, 'class constant %s is not covered by the signature file' % n.targets[0].id)
            elif isinstance(n, ast.Expr) and isinstance(n.value, ast.Constant):
                pass
            else:
                raise Unsupported(n, 'class member %s outside the subset' % type(n).__name__)
        for name, h in sig.get('pinned', {}).items():
            if name not in self.methods:
                raise Unsupported(self.cls, 'pinned method %s is missing' % name)
            got = ast_hash(self.methods[name])
            if got != h:
                raise Unsupported(self.methods[name], '%s is not translated but pinned, and it changed (ast hash %s, pinned %s)' % (name, got, h))
        for ent in sig['emit']:
            if ent['kind'] == 'const':
                out.append(self.const(ent))
            else:
                if ent['py'] not in self.methods:
                    raise Unsupported(self.cls, 'method %s not found' % ent['py'])
                node = self.methods[ent['py']]
                text = Fn(self, ent, node).translate()
                out.append('(* %s.%s, lines %d-%d *)\n%s' % (sig['class'], ent['py'], node.lineno, node.end_lineno, text))
                self.done.append(ent['py'])
        head = ['(* GENERATED by tools/py2v_dyn from %s (class %s) - do not edit; regenerated on every check. *)'
                % (sig['source'], sig['class'])] + sig['header']
        return '\n'.join(head) + '\n\n' + '\n\n'.join(out) + '\n'


def translate(sigpath, repo):
    sig = json.load(open(sigpath))
    if sig.get('mode') == 'state':      # receiver-state mode (sigs/metadata.json): a separate module
        if HERE not in sys.path:
            sys.path.insert(0, HERE)
        import statemode
        return statemode.translate(sig, repo)
    path = os.path.join(repo, sig['source'])
    raw = open(path, 'rb').read()
    out = Translator(sig, raw.decode('utf8')).translate()
    return sig, out, hashlib.sha256(raw).hexdigest()


def main(argv):
    repo = os.environ.get('BIOM_REPO', '/repo')
    outroot = os.path.dirname(os.path.dirname(HERE))
    to_stdout = False
    targets = []
    it = iter(argv)
    for a in it:
        if a == '--repo':
            repo = next(it)
        elif a == '--out':
            outroot = next(it)
        elif a == '--stdout':
            to_stdout = True
        else:
            targets.append(a)
    sigs = sorted(glob.glob(os.path.join(HERE, 'sigs', '*.json')))
    if targets:
        sigs = [s for s in sigs if os.path.basename(s)[:-5] in targets]
        if len(sigs) != len(targets):
            print('py2v_dyn: unknown target in %s' % targets, file=sys.stderr)
            return 2
    failed = False
    for s in sigs:
        src = json.load(open(s))['source']
        try:
            sig, out, sha = translate(s, repo)
        except Unsupported as e:
            print('py2v_dyn: REFUSED %s: %s' % (src, e), file=sys.stderr)
            failed = True
            continue
        except (OSError, SyntaxError, ValueError, KeyError, IndexError, TypeError, AttributeError) as e:
            print('py2v_dyn: REFUSED %s: %s: %s' % (src, type(e).__name__, e), file=sys.stderr)
            failed = True
            continue
        if to_stdout:
            sys.stdout.write(out)
            continue
        path = os.path.join(outroot, sig['output'])
        old = open(path).read() if os.path.exists(path) else None
        if old != out:
            os.makedirs(os.path.dirname(path), exist_ok=True)
            tmp = path + '.tmp'
            open(tmp, 'w').write(out)
            os.replace(tmp, path)
            state = 'written'
        else:
            state = 'unchanged'
        print('py2v_dyn: %s -> %s %s (source sha256 %s)' % (sig['source'], sig['output'], state, sha))
    return 2 if failed else 0


if __name__ == '__main__':
    sys.exit(main(sys.argv[1:]))
