"""The 14 edits of biom/table.py tried against the C18 translator tie (docs/C18.md, "Translator tie"): each is applied to
a scratch copy of the repository (cp -r /repo /tmp/c18gen-repo first; mkdir -p /tmp/c18gen) and run through the whole
`BIOM_REPO=/tmp/c18gen-repo VERIF_OUT=/tmp/c18gen-out ./check C18`; rows go to /tmp/c18gen/rows.json.  Afterwards run
tools/regen_dyn.sh and ./check C18 against /repo again."""
import os, re, shutil, subprocess, sys, json
REPO='/tmp/c18gen-repo'
EDITS=[
 ('no-exists','semantic','add_metadata: the `if self.exists(..)` test dropped (unknown ids raise)',
  "                if self.exists(id_, axis=axis):\n                    idx = self.index(id_, axis=axis)\n                    metadata[idx].update(md_entry)",
  "                idx = self.index(id_, axis=axis)\n                metadata[idx].update(md_entry)",1),
 ('none-get-empty','semantic','add_metadata, axis without metadata: md.get(id_, {}) instead of md[id_] if id_ in md else None (sample branch)',
  "self._sample_metadata = tuple(\n                    md[id_] if id_ in md else None for id_ in ids)",
  "self._sample_metadata = tuple(\n                    md.get(id_, {}) for id_ in ids)",1),
 ('wrong-field','semantic','add_metadata, sample branch stores into _observation_metadata',
  "            if axis == 'sample':\n                self._sample_metadata = tuple(","            if axis == 'sample':\n                self._observation_metadata = tuple(",1),
 ('no-cast','semantic','add_metadata no longer calls _cast_metadata',
  "                raise UnknownAxisError(axis)\n        self._cast_metadata()","                raise UnknownAxisError(axis)",1),
 ('del-no-guard','semantic','del_metadata: `if k in md` dropped (absent key raises KeyError)',
  "                    if k in md:\n                        del md[k]","                    del md[k]",1),
 ('no-collapse','semantic','del_metadata: collapse test against {True, False} (never collapses to None)',
  "if empties == {True, }:","if empties == {True, False}:",1),
 ('whole-half','semantic','del_metadata(keys=None, whole) clears only the sample axis',
  "                self._sample_metadata = None\n                self._observation_metadata = None\n            elif","                self._sample_metadata = None\n            elif",1),
 ('del-other-axis','semantic','del_metadata: the zip walks the ids/metadata of a fixed axis (sample)',
  "for i, md in zip(self.ids(axis=ax), self.metadata(axis=ax)):","for i, md in zip(self.ids(axis='sample'), self.metadata(axis='sample')):",1),
 ('rename-idx','preserving','add_metadata: local idx renamed',
  "                    idx = self.index(id_, axis=axis)\n                    metadata[idx].update(md_entry)","                    where = self.index(id_, axis=axis)\n                    metadata[where].update(md_entry)",1),
 ('swap-clear','preserving','del_metadata(keys=None, whole): the two independent stores swapped',
  "                self._sample_metadata = None\n                self._observation_metadata = None\n            elif","                self._observation_metadata = None\n                self._sample_metadata = None\n            elif",1),
 ('set-display','preserving','del_metadata: {True, } written {True}',
  "if empties == {True, }:","if empties == {True}:",1),
 ('sorted-items','reject','add_metadata: loop over sorted(md.items())',
  "for id_, md_entry in md.items():","for id_, md_entry in sorted(md.items()):",1),
 ('pop-key','reject','del_metadata: md.pop(k) instead of del md[k]',
  "                        del md[k]","                        md.pop(k)",1),
 ('pinned-cast','reject','_cast_metadata (pinned, not translated here) returns a list',
  "                return tuple(default_md)","                return list(default_md)",1),
]
names=sys.argv[1:]
rows=[]
for name,group,what,old,new,cnt in EDITS:
    if names and name not in names: continue
    shutil.copy('/repo/biom/table.py', REPO+'/biom/table.py')
    s=open(REPO+'/biom/table.py').read()
    assert s.count(old)==cnt, (name, s.count(old))
    open(REPO+'/biom/table.py','w').write(s.replace(old,new))
    env=dict(os.environ, BIOM_REPO=REPO, VERIF_OUT='/tmp/c18gen-out')
    p=subprocess.run(['./check','C18'],cwd='/verif',env=env,capture_output=True,text=True)
    out=p.stdout+p.stderr
    open('/tmp/c18gen/%s.log'%name,'w').write(out)
    refused=[l for l in out.split('\n') if 'REFUSED' in l]
    diff=subprocess.run(['git','diff','--quiet','--','coq/Gen/MetadataGen.v'],cwd='/verif').returncode
    broke=''
    try:
        rep=json.load(open('/tmp/c18gen-out/replays/C18-20261001.json')) if p.returncode else {}
    except Exception: rep={}
    out2=out
    if p.returncode and not refused:
        q=subprocess.run('ulimit -v 8000000; timeout 300 coqc -Q . BiomV Gen/MetadataGen.v && timeout 300 coqc -Q . BiomV Proofs/GenBridgeMetadataProofs.v && timeout 300 coqc -Q . BiomV Props/C18.v',shell=True,cwd='/verif/coq',capture_output=True,text=True)
        out2=q.stdout+q.stderr
    fail=json.dumps([rep.get('case',''), rep.get('impl',''), rep.get('oracle','')])[:500]
    m=re.search(r'File "\./(Proofs/GenBridgeMetadataProofs\.v|Props/C18\.v)", line (\d+)',out2)
    if m:
        lines=open('/verif/coq/'+m.group(1)).read().split('\n')[:int(m.group(2))]
        for l in reversed(lines):
            mm=re.match(r'(Lemma|Theorem|Example)\s+(\w+)',l)
            if mm: broke=m.group(1)+': '+mm.group(2); break
    verdict=[l for l in out.split('\n') if l.startswith('VIOLATION') or 'quick:' in l]
    ev=''
    try:
        e=json.load(open('/tmp/c18gen-out/evidence/C18.json'))
    except Exception: e=None
    rows.append((name,group,what,'REFUSES' if refused else 'accepts','differs' if diff else 'same text',broke or (refused[0][:150] if refused else 'all proofs check'),' | '.join(verdict)[:260], p.returncode, fail, sorted(rep.keys())))
    print(rows[-1],flush=True)
shutil.copy('/repo/biom/table.py', REPO+'/biom/table.py')
json.dump(rows,open('/tmp/c18gen/rows.json','w'),indent=1)
