#!/venv/bin/python
"""Self-test of tools/py2v_dyn: each edit is a string replacement on a scratch copy of the repository
(/tmp/valgen-repo/<name>); the translator is run on it, coqc on the generated file, the bridges and
Props/C15.v in a scratch copy of /verif, and with --check the whole `./check C15` with the scratch repository as
BIOM_REPO (about 3 minutes per edit, five at a time).  semantic edits must change the generated text and break a
named bridge; preserving edits record whether the proofs survive; reject edits must be refused.
usage: selftest.py [--check] [--markdown] [edit ...]      results: /tmp/valgen/res-<name>.json"""
import json, os, re, shutil, subprocess, sys

VERIF = os.path.dirname(os.path.dirname(os.path.dirname(os.path.abspath(__file__))))
CHECK = '--check' in sys.argv
from concurrent.futures import ThreadPoolExecutor

SRC = 'biom/cli/table_validator.py'
EDITS = [
 # name, group, what, old, new
 ('ge-rows', 'semantic', 'sparse: x > n_rows -> x >= n_rows', "if x < 0 or x > n_rows:", "if x < 0 or x >= n_rows:"),
 ('no-bool', 'semantic', 'sparse: the bool exclusion dropped', "if isinstance(val, bool) or not isinstance(val, dtype):", "if not isinstance(val, dtype):"),
 ('swap-xy', 'semantic', 'sparse: the x and y range checks swapped',
  """            if x < 0 or x > n_rows:
                return "x out of bounds at idx %d: %s" % (idx, repr(coord))

            if y < 0 or y > n_cols:
                return "y out of bounds at idx %d: %s" % (idx, repr(coord))
""",
  """            if y < 0 or y > n_cols:
                return "y out of bounds at idx %d: %s" % (idx, repr(coord))

            if x < 0 or x > n_rows:
                return "x out of bounds at idx %d: %s" % (idx, repr(coord))
"""),
 ('no-seen-cols', 'semantic', 'columns: IDs are no longer added to seen_ids', "            seen_ids.add(col['id'])\n", "            pass\n"),
 ('and-xy', 'semantic', 'sparse: or -> and in the x/y int test', "if not self._is_int(x) or not self._is_int(y):", "if not self._is_int(x) and not self._is_int(y):"),
 ('drop-key', 'semantic', '_validate_json: generated_by no longer required', "            ('generated_by', self._valid_generated_by),\n            ('id', self._valid_nullable_id),\n            ('date', self._valid_datetime)", "            ('id', self._valid_nullable_id),\n            ('date', self._valid_datetime)"),
 ('cols-vs-nrows', 'semantic', "_validate_json: the number of columns is compared with shape[0]", "len(table_json['columns']) != table_json['shape'][1]", "len(table_json['columns']) != table_json['shape'][0]"),
 ('id-none', 'semantic', "_valid_id: only None is an empty ID", "if not record['id']:", "if record['id'] is None:"),
 ('shape-or', 'semantic', "_valid_shape: one int is enough", "if not (self._is_int(a) and self._is_int(b)):", "if not (self._is_int(a) or self._is_int(b)):"),
 ('no-dec', 'semantic', "sparse: n_rows is not decremented", "        n_rows -= 1  # adjust for 0-based index\n", ""),
 ('no-unicode', 'semantic', "ElementTypes without 'unicode'", "{'int': int, 'str': str, 'float': float, 'unicode': str}", "{'int': int, 'str': str, 'float': float}"),
 ('dense-ncols', 'semantic', "dense: the number of rows is compared with n_cols", "if len(table_json['data']) != n_rows:", "if len(table_json['data']) != n_cols:"),
 ('data-first', 'semantic', "_validate_json: 'data' is validated before 'shape' (order of the report lines)",
  "            ('shape', self._valid_shape),\n            ('data', self._valid_data),\n", "            ('data', self._valid_data),\n            ('shape', self._valid_shape),\n"),
 ('rename-local', 'preserving', "_valid_generated_by: local value renamed", "        value = self._json_or_hdf5_get(table, key)\n        if not value:", "        val = self._json_or_hdf5_get(table, key)\n        if not val:"),
 ('swap-or', 'preserving', "_valid_type: operands of the None/empty test swapped", 'if value is None or value == "":', 'if value == "" or value is None:'),
 ('flip-if', 'preserving', "_valid_matrix_type: the test written positively, branches exchanged",
  """        if table_json['matrix_type'] not in self.MatrixTypes:
            return "Unknown 'matrix_type'"
        else:
            return ''
""",
  """        if table_json['matrix_type'] in self.MatrixTypes:
            return ''
        else:
            return "Unknown 'matrix_type'"
"""),
 ('le-form', 'preserving', "sparse: x > n_rows written n_rows < x", "if x < 0 or x > n_rows:", "if x < 0 or n_rows < x:"),
 ('while-loop', 'reject', "dense: the row loop written with while",
  "        for row in table_json['data']:\n            if len(row) != n_cols:", "        rows = list(table_json['data'])\n        while rows:\n            row = rows.pop(0)\n            if len(row) != n_cols:"),
 ('new-message', 'reject', "sparse: a report text the signature file does not know", '"Bad value at idx %d: %s"', '"Bad value at index %d: %s"'),
 ('unknown-call', 'reject', "_valid_id: a call of an unknown function", "if not record['id']:", "if not str(record['id']).strip():"),
 ('pinned-date', 'reject', "_valid_date (pinned, not translated) loses a format", '                       "%Y-%m-%dT%H:%M",\n', ''),
 ('except-type', 'reject', "sparse: the bare except narrowed to ValueError", "            except:  # noqa\n                return \"Bad matrix entry", "            except ValueError:\n                return \"Bad matrix entry"),
 ('new-method', 'reject', "a new method in the class", "    def _is_int(self, x):", "    def _helper(self, x):\n        return x\n\n    def _is_int(self, x):"),
]


def sh(cmd, cwd=None, env=None, timeout=1500):
    e = dict(os.environ)
    if env:
        e.update(env)
    p = subprocess.run(cmd, shell=True, cwd=cwd, env=e, stdout=subprocess.PIPE, stderr=subprocess.STDOUT, timeout=timeout)
    return p.returncode, p.stdout.decode('utf8', 'replace')


def lemma_at(path, line):
    name = '?'
    for n, ln in enumerate(open(path), 1):
        m = re.match(r'\s*(Lemma|Theorem|Definition|Fixpoint|Example)\s+(\w+)', ln)
        if m:
            name = m.group(2)
        if n >= line:
            break
    return name


def run(edit):
    name, group, what, old, new = edit
    repo = '/tmp/valgen-repo/%s' % name
    verif = '/tmp/valgen-verif-%s' % name
    out = '/tmp/valgen-out/%s' % name
    for d in (repo, verif, out):
        shutil.rmtree(d, ignore_errors=True)
    os.makedirs('/tmp/valgen-repo', exist_ok=True)
    shutil.copytree('/repo', repo, symlinks=True)
    sh('rsync -a --exclude .git %s/ %s/' % (VERIF, verif))
    p = os.path.join(repo, SRC)
    s = open(p).read()
    assert s.count(old) == 1, (name, s.count(old))
    open(p, 'w').write(s.replace(old, new))
    res = {'name': name, 'group': group, 'what': what}
    rc, o = sh('/venv/bin/python tools/py2v_dyn/main.py --repo %s --out %s' % (repo, verif), cwd=verif)
    res['translator'] = 'accepts' if rc == 0 else 'REFUSES'
    res['refusal'] = ' '.join(l.split('REFUSED', 1)[1].strip() for l in o.split('\n') if 'REFUSED' in l)
    base = open(VERIF + '/coq/Gen/ValidatorGen.v').read()
    res['gen'] = '-' if rc != 0 else ('differs' if open(verif + '/coq/Gen/ValidatorGen.v').read() != base else 'same text')
    res['proof'] = ''
    if rc == 0:
        for f in ('Gen/ValidatorGen.v', 'Proofs/GenBridgeValidatorProofs.v', 'Props/C15.v'):
            rc2, o2 = sh('ulimit -v 8000000; timeout 300 coqc -Q . BiomV %s' % f, cwd=verif + '/coq')
            if rc2 != 0:
                m = re.search(r'File "\./([^"]+)", line (\d+)', o2)
                res['proof'] = 'breaks %s: %s' % (m.group(1), lemma_at(verif + '/coq/' + m.group(1), int(m.group(2)))) if m else 'breaks %s' % f
                break
        else:
            res['proof'] = 'all proofs check'
    if not CHECK:
        shutil.rmtree(verif, ignore_errors=True)
        shutil.rmtree(repo, ignore_errors=True)
        os.makedirs('/tmp/valgen', exist_ok=True)
        json.dump(res, open('/tmp/valgen/res-%s.json' % name, 'w'), indent=1)
        return res
    rc3, o3 = sh('./check C15', cwd=verif, env={'BIOM_REPO': repo, 'VERIF_OUT': out})
    res['check_rc'] = rc3
    lines = [l for l in o3.split('\n') if l.strip()]
    res['check_tail'] = [l[:300] for l in lines[-3:]]
    res['verdict'] = ' / '.join(l[:120] for l in lines if l.startswith('VIOLATION') or 'no-failing-input-found' in l) or ('pass' if rc3 == 0 else 'rc=%d' % rc3)
    try:
        rp = sorted(os.listdir(out + '/replays'))
        if rp:
            r = json.load(open(out + '/replays/' + rp[-1]))
            res['replay'] = {k: (str(r[k])[:400]) for k in r if k not in ('case',)}
            res['case'] = json.dumps(r.get('case'))[:600]
    except Exception as e:
        res['replay_err'] = str(e)
    shutil.rmtree(verif, ignore_errors=True)
    shutil.rmtree(repo, ignore_errors=True)
    json.dump(res, open('/tmp/valgen/res-%s.json' % name, 'w'), indent=1)
    return res


if __name__ == '__main__':
    sel = [a for a in sys.argv[1:] if not a.startswith('--')]
    os.makedirs('/tmp/valgen', exist_ok=True)
    todo = [e for e in EDITS if not sel or e[0] in sel]
    with ThreadPoolExecutor(5) as ex:
        for r in ex.map(run, todo):
            if '--markdown' in sys.argv:
                v = r.get('verdict', '')
                v = ('C15 VIOLATION, ' + ('no-failing-input-found' if 'no-failing-input-found' in v else 'failing input')) \
                    if 'VIOLATION' in v else v
                print('| %s | %s | %s | %s | %s | %s | %s |' % (r['name'], r['group'], r['what'], r['translator'], r['gen'],
                                                          r['proof'] or r['refusal'].split(': ', 1)[-1][:110], v), flush=True)
            else:
                print(r['name'], r['group'], r['translator'], r['gen'], r['proof'], '|', r.get('verdict', ''), '|',
                      r['refusal'][:150], flush=True)
