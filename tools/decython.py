import re, sys, ast
CT = r'(?:cnp\.ndarray\[[^\]]*\]|cnp\.\w+|Py_ssize_t|object|int|double)'
def decython(src):
    # join backslash continuations
    src = re.sub(r'\\\n\s*', ' ', src)
    out = []
    lines = src.split('\n')
    i = 0
    in_cdef_block = None
    while i < len(lines):
        ln = lines[i]; i += 1
        if ln.strip().startswith(('cdef ', 'def ')):
            while ln.count('(') > ln.count(')') and i < len(lines):
                ln = ln.rstrip() + ' ' + lines[i].strip(); i += 1
        s = ln.strip()
        ind = ln[:len(ln)-len(ln.lstrip())]
        if in_cdef_block is not None:
            if s == '' : out.append(ln); continue
            if len(ind) > in_cdef_block:
                # declaration line inside cdef: block ; may continue with trailing comma
                decl = s
                while decl.rstrip().endswith(',') and i < len(lines):
                    decl += ' ' + lines[i].strip(); i += 1
                out.extend(conv_decl(decl, ' ' * in_cdef_block))
                continue
            in_cdef_block = None
        if s.startswith('cimport ') or s == 'cnp.import_array()':
            continue
        if s == 'cdef:':
            in_cdef_block = len(ind); continue
        m = re.match(r'cdef\s+(?:%s\s+)?(\w+)\((.*)\):\s*$' % CT, s)
        if m:
            name, args = m.group(1), m.group(2)
            args = ', '.join(strip_type(a) for a in split_top(args))
            out.append('%sdef %s(%s):' % (ind, name, args)); continue
        if s.startswith('cdef '):
            out.extend(conv_decl(s[5:], ind)); continue
        out.append(ln)
    return '\n'.join(out)
def split_top(s):
    parts, depth, cur = [], 0, ''
    for ch in s:
        if ch in '[(': depth += 1
        if ch in '])': depth -= 1
        if ch == ',' and depth == 0: parts.append(cur); cur = ''
        else: cur += ch
    if cur.strip(): parts.append(cur)
    return [p.strip() for p in parts]
def strip_type(a):
    m = re.match(r'^%s\s+(\w+)$' % CT, a)
    return m.group(1) if m else a
def conv_decl(decl, ind):
    decl = re.sub(r'^cdef\s+', '', decl)
    m = re.match(r'^(%s)\s+(.*)$' % CT, decl)
    assert m, decl
    res = []
    for item in split_top(m.group(2)):
        if '=' in item:
            res.append(ind + item)
    return res
if __name__ == '__main__':
    for f in sys.argv[1:]:
        py = decython(open(f).read())
        ast.parse(py)
        open('/tmp/spike/' + f.split('/')[-1].replace('.pyx', '_py.py'), 'w').write(py)
        print(f, 'ok')
