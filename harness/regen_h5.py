"""regenerate() hook for the HDF5-writer translator tools/py2v_h5 (sibling of harness/regen_eq.py):
re-translate Table.to_hdf5 from the source tree under test (BIOM_REPO) at the start of a check and
record the run in the evidence.  A refusal is a broken tie.
    from . import regen_h5 as _regen_h5
    regenerate = _regen_h5.hook(TRUSTED)"""
import os
import re

from . import core


def hook(trusted, model='coq/Model/Hdf5.v', bridges='coq/Proofs/GenBridgeHdf5Proofs.v', vocab='coq/Gen/H5Prelude.v'):
    base = list(trusted)

    def regenerate():
        rc, out = core.sh([os.path.join(core.ROOT, 'tools', 'regen_h5.sh')], timeout=300)
        del trusted[:]
        trusted.extend(base)
        refused = [ln.split('REFUSED', 1)[1].strip() for ln in out.split('\n') if 'REFUSED' in ln]
        for m in re.finditer(r'py2v_h5: (\S+) -> (\S+) (written|unchanged) \(source sha256 ([0-9a-f]+)\)', out):
            trusted.append('%s regenerated from %s by tools/py2v_h5 on this run (%s; sha256 of source %s); tied to the '
                           'hand-written model %s by the *_is_source theorems (%s); trusted: the translator, its '
                           'signature file tools/py2v_h5/sigs/to_hdf5.json (two blocks and seven methods pinned by AST hash) '
                           'and the vocabulary %s'
                           % (m.group(2), m.group(1), m.group(3), m.group(4), model, bridges, vocab))
        if rc != 0:
            trusted.append('translator py2v_h5 REFUSED a source on this run (%s); the generated file is stale'
                           % '; '.join(refused))
            raise core.Broken('translator rejected %s' % ('; '.join(refused) or 'rc=%d' % rc), out[-3000:])
    return regenerate
