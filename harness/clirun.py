"""Running the real `biom` command (the click group with its option wrappers), shared by c03 / c18.

in process:  biom.cli.cli.main(args, standalone_mode=False).  The group's close callback replaces
sys.stdout by os.fdopen(1, 'w') (biom/cli/__init__.py), whose garbage collection closes fd 1:
the standard descriptors and sys.stdout are saved and restored, the replacement object is kept alive.
subprocess:  a fresh interpreter with the same PYTHONPATH."""
import os
import subprocess
import sys

from .core import REPO

_KEEP = []


class CliError(Exception):
    pass


def biom_inproc(args):
    from biom.cli import cli
    saved = [os.dup(k) for k in (0, 1, 2)]
    old_out = sys.stdout
    err = None
    try:
        try:
            cli.main(args=[str(a) for a in args], standalone_mode=False)
        except BaseException as e:      # click may raise SystemExit / Abort / UsageError
            err = e
    finally:
        if sys.stdout is not old_out:
            _KEEP.append(sys.stdout)
            sys.stdout = old_out
        for k, fd in enumerate(saved):
            os.dup2(fd, k)
            os.close(fd)
    if err is not None:
        if isinstance(err, Exception):
            raise err
        raise CliError('biom %s: %r' % (' '.join(map(str, args)), err))


def biom_subprocess(args):
    env = dict(os.environ, PYTHONPATH=REPO, PYTHONIOENCODING='utf-8', LC_ALL='C.UTF-8', LANG='C.UTF-8')
    r = subprocess.run([sys.executable, '-W', 'ignore', '-c', 'from biom.cli import cli; cli()'] + [str(a) for a in args],
                       env=env, stdout=subprocess.PIPE, stderr=subprocess.PIPE, timeout=120)
    if r.returncode != 0:
        raise CliError('biom %s failed: %s' % (' '.join(map(str, args)), r.stderr.decode('utf-8', 'replace')[-300:]))


def biom(args, how='inproc'):
    return biom_inproc(args) if how == 'inproc' else biom_subprocess(args)
