"""Shared machinery of every check: build/prove, model runner, correspondence,
decision procedure, evidence, replay.  Property modules live in harness/cNN.py."""
import glob
import hashlib
import json
import os
import random
import re
import subprocess
import sys
import time

ROOT = os.path.dirname(os.path.dirname(os.path.abspath(__file__)))
REPO = os.environ.get('BIOM_REPO', '/repo')
COQ = os.path.join(ROOT, 'coq')
OUT = os.environ.get('VERIF_OUT', ROOT)     # evidence/ and replays/ go here (redirected when trying seeded changes)

HYGIENE = re.compile(r'\b(Admitted|admit|Axiom|Axioms|Parameter|Parameters|Conjecture|Hypothesis|Variable)\b'
                     r'|Unset\s+Guard|bypass_check|type-in-type|impredicative-set|Admit\s+Obligations')


# ------------------------------------------------------------------ trees
def tree_to_text(t):
    if isinstance(t, bool):
        return '1' if t else '0'
    if isinstance(t, int):
        return str(t)
    return '[' + ','.join(tree_to_text(x) for x in t) + ']'


def text_to_tree(s):
    # the model prints only digits, '-', ',', '[' and ']' : this is valid JSON
    return json.loads(s)


def enc_str(s):
    return list(s.encode('utf-8'))


def dec_str(t):
    return bytes(t).decode('utf-8')


def coq_tree(t):
    if isinstance(t, bool):
        t = int(t)
    if isinstance(t, int):
        return '(I (%d)%%Z)' % t
    return '(L [' + '; '.join(coq_tree(x) for x in t) + '])'


# ------------------------------------------------------------------ shell
def sh(cmd, timeout=3000, cwd=ROOT, env=None):
    p = subprocess.run(cmd, shell=isinstance(cmd, str), cwd=cwd, env=env, timeout=timeout,
                       stdout=subprocess.PIPE, stderr=subprocess.STDOUT, text=True)
    return p.returncode, p.stdout


class Broken(Exception):
    """a proof obligation, translator target or build step no longer checks"""

    def __init__(self, what, detail=''):
        Exception.__init__(self, what)
        self.what, self.detail = what, detail


# ------------------------------------------------------------------ prove
def coq_cone(vfile):
    """transitive BiomV dependencies of a .v file (source paths)"""
    seen, todo = [], [vfile]
    while todo:
        f = todo.pop()
        if f in seen or not os.path.exists(f):
            continue
        seen.append(f)
        for m in re.finditer(r'From\s+BiomV\s+Require\s+(?:Import|Export)?\s*([^.]*(?:\.[A-Za-z_][\w.]*)*)\.\s', open(f).read()):
            for name in m.group(1).split():
                todo.append(os.path.join(COQ, name.replace('.', '/') + '.v'))
    return seen


def strip_comments(src):
    out, depth, i = [], 0, 0
    while i < len(src):
        if src.startswith('(*', i):
            depth += 1; i += 2
        elif src.startswith('*)', i) and depth:
            depth -= 1; i += 2
        else:
            if not depth:
                out.append(src[i])
            i += 1
    return ''.join(out)


def prove(pid, extra_targets=()):
    """build Props/<pid>.vo and Run/Run<pid>.vo (full .vo build), re-run coqc on the
    property file to capture Print Assumptions, apply the hygiene gate."""
    t0 = time.time()
    props = os.path.join(COQ, 'Props', pid + '.v')
    targets = ['Props/%s.vo' % pid, 'Run/Run%s.vo' % pid] + list(extra_targets)
    rc, out = sh([os.path.join(ROOT, 'tools', 'build_coq.sh')] + targets)
    if rc != 0:
        raise Broken('coq build failed for %s' % ' '.join(targets), out[-3000:])
    # (shared lock: wait for any build that is rewriting .vo files, let other readers proceed)
    rc, out = sh('ulimit -v 16000000 2>/dev/null; exec flock -s "%s/.buildlock" coqc -Q "%s" BiomV "%s"' % (COQ, COQ, props), cwd=COQ, timeout=3600)
    if rc != 0:
        raise Broken('Props/%s.v no longer checks' % pid, out[-3000:])
    src = strip_comments(open(props).read())
    theorems = re.findall(r'^\s*(?:Theorem|Lemma|Corollary)\s+(\w+)', src, re.M)
    printed = re.findall(r'Print\s+Assumptions\s+(\w+)', src)
    missing = [t for t in theorems if t not in printed]
    if missing:
        raise Broken('Print Assumptions missing for ' + ','.join(missing))
    axioms = set()
    closed = out.count('Closed under the global context')
    for blk in re.split(r'\n(?=Axioms:|Closed under)', out):
        if blk.startswith('Axioms:'):
            for m in re.finditer(r'^\s*([A-Za-z_][\w.\']*)\s*:', blk[7:], re.M):
                axioms.add(m.group(1))
    bad = []
    for f in coq_cone(props) + coq_cone(os.path.join(COQ, 'Run', 'Run%s.v' % pid)):
        for ln, line in enumerate(strip_comments(open(f).read()).split('\n'), 1):
            m = HYGIENE.search(line)
            if m and not re.search(r'^\s*(Context|Variable|Variables|Hypothesis)\b', line):
                bad.append('%s:%d:%s' % (os.path.relpath(f, ROOT), ln, m.group(0)))
            elif m and m.group(0) in ('Variable', 'Hypothesis'):
                # allowed only inside a Section (checked structurally below)
                pass
    for f in set(coq_cone(props) + coq_cone(os.path.join(COQ, 'Run', 'Run%s.v' % pid))):
        s = strip_comments(open(f).read())
        depth = 0
        for line in s.split('\n'):
            if re.match(r'\s*Section\s+\w+', line):
                depth += 1
            elif re.match(r'\s*End\s+\w+', line) and depth:
                depth -= 1
            elif re.match(r'\s*(Variable|Variables|Hypothesis|Hypotheses|Context)\b', line) and depth == 0:
                bad.append('%s: %s outside a section' % (os.path.relpath(f, ROOT), line.strip()[:40]))
    if bad:
        raise Broken('hygiene gate: ' + '; '.join(bad[:5]))
    chk = None
    if os.environ.get('VERIF_COQCHK') == '1':
        # independent re-check of the compiled cone with coqchk (thorough tier): lists every axiom of every loaded library
        rc2, out2 = sh('ulimit -v 16000000 2>/dev/null; cd "%s" && flock -s .buildlock timeout 1500 coqchk -silent -o -Q . BiomV BiomV.Props.%s' % (COQ, pid),
                       cwd=COQ, timeout=5000)
        if rc2 != 0:
            raise Broken('coqchk rejected the compiled cone of Props/%s' % pid, out2[-3000:])
        m = re.search(r'\* Axioms:\s*(.*?)(?:\n\s*\n|\n\* |\Z)', out2, re.S)
        chk = {'ok': True, 'axioms': ' '.join(m.group(1).split()) if m else '<none>'}
    return {'theorems': theorems, 'closed': closed, 'axioms': sorted(axioms), 'coqchk': chk,
            'checker_cmd': 'tools/build_coq.sh %s && coqc -Q coq BiomV coq/Props/%s.v' % (' '.join(targets), pid),
            'prove_s': round(time.time() - t0, 1)}


# ------------------------------------------------------------------ model
def build_model(pid):
    rc, out = sh([os.path.join(ROOT, 'tools', 'build_model.sh'), pid.lower()], timeout=1200)
    if rc != 0:
        raise Broken('extraction / OCaml build failed for %s' % pid, out[-3000:])


def run_model(pid, trees):
    """feed trees (python nested lists) to the extracted binary; return output trees"""
    if not trees:
        return []
    inp = '\n'.join(tree_to_text(t) for t in trees) + '\n'
    env = dict(os.environ, OCAMLRUNPARAM='l=8G')
    p = subprocess.run(['/bin/sh', '-c', 'ulimit -s unlimited 2>/dev/null; exec "%s"' % os.path.join(ROOT, 'build', 'bin', pid.lower())],
                       input=inp, stdout=subprocess.PIPE, stderr=subprocess.PIPE, text=True, env=env, timeout=3000)
    lines = p.stdout.split('\n')
    if lines and lines[-1] == '':
        lines.pop()
    if p.returncode != 0 or len(lines) != len(trees):
        raise Broken('model binary for %s failed (rc=%s, %d/%d lines)' % (pid, p.returncode, len(lines), len(trees)), p.stderr[-2000:])
    return [text_to_tree(x) for x in lines]


def vm_crosscheck(pid, trees, outs, k=12, max_chars=20000):
    """evaluate a sample of the same cases with vm_compute inside Coq and compare with
    what the extracted binary printed (validates extraction + driver)."""
    idx = [i for i in range(len(trees)) if len(tree_to_text(trees[i])) < max_chars][:k]
    if not idx:
        return 0
    d = os.path.join(ROOT, 'build', 'cases')
    os.makedirs(d, exist_ok=True)
    f = os.path.join(d, 'Cases%s.v' % pid)
    with open(f, 'w') as fh:
        fh.write('From Coq Require Import List ZArith.\nFrom BiomV Require Import Base.Tree Run.Run%s.\nImport ListNotations.\n' % pid)
        fh.write('Definition ins : list Tree := [\n  ' + ';\n  '.join(coq_tree(trees[i]) for i in idx) + '].\n')
        fh.write('Definition outs : list Tree := [\n  ' + ';\n  '.join(coq_tree(outs[i]) for i in idx) + '].\n')
        fh.write('Goal tree_eqb (L (map Run%s.run ins)) (L outs) = true. Proof. vm_compute. reflexivity. Qed.\n' % pid)
    rc, out = sh('ulimit -s unlimited 2>/dev/null; flock -s "%s/.buildlock" timeout 900 coqc -Q "%s" BiomV "%s"' % (COQ, COQ, f), cwd=d, timeout=3600)
    if rc != 0:
        raise Broken('vm_compute cross-check of the extracted model failed for %s' % pid, out[-2000:])
    return len(idx)


# ------------------------------------------------------------------ known findings
def known_findings(pid):
    path = os.path.join(ROOT, 'known_findings.jsonl')
    out = []
    if os.path.exists(path):
        for line in open(path):
            line = line.strip()
            if line and not line.startswith('#'):
                e = json.loads(line)
                if pid in e.get('properties', [e.get('property')]):
                    out.append(e)
    return out


# ------------------------------------------------------------------ json helpers
def canon(x):
    """canonical JSON-able form (tuples -> lists, numpy scalars -> python)"""
    try:
        import numpy as np
    except ImportError:  # pragma: no cover
        np = None
    if isinstance(x, dict):
        return {str(k): canon(v) for k, v in sorted(x.items(), key=lambda kv: str(kv[0]))}
    if isinstance(x, (list, tuple)):
        return [canon(v) for v in x]
    if np is not None:
        if isinstance(x, np.ndarray):
            return canon(x.tolist())
        if isinstance(x, np.generic):
            return canon(x.item())
    if isinstance(x, bytes):
        return x.decode('utf-8', 'replace')
    if isinstance(x, float):
        if x != x:
            return 'nan'
        if x in (float('inf'), float('-inf')):
            return 'inf' if x > 0 else '-inf'
        if x == int(x) and abs(x) < 2 ** 53:
            return int(x)
    return x


def jhash(x):
    return hashlib.sha256(json.dumps(x, sort_keys=True, default=str).encode()).hexdigest()


# ------------------------------------------------------------------ the check
def load_corpus(pid):
    cases = []
    for f in sorted(glob.glob(os.path.join(ROOT, 'corpus', pid, '*.json'))):
        d = json.load(open(f))
        for c in (d if isinstance(d, list) else [d]):
            cases.append(c)
    return cases


def write_replay(pid, seed, payload):
    d = os.path.join(OUT, 'replays')
    os.makedirs(d, exist_ok=True)
    path = os.path.join(d, '%s-%s.json' % (pid, seed))
    payload = dict(payload, property=pid, replay_cmd='./check %s --replay %s' % (pid, path))
    json.dump(payload, open(path, 'w'), indent=1, default=str)
    return path


def write_evidence(pid, tier, seed, coverage, assumptions, wall, violations):
    d = os.path.join(OUT, 'evidence')
    os.makedirs(d, exist_ok=True)
    ev = {'property_id': pid, 'tier': tier, 'seed': seed, 'level': 'proof', 'coverage': coverage,
          'assumptions': assumptions, 'wall_s': round(wall, 1), 'violations': violations}
    json.dump(ev, open(os.path.join(d, pid + '.json'), 'w'), indent=1, default=str)


def run_check(mod, tier, seed, replay=None):
    """mod: property module.  Returns process exit code."""
    pid = mod.ID
    t0 = time.time()
    if tier == 'thorough' and 'VERIF_COQCHK' not in os.environ:
        os.environ['VERIF_COQCHK'] = '1'
    broken = []          # list of (what, detail)
    proof = None
    # 1. regenerate translated files
    if hasattr(mod, 'regenerate'):
        try:
            mod.regenerate()
        except Broken as b:
            broken.append((b.what, b.detail))
    # 2. prove
    try:
        proof = prove(pid, getattr(mod, 'EXTRA_TARGETS', ()))
    except Broken as b:
        broken.append((b.what, b.detail))
    # 3. correspond
    model_ok = True
    try:
        build_model(pid)
    except Broken as b:
        broken.append((b.what, b.detail))
        model_ok = False
    rng = random.Random(seed)
    if replay:
        rp = json.load(open(replay))
        cases = [rp['case']] if 'case' in rp else []
    else:
        cases = load_corpus(pid) + [e['witness'] for e in known_findings(pid) if 'witness' in e]
        cases += list(mod.gen(rng, tier))
    stats = {}
    disagreements, failures, known_hits = [], [], {}
    impl_obs = []
    t_impl = time.time()
    journal = os.path.join(OUT, 'replays', '.current-%s.json' % pid)
    os.makedirs(os.path.dirname(journal), exist_ok=True)
    for c in cases:
        try:
            # the case about to run, for the supervisor in harness/main.py: should the interpreter itself die here
            # (a segmentation fault inside scipy / h5py on arrays a changed library wrote), this is the replay
            with open(journal, 'w') as jf:
                json.dump(c, jf, default=str)
            impl_obs.append(canon(mod.run_impl(c)))
        except Exception as e:      # the implementation (or the harness driving it) crashed on this case
            import traceback
            impl_obs.append(['crash', type(e).__name__, traceback.format_exc()[-800:]])
    t_impl = time.time() - t_impl
    if os.path.exists(journal):
        os.remove(journal)
    model_obs = [None] * len(cases)
    n_vm = 0
    if model_ok:
        try:
            trees, enc_err = [], {}
            for n, c in enumerate(cases):
                try:
                    trees.append(mod.encode(c))
                except Exception as e:     # e.g. the implementation returned something the encoder cannot place
                    import traceback
                    enc_err[n] = ['model-input-could-not-be-built', type(e).__name__, traceback.format_exc()[-600:]]
                    trees.append([])
            outs = run_model(pid, trees)
            model_obs = []
            for n, (o, c) in enumerate(zip(outs, cases)):
                if n in enc_err:
                    model_obs.append(enc_err[n])
                    continue
                try:
                    model_obs.append(canon(mod.decode(o, c)))
                except Exception as e:
                    import traceback
                    model_obs.append(['model-output-could-not-be-read', type(e).__name__, traceback.format_exc()[-600:]])
            if not replay:
                ok_idx = [n for n in range(len(cases)) if n not in enc_err]
                n_vm = vm_crosscheck(pid, [trees[n] for n in ok_idx], [outs[n] for n in ok_idx])
        except Broken as b:
            broken.append((b.what, b.detail))
            model_ok = False
    known = known_findings(pid)
    sigs = getattr(mod, 'SIGNATURES', {})
    seen_keys, nontrivial = set(), 0
    for c, io, mo in zip(cases, impl_obs, model_obs):
        k = jhash(mod.key(c) if hasattr(mod, 'key') else c)
        if k not in seen_keys:
            seen_keys.add(k)
            if mod.nontrivial(c):
                nontrivial += 1
        if hasattr(mod, 'classify'):
            for tag in mod.classify(c):
                stats[tag] = stats.get(tag, 0) + 1
        try:
            fails = list(mod.oracle(c, io)) if hasattr(mod, 'oracle') else []
        except Exception as e:
            fails = ['the oracle could not interpret the observation (%s: %s)' % (type(e).__name__, str(e)[:200])]
        disagree = model_ok and io != mo
        if not fails and not disagree:
            continue
        matched = None
        for e in known:
            if e.get('status') == 'known' and e['id'] in sigs and sigs[e['id']](c, io, mo, fails):
                matched = e
                break
        if matched and not disagree:
            known_hits[matched['id']] = known_hits.get(matched['id'], 0) + 1
            continue
        if fails:
            failures.append({'case': c, 'impl': io, 'model': mo, 'oracle': fails, 'model_disagrees': bool(disagree)})
        if disagree:
            disagreements.append({'case': c, 'impl': io, 'model': mo})
    wall = time.time() - t0
    # 4. decide
    violations = 0
    rc = 0
    for e in known:
        if e.get('status') == 'known' and (known_hits.get(e['id']) or e.get('always_report')):
            print('KNOWN-FINDING: property=%s %s: %s' % (pid, e['id'], e['what']))
    if failures or disagreements or broken:
        violations = len({jhash(f['case']) for f in failures + disagreements}) + (1 if broken and not failures and not disagreements else 0)
        if failures or disagreements:
            pool = failures or disagreements
            best = min(pool, key=lambda f: len(json.dumps(f['case'], default=str)))
            if hasattr(mod, 'shrink') and not replay:
                best = shrink(mod, best, model_ok)
            payload = dict(best, broken=[b[0] for b in broken], tier=tier, seed=seed,
                           kind='property oracle failed on the implementation' if failures else
                           'implementation differs from the proven model on a property observable')
            path = write_replay(pid, seed, payload)
            print('VIOLATION property=%s replay=%s' % (pid, path))
        else:
            payload = {'broken': [{'what': w, 'detail': d} for w, d in broken], 'tier': tier, 'seed': seed,
                       'kind': 'proof obligation / translator / build no longer checks; '
                               'no failing input found on %d cases' % len(cases)}
            path = write_replay(pid, seed, payload)
            print('VIOLATION property=%s replay=%s no-failing-input-found' % (pid, path))
        rc = 1
    # 5. evidence
    samples = [{'case': c, 'impl': io} for c, io in list(zip(cases, impl_obs))[:3]]
    if len(cases) > 3:
        samples.append({'case': cases[-1], 'impl': impl_obs[-1]})
    coverage = {
        'obligations': len(proof['theorems']) if proof else len(re.findall(r'^\s*Theorem', open(os.path.join(COQ, 'Props', pid + '.v')).read(), re.M)),
        'discharged': len(proof['theorems']) if proof else 0,
        'checker_cmd': proof['checker_cmd'] if proof else 'tools/build_coq.sh Props/%s.vo' % pid,
        'trusted_base': (['Coq 8.16.1 kernel + vm_compute', 'axioms reported by Print Assumptions: ' +
                          (', '.join(proof['axioms']) if proof and proof['axioms'] else 'none (Closed under the global context)')]
                         + list(getattr(mod, 'TRUSTED', []))),
        'theorems': proof['theorems'] if proof else [],
        'coqchk': proof.get('coqchk') if proof else None,
        'evaluations': len(cases),
        'distinct_nontrivial': nontrivial,
        'rule': getattr(mod, 'RULE', ''),
        'samples': samples,
        'traces_validated_against_impl': len(cases) if model_ok else 0,
        'vm_compute_crosschecked': n_vm,
        'disagreements_checked': len(disagreements),
        'oracle_failures': len(failures),
        'known_finding_hits': known_hits,
        'input_distribution': stats,
        'impl_s': round(t_impl, 1),
        'broken': [b[0] for b in broken],
    }
    write_evidence(pid, tier, seed, coverage, list(getattr(mod, 'ASSUMPTIONS', [])), time.time() - t0, violations)
    print('%s %s: %d cases (%d distinct non-trivial), %d theorems, %d disagreements, %d oracle failures, %d known hits, %.1fs'
          % (pid, tier, len(cases), nontrivial, len(proof['theorems']) if proof else 0, len(disagreements), len(failures),
             sum(known_hits.values()), time.time() - t0))
    return rc


def shrink(mod, fail, model_ok, budget=200):
    """greedy shrinking with the module's shrink(case) candidates"""
    def bad(c):
        try:
            io = canon(mod.run_impl(c))
            mo = canon(mod.decode(run_model(mod.ID, [mod.encode(c)])[0], c)) if model_ok else None
            if hasattr(mod, 'oracle') and list(mod.oracle(c, io)):
                return {'case': c, 'impl': io, 'model': mo, 'oracle': list(mod.oracle(c, io)),
                        'model_disagrees': model_ok and mo != io}
            if model_ok and mo != io:
                return {'case': c, 'impl': io, 'model': mo}
        except Exception:
            return None
        return None
    cur, n = fail, 0
    progress = True
    while progress and n < budget:
        progress = False
        for cand in mod.shrink(cur['case']):
            n += 1
            r = bad(cand)
            if r:
                cur, progress = r, True
                break
            if n >= budget:
                break
    return cur
