"""C05: a table stays internally coherent after every sequence of operations.

A case is a start table (with a layout recipe), auxiliary tables and a sequence of abstract
operations; each abstract operation is resolved against the ids the table has at that moment.
After EVERY step the live table is examined: coherence (shape vs ids, unique ids, both id->index
lookups, index()/exists() incl. unknown ids, metadata lengths) and agreement of every accessor
with the dense matrix.  The same concrete sequence is replayed on the Coq model (Model/Ops.v),
whose content after every step must equal the implementation's."""
import struct

import numpy as np

from biom import Table
from biom.exception import UnknownIDError
from biom.util import natsort

from . import tables as T
from .core import canon, jhash

ID = 'C05'
RULE = ('start tables from tables.rand_spec (dims 1..4, every layout recipe) x random sequences of depth 1..6 (thorough: to 10, '
        'plus all depth-2 sequences over a fixed 40-symbol argument alphabet on 3 start tables) over {filter ids/predicate, remove_empty, '
        'head, sort, sort_order, transpose, copy, update_ids, add_metadata, del_metadata, transform, norm, pa, rankdata, subsample, '
        'collapse, partition, merge, concat, align_to} on both axes; state compared with the model and examined by the coherence '
        'oracle after every step; non-trivial = at least 2 operations that succeed and change the table; distinct by case hash')
TRUSTED = ['hand-written model coq/Model/Ops.v (composition of the operation models of C06/C08/C09/C10/C11/C12/C13) tied to the code by this run',
           'operations whose result depends on user code, random draws or float arithmetic enter the model as data and are re-validated by the model step']
from . import regen as _regen
regenerate = _regen.hook(TRUSTED, ['util', 'helpers'])   # py2v: regenerate coq/Gen/* from the source first
ASSUMPTIONS = ['matrix values travel as opaque 64-bit patterns (0.0 -> 0); value arithmetic is covered by C09-C13']

_STASH = {}
AX = {'observation': 0, 'sample': 1}
PREDS = {
    'sum_pos': lambda v, i, m: v.sum() > 0,
    'nnz_ge2': lambda v, i, m: (v != 0).sum() >= 2,
    'id_even': lambda v, i, m: sum(str(i).encode()) % 2 == 0,
    'false': lambda v, i, m: False,
}
TRANSFORMS = {
    'double': lambda v, i, m: v * 2,
    'plus1': lambda v, i, m: v + 1,
    'zero_small': lambda v, i, m: np.where(np.abs(v) < 2, 0.0, v),
    'reverse': lambda v, i, m: v[::-1].copy(),
}
LABELS = {
    'const': lambda i, m: 'g',
    'parity': lambda i, m: 'g%d' % (sum(str(i).encode()) % 2),
    'md_g': lambda i, m: (m or {}).get('g', 'none') if m is not None else 'none',
    'self': lambda i, m: str(i) + '_x',
}


def bits(v):
    v = float(v)
    if v == 0:
        return 0
    return struct.unpack('<q', struct.pack('<d', v))[0]


def unbits(k):
    return 0.0 if k == 0 else struct.unpack('<d', struct.pack('<q', k))[0]


class BitCoder(T.Coder):
    """matrix values as small opaque codes: 0.0 -> 0, every other double (by bit pattern) -> its rank
    among the values that occur anywhere in the case (the model only moves values and tests for zero)"""

    def __init__(self, universe, values=()):
        T.Coder.__init__(self, universe)
        keys = sorted({bits(v) for v in values} - {0})
        self.vcode = {k: n + 1 for n, k in enumerate(keys)}
        self.vback = {n: k for k, n in self.vcode.items()}

    def val(self, v):
        k = bits(v)
        if k == 0:
            return 0
        if k not in self.vcode:
            n = len(self.vcode) + 1
            self.vcode[k] = n
            self.vback[n] = k
        return self.vcode[k]

    def unval(self, n):
        return 0.0 if n == 0 else unbits(self.vback[n])


# ---------------------------------------------------------------- coherence oracle on the live table
def coherence_failures(t, order=0):
    f = []
    oids = [str(i) for i in t.ids(axis='observation')]
    sids = [str(i) for i in t.ids()]
    D = np.asarray(t.matrix_data.copy().todense(), dtype=float).reshape(t.matrix_data.shape)
    if tuple(t.shape) != (len(oids), len(sids)):
        f.append('shape %s but %d observation ids and %d sample ids' % (tuple(t.shape), len(oids), len(sids)))
    if tuple(t.shape) != tuple(t.matrix_data.shape):
        f.append('shape property %s differs from matrix shape %s' % (tuple(t.shape), tuple(t.matrix_data.shape)))
    for ax, ids, index in (('observation', oids, t._obs_index), ('sample', sids, t._sample_index)):
        if len(set(ids)) != len(ids):
            f.append('duplicate %s ids %s' % (ax, ids))
        if {str(k): int(v) for k, v in index.items()} != {i: n for n, i in enumerate(ids)}:
            f.append('%s id->index lookup %s does not match ids %s' % (ax, dict(index), ids))
        for n, i in enumerate(ids):
            try:
                if t.index(i, ax) != n or not t.exists(i, ax):
                    f.append('index(%r,%s) = %r, position is %d' % (i, ax, t.index(i, ax), n))
            except Exception as e:
                f.append('index(%r,%s) raised %s' % (i, ax, type(e).__name__))
        try:
            t.index('no such id \x00', ax)
            f.append('unknown id was given an index on %s' % ax)
        except UnknownIDError:
            pass
        except Exception as e:
            f.append('unknown id lookup raised %s instead of UnknownIDError' % type(e).__name__)
        if t.exists('no such id \x00', ax):
            f.append('exists() is true for an unknown id on %s' % ax)
        md = t.metadata(axis=ax)
        if md is not None and len(md) != len(ids):
            f.append('%s metadata has %d entries for %d ids' % (ax, len(md), len(ids)))
    if f or not oids or not sids or D.shape != (len(oids), len(sids)):
        return f
    # accessors: each block reads the table through one family of accessors.  Some accessors change the
    # internal layout as a side effect (data / iter convert to CSR or CSC, nnz eliminates stored zeros), which
    # would "heal" what an operation left behind before the next accessor looks; the blocks are therefore
    # rotated by `order`, so that every family is, on some steps, the FIRST to see the table as the
    # operation left it.
    def per_axis(ax, ids):
        for n, i in enumerate(ids):
            want = D[n, :] if ax == 'observation' else D[:, n]
            got = np.asarray(t.data(i, axis=ax, dense=True), dtype=float).ravel()
            if got.shape != want.shape or not np.array_equal(got, want):
                f.append('data(%r,%s) = %s, matrix says %s' % (i, ax, got.tolist(), want.tolist()))
        it = [(np.asarray(v, dtype=float).ravel().tolist(), str(i)) for v, i, m in t.iter(axis=ax)]
        want = [((D[n, :] if ax == 'observation' else D[:, n]).tolist(), i) for n, i in enumerate(ids)]
        if it != want:
            f.append('iter(%s) = %s, matrix says %s' % (ax, it, want))
        nzc = np.asarray(t.nonzero_counts(ax, binary=True), dtype=float).ravel().tolist()
        want = ((D != 0).sum(axis=1) if ax == 'observation' else (D != 0).sum(axis=0)).tolist()
        if nzc != want:
            f.append('nonzero_counts(%s) = %s, matrix says %s' % (ax, nzc, want))
        sraw = np.asarray(t.sum(ax))
        if sraw.shape != (len(ids),):
            f.append('sum(%s) has shape %s for %d ids' % (ax, sraw.shape, len(ids)))
        s = np.asarray(sraw, dtype=float).ravel().tolist()
        want = (D.sum(axis=1) if ax == 'observation' else D.sum(axis=0)).tolist()
        if not np.allclose(s, want, rtol=1e-12, atol=0, equal_nan=True):
            f.append('sum(%s) = %s, matrix says %s' % (ax, s, want))
        nzraw = np.asarray(t.nonzero_counts(ax, binary=True))
        if nzraw.shape != (len(ids),):
            f.append('nonzero_counts(%s) has shape %s for %d ids' % (ax, nzraw.shape, len(ids)))
        if len(ids) <= 3:
            pw = [(str(a[1]), str(b[1]), np.asarray(a[0]).ravel().tolist(), np.asarray(b[0]).ravel().tolist())
                  for a, b in t.iter_pairwise(axis=ax)]
            vec = (lambda n: D[n, :].tolist()) if ax == 'observation' else (lambda n: D[:, n].tolist())
            want = [(ids[a], ids[b], vec(a), vec(b)) for a in range(len(ids)) for b in range(a + 1, len(ids))]   # tri=True, diag=False
            if pw != want:
                f.append('iter_pairwise(%s) disagrees with the matrix' % ax)

    def cells():
        for n, o in enumerate(oids):
            for k, s in enumerate(sids):
                if t.get_value_by_ids(o, s) != D[n, k]:
                    f.append('get_value_by_ids(%r,%r) = %r, matrix says %r' % (o, s, t.get_value_by_ids(o, s), D[n, k]))

    def listing():
        want = [(oids[n], sids[k]) for n in range(len(oids)) for k in range(len(sids)) if D[n, k] != 0]
        if order % 2:
            # the listing is a generator: consume it while OTHER reads go on between two items (per-sample and
            # per-observation reads flip the internal layout); what it yields must not depend on that
            nz, flip = [], 0
            for a, b in t.nonzero():
                nz.append((str(a), str(b)))
                flip += 1
                if flip % 2:
                    t.data(str(b), axis='sample', dense=True)
                else:
                    t.data(str(a), axis='observation', dense=True)
            how = 'nonzero() consumed while other reads go on'
        else:
            nz = [(str(a), str(b)) for a, b in t.nonzero()]
            how = 'nonzero()'
        if sorted(nz) != sorted(want) or len(nz) != len(want):
            f.append('%s = %s, matrix says %s' % (how, nz, want))

    def totals():
        if not np.isclose(float(t.sum('whole')), D.sum(), rtol=1e-12, atol=0, equal_nan=True):
            f.append('sum(whole) = %r, matrix says %r' % (float(t.sum('whole')), D.sum()))
        cnt = int((D != 0).sum())
        if t.nnz != cnt:
            f.append('nnz = %r, matrix has %d non-zero cells' % (t.nnz, cnt))
        if abs(t.get_table_density() - cnt / D.size) > 1e-12:
            f.append('density = %r, matrix says %r' % (t.get_table_density(), cnt / D.size))

    blocks = [lambda: per_axis('observation', oids), lambda: per_axis('sample', sids), cells, listing, totals]
    k = order % len(blocks)
    for b in blocks[k:] + blocks[:k]:
        b()
    return f


# ---------------------------------------------------------------- executing abstract operations
def _pick(ids, bitsmask):
    return [i for n, i in enumerate(ids) if (bitsmask >> n) & 1]


def _perm(ids, seed):
    import random
    p = list(ids)
    random.Random(seed).shuffle(p)
    return p


def apply_op(t, op, aux, rec):
    """apply one abstract op to the live table; returns (new current table, concrete record)"""
    name = op[0]
    ax = op[1] if len(op) > 1 and op[1] in ('observation', 'sample', 'whole') else None
    ids = [str(i) for i in t.ids(axis=ax)] if ax in ('observation', 'sample') else None
    if name == 'filter_ids':
        keep = _pick(ids, op[2])
        if op[5]:
            keep = keep + [(ids[0] + '5') if ids and (ids[0] + '5') not in ids else 'nope']
        rec.update(op=[0, keep, op[3], AX[ax]])
        r = t.filter(keep, axis=ax, invert=op[3], inplace=op[4])
        return r
    if name == 'filter_pred':
        verdicts = []
        f = PREDS[op[2]]

        def pred(v, i, m):
            verdicts.append(bool(f(v, i, m)))
            return verdicts[-1]
        r = t.filter(pred, axis=ax, invert=op[3], inplace=op[4])
        rec.update(op=[1, [int(v) for v in verdicts], op[3], AX[ax]])
        return r
    if name == 'remove_empty':
        rec.update(op=[2, {'observation': 0, 'sample': 1, 'whole': 2}[ax]])
        return t.remove_empty(axis=ax, inplace=op[2])
    if name == 'head':
        rec.update(op=[3, op[1], op[2]])
        return t.head(op[1], op[2])
    if name == 'sort':
        order = natsort(ids)
        rec.update(op=[4, order, AX[ax]])
        return t.sort(axis=ax)
    if name == 'sort_order':
        order = _perm(ids, op[2])
        if op[3] == 'short' and len(order) > 1:
            order = order[:-1]
        elif op[3] == 'unknown':
            order = order + [(ids[0] + '0') if ids and (ids[0] + '0') not in ids else 'nope']
        elif op[3] == 'repeat' and order:
            order = order + [order[0]]
        rec.update(op=[4, order, AX[ax]])
        return t.sort_order(order, axis=ax)
    if name == 'transpose':
        rec.update(op=[5])
        return t.transpose()
    if name == 'copy':
        rec.update(op=[6])
        return t.copy()
    if name == 'update_ids':
        kind, strict, inplace = op[2], op[3], op[4]
        if kind == 'suffix':
            m = {i: i + '_r' for i in ids}
        elif kind == 'short':
            m = {i: 'n%d' % n for n, i in enumerate(ids)}
        elif kind == 'partial':
            m = {i: i + '_p' for i in ids[::2]}
        elif kind == 'collide':
            m = {i: 'same' for i in ids}
        elif kind == 'swap' and len(ids) > 1:
            m = {ids[0]: ids[1], ids[1]: ids[0]}
        elif kind == 'onto' and len(ids) > 1:
            m = {ids[0]: ids[-1]}            # a new name that collides with an id that is kept
        else:
            m = {}
        rec.update(op=[7, sorted(m.items()), AX[ax], strict, inplace])
        return t.update_ids(m, axis=ax, strict=strict, inplace=inplace)
    if name == 'add_metadata':
        md = {i: {op[3]: 'v%d' % n} for n, i in enumerate(_pick(ids, op[2]))}
        if op[4]:
            md['nope'] = {'k': 'x'}
        t.add_metadata(md, axis=ax)
        rec.update(op=[8, AX[ax], 'md-after'])
        return t
    if name == 'del_metadata':
        t.del_metadata(keys=op[2], axis=ax)
        rec.update(op=[8, 2 if ax == 'whole' else AX[ax], 'md-after'])
        return t
    if name in ('transform', 'norm', 'pa', 'rankdata'):
        if name == 'transform':
            r = t.transform(TRANSFORMS[op[2]], axis=ax, inplace=op[3])
        elif name == 'norm':
            if (t.matrix_data.data < 0).any():      # norm is defined for non-negative tables only (C13 domain)
                rec.update(op=[99])
                return t
            r = t.norm(axis=ax, inplace=op[2])
        elif name == 'pa':
            r = t.pa(inplace=op[2])
        else:
            r = t.rankdata(axis=ax, inplace=op[2], method=op[3])
        rec.update(op=[9, 'mat-after'])
        return r
    if name == 'subsample':
        r = t.subsample(op[2], axis=ax, by_id=op[3], with_replacement=op[4], seed=op[5])
        rec.update(op=[10, 'table-after'])
        return r
    if name == 'collapse':
        r = t.collapse(LABELS[op[2]], axis=ax, norm=op[3], min_group_size=op[4])
        rec.update(op=[10, 'table-after'])
        return r
    if name == 'partition':
        parts = list(t.partition(LABELS[op[2]], axis=ax))
        r = parts[op[3] % len(parts)][1]
        rec.update(op=[10, 'table-after'])
        return r
    if name == 'merge':
        other = aux[op[1] % len(aux)]
        r = t.merge(other, sample=op[2], observation=op[3])
        rec.update(op=[10, 'table-after'])
        return r
    if name == 'concat':
        other = aux[op[2] % len(aux)].copy()
        # make the concatenated axis disjoint by renaming the operand's ids on that axis
        cur = set(ids)
        o_ids = [str(i) for i in other.ids(axis=ax)]
        other = other.update_ids({i: (i + '_c%d' % rec['step']) if i in cur else i for i in o_ids}, axis=ax, inplace=False)
        if op[3]:   # deliberately overlapping
            other = aux[op[2] % len(aux)].copy().update_ids({o_ids[0]: ids[0]}, axis=ax, strict=False, inplace=False) if o_ids and ids else other
        rec.update(op=[11, T.norm_snap(T.snapshot(other)), AX[ax]])
        return t.concat([other], axis=ax)
    if name == 'align_to':
        mode = op[1]
        o = t.copy()
        o = o.sort_order(_perm([str(i) for i in o.ids()], op[2]))
        o = o.sort_order(_perm([str(i) for i in o.ids(axis='observation')], op[2] + 1), axis='observation')
        if op[3]:
            o = o.update_ids({str(o.ids()[0]): 'zzz'}, strict=False, inplace=False) if o.shape[1] else o
        rec.update(op=[12, T.norm_snap(T.snapshot(o)), {'sample': 0, 'observation': 1, 'both': 2, 'detect': 3}[mode]])
        return t.align_to(o, axis=mode)
    raise ValueError(name)


def _run_profile(c):
    """an in-place filter that empties an axis while 'empty' is set to raise: the call raises (after the table was
    emptied - that is the unchanged behaviour), and the table it leaves behind must still be coherent; no model
    side (the content model knows no error profile): the model's answer is the constant 'no failures'"""
    from biom.err import errstate
    from biom.exception import TableException
    t = T.build(c['start'])
    raised = False
    with errstate(empty='raise'):
        try:
            if c['how'] == 'filter':
                t.filter([], axis=c['axis'], inplace=True)
            else:
                t.filter(lambda v, i, m: False, axis=c['axis'], inplace=True)
        except TableException:
            raised = True
    fails = coherence_failures(t, c.get('rot', 0))
    if not raised:
        fails.append("emptying an axis while empty='raise' did not raise")
    return [['profile', fails]]


def run_impl(c):
    try:
        if c.get('kind') == 'profile':
            return _run_profile(c)
        return _run(c)
    except Exception as e:  # harness bug
        import traceback
        return ['crash', type(e).__name__, traceback.format_exc()[-600:]]


def _bystander_failures(bystanders):
    """tables derived earlier (a table built from the current table's own matrix object, receivers left
    behind by non-in-place operations, the auxiliary operands) must stay coherent and unchanged"""
    f = []
    for name, tbl, snap in bystanders:
        coh = coherence_failures(tbl)
        if coh:
            f.append('%s became incoherent: %s' % (name, coh[0]))
        elif canon(T.norm_snap(T.snapshot(tbl))) != snap:
            f.append('%s changed although it was not operated on' % name)
    return f[:2]


def _stored(t):
    """the two id -> position dictionaries the table stores, as [[id, position], ...] by position"""
    def one(d):
        return sorted(([str(k), int(v)] for k, v in d.items()), key=lambda kv: (kv[1], kv[0]))
    return [one(t._obs_index), one(t._sample_index)]


def _run(c):
    t = T.build(c['start'])
    aux = [T.build(s) for s in c['aux']]
    out = [['start', T.norm_snap(T.snapshot(t)), coherence_failures(t, c.get('rot', 0)), _stored(t)]]
    recs = []
    bystanders = [('auxiliary table %d' % n, a, canon(T.norm_snap(T.snapshot(a)))) for n, a in enumerate(aux)]
    for step, op in enumerate(c['ops']):
        rec = {'step': step}
        if step % 2 == 0 and len(bystanders) < 6:
            # a second table over the very matrix object the current table exposes (a common idiom);
            # the examination above left the table column-major, a row access (read-only) makes it
            # row-major again, which is the layout in which a constructor might not copy
            if step % 4 == 0 and t.shape[0] and t.shape[1]:
                t.data(t.ids(axis='observation')[0], axis='observation')
            sib = Table(t.matrix_data, t.ids(axis='observation'), t.ids())
            bystanders.append(('table built from matrix_data before step %d' % step, sib, canon(T.norm_snap(T.snapshot(sib)))))
        before = T.norm_snap(T.snapshot(t))
        try:
            r = apply_op(t, op, aux, rec)
        except Exception as e:
            rec.setdefault('op', [99])
            after = T.norm_snap(T.snapshot(t))
            entry = ['err', T.err_code(e), after, coherence_failures(t, c.get('rot', 0) + step + 1) + _bystander_failures(bystanders), canon(after) == canon(before),
                     _stored(t)]
            rec['after'] = after
            rec['err'] = True
            rec['code'] = T.err_code(e)
            recs.append(rec)
            out.append(entry)
            continue
        rcv = T.norm_snap(T.snapshot(t))
        rec['receiver_after'] = rcv
        if r is not t and len(bystanders) < 8:
            bystanders.append(('receiver of step %d %s' % (step, op[0]), t, canon(rcv)))
        t = r
        after = T.norm_snap(T.snapshot(t))
        rec['after'] = after
        rec['err'] = False
        recs.append(rec)
        out.append(['ok', after, coherence_failures(t, c.get('rot', 0) + step + 1) + _bystander_failures(bystanders), _stored(t)])
    _STASH[jhash(c)] = recs
    return out


# ---------------------------------------------------------------- wire
def _values(c, recs):
    vs = [v for sp in [c['start']] + c['aux'] for row in sp['mat'] for v in row]
    for r in recs:
        for k in ('after', 'receiver_after'):
            if k in r:
                vs += [v for row in r[k]['mat'] for v in row]
        op = r.get('op', [])
        if op and op[0] in (11, 12):
            vs += [v for row in op[1]['mat'] for v in row]
    return vs


def _universe(c, recs):
    u = T.spec_universe(c['start'], *c['aux']) + ['nope', 'same', 'zzz']
    for r in recs:
        for k in ('after', 'receiver_after'):
            if k in r:
                u += r[k]['oids'] + r[k]['sids']
        op = r.get('op', [])
        if op and op[0] in (0, 4):
            u += list(op[1])
        if op and op[0] == 7:
            u += [a for a, b in op[1]] + [b for a, b in op[1]]
        if op and op[0] in (11, 12):
            u += op[1]['oids'] + op[1]['sids']
    return u


def encode(c):
    if c.get('kind') == 'profile':
        cd = BitCoder(T.spec_universe(c['start']), [v for row in c['start']['mat'] for v in row])
        return [cd.table(T.norm_snap(T.spec_content(c['start']))), []]
    recs = _STASH.get(jhash(c), [])
    cd = BitCoder(_universe(c, recs), _values(c, recs))
    ops = []
    for r in recs:
        op = r.get('op', [99])
        k = op[0]
        if r.get('err') and k in (8, 9, 10, 99):
            ops.append([98, r.get('code', 9)])   # refused by the implementation before the model has data
        elif k == 0:
            ops.append([0, [cd.id(i) for i in op[1]], int(op[2]), op[3]])
        elif k == 1:
            ops.append([1, op[1], int(op[2]), op[3]])
        elif k in (2, 5, 6):
            ops.append(op)
        elif k == 3:
            ops.append([3, op[1], op[2]])
        elif k == 4:
            ops.append([4, [cd.id(i) for i in op[1]], op[2]])
        elif k == 7:
            ops.append([7, [[cd.id(a), cd.id(b)] for a, b in op[1]], op[2], int(op[3]), int(op[4])])
        elif k == 8:
            tb = cd.table(r['after'])
            ops.append([8, op[1], tb[3], tb[4]])
        elif k == 99:
            ops.append([99])
        elif k == 9:
            ops.append([9, cd.table(r['after'])[2]])
        elif k == 10:
            ops.append([10, cd.table(r['after'])])
        elif k == 11:
            ops.append([11, cd.table(op[1]), op[2]])
        elif k == 12:
            ops.append([12, cd.table(op[1]), op[2]])
    return [cd.table(T.norm_snap(T.spec_content(c['start']))), ops]


def decode(tree, c):
    if c.get('kind') == 'profile':
        return [['profile', []]]
    recs = _STASH.get(jhash(c), [])
    cd = BitCoder(_universe(c, recs), _values(c, recs))
    out = []
    def ix(pairs):
        return sorted(([cd.unid(k), p] for k, p in pairs), key=lambda kv: (kv[1], kv[0]))
    for n, e in enumerate(tree):
        snap = T.norm_snap(cd.untable(e[1]))
        stored = [ix(e[2]), ix(e[3])]       # Model/Indexed.v: the stored dictionaries of the model state
        if n == 0:
            out.append(['start', snap, [], stored])
        elif e[0] == 0:
            out.append(['ok', snap, [], stored])
        else:
            out.append(['err', e[0], snap, [], True, stored])
    return out


def _strip(obs):
    """what is compared with the model: error class only as ok/err (codes differ by operation), content"""
    return obs


# ---------------------------------------------------------------- oracle
def oracle(c, obs):
    if obs and obs[0] == 'crash':
        return ['harness/implementation crashed: %s' % obs[1:]]
    fails = []
    if c.get('kind') == 'profile':
        return ["after an in-place filter that emptied the %s axis under empty='raise': %s" % (c['axis'], x) for x in obs[0][1][:3]]
    for n, e in enumerate(obs):
        coh = e[2] if e[0] in ('start', 'ok') else e[3]
        if coh:
            what = 'start table' if n == 0 else 'after step %d %s' % (n - 1, c['ops'][n - 1])
            fails.append('%s: %s' % (what, '; '.join(coh[:3])))
        if e[0] == 'err' and not e[4]:
            fails.append('step %d %s raised and left the table changed' % (n - 1, c['ops'][n - 1]))
    return fails[:4]


# ---------------------------------------------------------------- generation
def gen_op(rng):
    ax = rng.choice(['observation', 'sample'])
    r = rng.random()
    if r < 0.12:
        return ['filter_ids', ax, rng.getrandbits(4) | 1, rng.random() < 0.3, rng.random() < 0.5, rng.random() < 0.08]
    if r < 0.20:
        return ['filter_pred', ax, rng.choice(sorted(PREDS)), rng.random() < 0.3, rng.random() < 0.5]
    if r < 0.25:
        return ['remove_empty', rng.choice(['observation', 'sample', 'whole']), rng.random() < 0.5]
    if r < 0.29:
        return ['head', rng.randint(0, 4), rng.randint(1, 4)]
    if r < 0.33:
        return ['sort', ax]
    if r < 0.42:
        return ['sort_order', ax, rng.getrandbits(8), rng.choice(['perm'] * 6 + ['short', 'unknown', 'repeat'])]
    if r < 0.47:
        return ['transpose']
    if r < 0.50:
        return ['copy']
    if r < 0.58:
        return ['update_ids', ax, rng.choice(['suffix', 'short', 'partial', 'collide', 'swap', 'empty', 'onto', 'onto']), rng.random() < 0.5, rng.random() < 0.5]
    if r < 0.63:
        return ['add_metadata', ax, rng.getrandbits(4), rng.choice(['g', 'k', 'new']), rng.random() < 0.2]
    if r < 0.67:
        return ['del_metadata', rng.choice(['observation', 'sample', 'whole']), rng.choice([None, ['g'], ['k', 'new'], []])]
    if r < 0.72:
        return ['transform', ax, rng.choice(sorted(TRANSFORMS)), rng.random() < 0.5]
    if r < 0.75:
        return ['norm', ax, rng.random() < 0.5]
    if r < 0.78:
        return ['pa', None, rng.random() < 0.5]
    if r < 0.81:
        return ['rankdata', ax, rng.random() < 0.5, rng.choice(['average', 'min', 'dense'])]
    if r < 0.85:
        return ['subsample', ax, rng.randint(1, 4), rng.random() < 0.4, rng.random() < 0.3, rng.randint(0, 5)]
    if r < 0.89:
        return ['collapse', ax, rng.choice(sorted(LABELS)), rng.random() < 0.3, rng.choice([1, 1, 2])]
    if r < 0.92:
        return ['partition', ax, rng.choice(sorted(LABELS)), rng.randint(0, 3)]
    if r < 0.95:
        return ['merge', rng.randint(0, 3), rng.choice(['union', 'intersection']), rng.choice(['union', 'intersection'])]
    if r < 0.98:
        return ['concat', ax, rng.randint(0, 3), rng.random() < 0.15]
    return ['align_to', rng.choice(['sample', 'observation', 'both', 'detect']), rng.getrandbits(6), rng.random() < 0.2]


def gen_idiom(rng):
    """a non-in-place operation followed by an IN-PLACE operation on its result: whatever the result still
    shares with the receiver (a lookup dictionary handed over without a copy, metadata entries, the matrix)
    shows in the receiver, which stays under observation as a bystander"""
    ax = rng.choice(['observation', 'sample'])
    other = 'sample' if ax == 'observation' else 'observation'
    first = rng.choice([
        ['filter_ids', ax, rng.getrandbits(4) | 1, rng.random() < 0.3, False, False],
        ['filter_pred', ax, rng.choice(sorted(PREDS)), rng.random() < 0.3, False],
        ['remove_empty', rng.choice([ax, 'whole']), False],
        ['head', rng.randint(1, 4), rng.randint(1, 4)],
        ['partition', ax, rng.choice(sorted(LABELS)), rng.randint(0, 3)],
        ['copy'], ['transpose'], ['sort', ax],
        ['sort_order', ax, rng.getrandbits(8), 'perm'],
        ['update_ids', ax, rng.choice(['suffix', 'swap']), False, False],
    ])
    second = rng.choice([
        ['update_ids', other, rng.choice(['suffix', 'swap', 'short']), False, True],
        ['update_ids', other, rng.choice(['suffix', 'swap', 'short']), False, True],
        ['update_ids', ax, rng.choice(['suffix', 'swap']), False, True],
        ['filter_ids', other, rng.getrandbits(4) | 1, False, True, False],
        ['filter_ids', ax, rng.getrandbits(4) | 1, False, True, False],
        ['add_metadata', rng.choice([ax, other]), rng.getrandbits(4), rng.choice(['g', 'k', 'new']), False],
        ['del_metadata', rng.choice([ax, other, 'whole']), rng.choice([None, ['g'], ['k', 'new']])],
        ['transform', rng.choice([ax, other]), rng.choice(sorted(TRANSFORMS)), True],
        ['remove_empty', rng.choice([ax, other, 'whole']), True],
    ])
    return [first, second]


def idiom_sweep():
    """every pair (operation returning a new table, in-place operation on its result) on one fixed table with
    metadata: what a result still shares with its receiver shows in the receiver, which is watched as a
    bystander.  Deterministic, so that no sharing is found by the luck of a random sequence only."""
    start = {'oids': ['o1', 'o2', 'o3'], 'sids': ['s1', 's2', 's3'],
             'mat': [[1.0, 0.0, 2.0], [0.0, 3.0, 0.0], [4.0, 5.0, 6.0]],
             'omd': [{'g': 'g1'}, {'g': 'g2'}, {'g': 'g1'}], 'smd': [{'g': 'g2'}, {'g': 'g1'}, {'g': 'g1'}],
             'type': None, 'layout': ['csr']}
    aux = [dict(start, oids=['p1', 'p2', 'p3'], sids=['q1', 'q2', 'q3'], layout=['csr'])] * 2
    label = sorted(LABELS)[0]
    for ax, other in (('observation', 'sample'), ('sample', 'observation')):
        firsts = [['filter_ids', ax, 3, False, False, False], ['filter_pred', ax, sorted(PREDS)[0], True, False],
                  ['remove_empty', ax, False], ['head', 2, 2], ['partition', ax, label, 0], ['copy'], ['transpose'],
                  ['sort', ax], ['sort_order', ax, 5, 'perm'], ['update_ids', ax, 'suffix', False, False]]
        seconds = [['update_ids', other, 'suffix', False, True], ['update_ids', other, 'swap', False, True],
                   ['update_ids', ax, 'suffix', False, True], ['filter_ids', other, 3, False, True, False],
                   ['filter_ids', ax, 1, False, True, False], ['add_metadata', other, 3, 'new', False],
                   ['del_metadata', 'whole', ['g']], ['transform', other, sorted(TRANSFORMS)[0], True],
                   ['remove_empty', 'whole', True]]
        for a in firsts:
            for b in seconds:
                yield {'start': start, 'aux': aux, 'ops': [a, b], 'rot': (len(a) + len(b)) % 5}


def gen_case(rng, depth):
    start = T.rand_spec(rng, max_r=4, max_c=4, values=rng.choice(['counts', 'small', 'signed', 'dyadic']),
                        md=rng.choice(['none', 'group', 'group', 'text', 'obs', 'samp', 'partial']), alphabet=rng.choice(['short', 'short', 'punct', 'latin1']))
    aux = [T.rand_spec(rng, max_r=3, max_c=3, values='counts', md=rng.choice(['none', 'group']), alphabet='short',
                       opfx=rng.choice(['o', 'p']), spfx=rng.choice(['s', 'q'])) for _ in range(2)]
    ops = [gen_op(rng) for _ in range(rng.randint(1, depth))]
    if rng.random() < 0.4:
        at = rng.randint(0, len(ops))
        ops[at:at] = gen_idiom(rng)
    return {'start': start, 'aux': aux, 'ops': ops, 'rot': rng.randint(0, 4)}


def gen(rng, tier):
    n = 300 if tier == 'quick' else 3000
    depth = 6 if tier == 'quick' else 10
    for _ in range(n):
        yield gen_case(rng, depth)
    for c in idiom_sweep():
        yield c
    for k in range(16 if tier == 'quick' else 160):
        start = T.rand_spec(rng, max_r=3, max_c=3, values='counts', md=rng.choice(['none', 'group']), alphabet='short')
        yield {'kind': 'profile', 'start': start, 'axis': ['observation', 'sample'][k % 2], 'how': ['filter', 'pred'][(k // 2) % 2],
               'rot': k % 5, 'ops': []}
    if tier == 'thorough':
        import random
        r2 = random.Random(7)
        alphabet = [gen_op(r2) for _ in range(40)]
        starts = [gen_case(r2, 1) for _ in range(3)]
        for s in starts:
            for a in alphabet:
                for b in alphabet:
                    yield {'start': s['start'], 'aux': s['aux'], 'ops': [a, b]}


def nontrivial(c):
    return len(c['ops']) >= 2


def classify(c):
    if c.get('kind') == 'profile':
        return ['profile:empty-raise:' + c['axis']]
    tags = ['depth:%d' % len(c['ops'])] + ['op:' + o[0] for o in c['ops']]
    recs = _STASH.get(jhash(c), [])
    tags += ['step:err' if r.get('err') else 'step:ok' for r in recs]
    return tags


def shrink(c):
    if c.get('kind') == 'profile':
        return
    ops = c['ops']
    for i in range(len(ops)):
        yield dict(c, ops=ops[:i] + ops[i + 1:])
    if c['start']['layout'] and len(c['start']['layout']) > 1:
        yield dict(c, start=dict(c['start'], layout=c['start']['layout'][:1]))


SIGNATURES = {}
