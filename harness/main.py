import argparse
import importlib
import os
import sys

from . import core


def main():
    ap = argparse.ArgumentParser()
    ap.add_argument('pid')
    ap.add_argument('--tier', default=os.environ.get('VERIF_TIER', 'quick'), choices=['quick', 'thorough'])
    ap.add_argument('--seed', type=int, default=int(os.environ.get('VERIF_SEED', '20261001')))
    ap.add_argument('--replay')
    a = ap.parse_args()
    pid = a.pid.upper()
    mod = importlib.import_module('harness.%s' % pid.lower())
    sys.exit(core.run_check(mod, a.tier, a.seed, a.replay))


if __name__ == '__main__':
    main()
