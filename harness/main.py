import argparse
import importlib
import os
import sys

from . import core


def main():
    ap = argparse.ArgumentParser()
    ap.add_argument('pid')
    ap.add_argument('--tier', default=os.environ.get('VERIF_TIER', 'quick'), choices=['quick', 'thorough'])
    ap.add_argument('--seed', type=int, default=int(os.environ.get('VERIF_SEED', '20261001')))
    ap.add_argument('--replay')
    a = ap.parse_args()
    pid = a.pid.upper()
    if not os.environ.get('VERIF_SUPERVISED'):
        # supervisor: the check proper runs in a child process.  Exit codes 0 and 1 are its verdicts; anything else means
        # the interpreter died (e.g. a segmentation fault in scipy / h5py when a changed library writes or reads malformed
        # arrays).  The property is then no longer shown to hold: say so in the agreed form, with the case that was running.
        import json
        import subprocess
        rc = subprocess.call([sys.executable, '-W', 'ignore', '-m', 'harness.main'] + sys.argv[1:],
                             env=dict(os.environ, VERIF_SUPERVISED='1'))
        if rc in (0, 1):
            sys.exit(rc)
        journal = os.path.join(core.OUT, 'replays', '.current-%s.json' % pid)
        payload = {'tier': a.tier, 'seed': a.seed, 'kind': 'the interpreter running the implementation died',
                   'broken': [{'what': 'the check process ended with status %s (negative = killed by that signal) while running '
                                       'the implementation' % rc, 'detail': 'see case'}]}
        tail = 'no-failing-input-found'
        if os.path.exists(journal):
            try:
                payload['case'] = json.load(open(journal))
                payload['failure'] = 'the library crashed the interpreter (status %s) on this case' % rc
                tail = ''
            except ValueError:
                pass
            os.remove(journal)
        path = core.write_replay(pid, a.seed, payload)
        print(('VIOLATION property=%s replay=%s %s' % (pid, path, tail)).rstrip())
        sys.exit(1)
    try:
        mod = importlib.import_module('harness.%s' % pid.lower())
        rc = core.run_check(mod, a.tier, a.seed, a.replay)
    except Exception:
        # the machinery itself failed (e.g. the library no longer imports): the property is no longer
        # shown to hold, say so in the agreed form instead of dying with a traceback
        import traceback
        tb = traceback.format_exc()
        path = core.write_replay(pid, a.seed, {'broken': [{'what': 'the check could not run', 'detail': tb[-3000:]}],
                                                'tier': a.tier, 'seed': a.seed, 'kind': 'harness or library import failure'})
        print(tb[-1500:])
        print('VIOLATION property=%s replay=%s no-failing-input-found' % (pid, path))
        rc = 1
    sys.exit(rc)


if __name__ == '__main__':
    main()
