import argparse
import importlib
import os
import sys

from . import core


def main():
    ap = argparse.ArgumentParser()
    ap.add_argument('pid')
    ap.add_argument('--tier', default=os.environ.get('VERIF_TIER', 'quick'), choices=['quick', 'thorough'])
    ap.add_argument('--seed', type=int, default=int(os.environ.get('VERIF_SEED', '20261001')))
    ap.add_argument('--replay')
    a = ap.parse_args()
    pid = a.pid.upper()
    try:
        mod = importlib.import_module('harness.%s' % pid.lower())
        rc = core.run_check(mod, a.tier, a.seed, a.replay)
    except Exception:
        # the machinery itself failed (e.g. the library no longer imports): the property is no longer
        # shown to hold, say so in the agreed form instead of dying with a traceback
        import traceback
        tb = traceback.format_exc()
        path = core.write_replay(pid, a.seed, {'broken': [{'what': 'the check could not run', 'detail': tb[-3000:]}],
                                                'tier': a.tier, 'seed': a.seed, 'kind': 'harness or library import failure'})
        print(tb[-1500:])
        print('VIOLATION property=%s replay=%s no-failing-input-found' % (pid, path))
        rc = 1
    sys.exit(rc)


if __name__ == '__main__':
    main()
