"""C13: value transforms touch only non-zero entries and mean what they say.

Every case runs the REAL Table.transform / norm / pa / rankdata / _normalize_table on a table built
through a layout recipe.  A spy around the compiled kernel records the arrays it was handed
(indptr, indices, data), every call of the user function (values, id, metadata) and what the
function returned; the model (coq/Model/Transform.v) is then run on
  - the table content + the recorded layout + the recorded outputs (content level),
  - the recorded arrays + the recorded outputs (kernel level, K3),
  - the table's own sparse arrays before the call (representation level: layout selection,
    kernel, eliminate_zeros), for in-place calls,
and every observable is compared (result, receiver, calls, arrays).

Values: the generic transform never computes with values, it only moves them and tests them for
zero, so floats travel as their IEEE-754 bit patterns (0.0 and -0.0 -> 0): ANY function output is
representable.  norm divides: its cases use dyadic values scaled by 64 and exact rationals in the
model; the model's numerator/denominator are divided in binary64 and compared for equality."""
import os
import shutil
import tempfile

import numpy as np
import scipy.stats

import biom.table as bt
from biom.cli.table_normalizer import _normalize_table

from . import kernels
from . import tables as T
from .core import canon, jhash

ID = 'C13'
RULE = ('tables 1..5 x 1..5, non-square and asymmetric with probability > 0.8 (values counts/small/signed/dyadic/big; all-zero '
        'vectors), layout recipes giving CSR and CSC start layouts with sorted and unsorted indices, x axis x inplace x '
        '{transform with a function from a finite family: element-wise (x+1, 2x, -x, zero the small ones, zero all), vector-wise '
        '(v/v.sum(), reversed, cumsum, argsort, times the number of values, minus the minimum, a broadcast scalar), using the id, '
        'using the metadata, working on its argument in place, stateful (a call counter), a wrong-length result; every call the LIBRARY '
        'makes to the function is logged (exactly one per vector in axis order, empty vectors included, also after a preparatory '
        'zeroing transform); rankdata with the five tie methods; norm (also vectors whose total is 1e-20, 1e-300 or a few denormals, next to ordinary vectors); pa (incl. negative values, magnitudes down to 5e-324 and norm-then-pa on vectors '
        'as uneven as 1 : 3e11, travelling as opaque non-zero codes); an element-wise function '
        'along both axes; _normalize_table (-r/-p/none/both) called directly and through the real click command `biom normalize-table` on a JSON / HDF5 file (in process, output file read back)}; the arrays handed to the kernel and every call are recorded and '
        'replayed through the kernel-level model, and for in-place calls the table\'s own arrays through the representation-'
        'level model; thorough adds every 2x3 matrix over {0,1,-2} x both start formats x both axes x three functions; '
        'non-trivial = a table with a zero cell and a non-zero cell and at least 2 vectors on the axis; distinct by case hash')
TRUSTED = ['hand-written model coq/Model/Transform.v tied to biom/table.py:3063-3328, biom/_transform.pyx and '
           'biom/cli/table_normalizer.py:60-72 by this correspondence run',
           'the user function / scipy.stats.rankdata are code: their recorded outputs are inputs of the model (contract: same length)',
           'numpy slice assignment broadcasts a scalar result; the recorded output is the broadcast value',
           'coq/Model/Sparse.v conversions (tocsc/tocsr as stable bucketing, eliminate_zeros) are used by the representation-level '
           'run only and are compared array-for-array with scipy there; no theorem of C13 depends on them',
           'compiled kernels are the shipped .so (Cython absent); when _transform.pyx differs from the pinned hash the harness runs '
           'the interpreted source instead (tools/decython.py); on the unchanged tree both are run on every case and must agree',
           'extraction (ExtrOcamlBasic only) + ocaml/driver_tail.ml, cross-checked against vm_compute on a sample']
from . import regen as _regen
_regen_kernel = _regen.hook(TRUSTED, ['transform'])   # py2v: regenerate coq/Gen/TransformGen.v (the kernel) from the source first
from . import regen_wrap as _regen_wrap
# py2v_wrap: regenerate coq/Gen/TransformWrapGen.v (Table.transform / pa / rankdata, the python-level wrappers) as well
regenerate = _regen_wrap.combine(TRUSTED, _regen_kernel,
                                _regen_wrap.hook(TRUSTED, ['transform'], 'coq/Model/Transform.v (transform, pa, rankdata)',
                                                 'coq/Proofs/GenBridgeWrapProofs.v'))
ASSUMPTIONS = ['functions are deterministic and return finite values (no NaN), -0.0 counts as zero as in scipy',
               'norm: non-negative values, each vector holding small integer multiples of one power of two (1/64 for ordinary vectors; 2^-53 .. 2^-1074 for the tiny ones), so every sum is exact in binary64 and positive when something is stored',
               'an in-place transform whose function returns a wrong-length array is outside the model (the receiver may be half transformed)']

AX = {'observation': 0, 'sample': 1}
RANK_METHODS = ['average', 'min', 'max', 'dense', 'ordinal']
# powers of two (1.4e-20, 6.8e-21, 7.5e-301, 8.7e-311 (denormal), 5e-324 (smallest denormal), 1.4e-17, 1.1e-16):
# small integer multiples of one of them add up exactly in binary64, like the multiples of 1/64 elsewhere
TINY_BASES = [2.0 ** -66, 2.0 ** -67, 2.0 ** -997, 2.0 ** -1030, 2.0 ** -1074, 2.0 ** -56, 2.0 ** -53]
TINY = [1e-9, -1e-9, 1.5e-9, 1e-12, -3e-12, 5e-324, -5e-324, 2.5e-300, 1e-8, 9e-9]


def _md_num(m, d=3.0):
    try:
        return float(m['n']) if m and 'n' in m else d
    except Exception:
        return d


FUNCS = {
    # element-wise
    'plus1': lambda v, i, m: v + 1,
    'times2': lambda v, i, m: v * 2,
    'neg': lambda v, i, m: -v,
    'zero_small': lambda v, i, m: np.where(np.abs(v) < 1.5, 0.0, v),
    'zero_all': lambda v, i, m: v * 0,
    # vector-wise
    'relative': lambda v, i, m: v / v.sum() if v.size and v.sum() != 0 else v,
    'reverse': lambda v, i, m: v[::-1],
    'cumsum': lambda v, i, m: np.cumsum(v),
    'argsort': lambda v, i, m: np.argsort(v, kind='stable') + 1.0,
    'times_count': lambda v, i, m: v * len(v),
    'sub_min': lambda v, i, m: v - v.min() if v.size else v,
    'scalar': lambda v, i, m: 5.0,
    # id / metadata
    'id_len': lambda v, i, m: v + len(str(i)),
    'md_scale': lambda v, i, m: v * _md_num(m),
    # works on its argument IN PLACE (the argument is a view of the matrix data) and returns it
    'inplace_double': lambda v, i, m: _inplace_double(v),
    # stateful: the k-th call (k = 0, 1, ...) adds k; a fresh counter is made for every run (_make_fn)
    'counter': None,
    # contract violation
    'too_long': lambda v, i, m: np.append(v, 1.0),
}


def _inplace_double(v):
    v *= 2
    return v


def _make_fn(name):
    if name != 'counter':
        return FUNCS[name]
    state = {'k': 0}

    def counter(v, i, m):
        out = v + state['k']
        state['k'] += 1
        return out
    return counter


def _logged(f, log):
    """the function handed to Table.transform: logs every call the LIBRARY makes (a copy of the values,
    id, metadata), so that exactly one call per vector of the axis, in axis order, empty vectors
    included, is an observable"""
    def g(v, i, m):
        log.append([np.array(v, dtype=float, copy=True).tolist(), str(i), None if m is None else T.plain(dict(m))])
        return f(v, i, m)
    return g
ELEMENTWISE = {'plus1': lambda x: x + 1, 'times2': lambda x: x * 2, 'neg': lambda x: -x,
               'zero_small': lambda x: np.where(np.abs(x) < 1.5, 0.0, x), 'zero_all': lambda x: x * 0}
ORDER_FREE = {'relative': lambda nz: nz / nz.sum() if nz.sum() != 0 else nz,
              'times_count': lambda nz: nz * len(nz), 'sub_min': lambda nz: nz - nz.min(),
              'scalar': lambda nz: np.full(nz.shape, 5.0), 'inplace_double': lambda nz: nz * 2}
_STASH = {}
_INTERP = {}


# ---------------------------------------------------------------- coders
class BookCoder(T.Coder):
    """values <-> small integers through a per-case code book (0.0 and -0.0 <-> 0): injective on the
    finite set of floats a case can contain (table values, everything the function returned, 1.0)"""

    def __init__(self, universe, values):
        T.Coder.__init__(self, universe)
        vals = sorted({float(v) for v in values if v == v and float(v) != 0.0})
        self.book = {v: i + 1 for i, v in enumerate(vals)}
        self.unbook = {i + 1: v for i, v in enumerate(vals)}

    def val(self, v):
        v = float(v)
        if v == 0:
            return 0
        return self.book[v]

    def unval(self, k):
        return 0.0 if k == 0 else self.unbook[k]


def _coder(c, bits=True):
    if not bits:
        return T.Coder(T.spec_universe(c['spec']))
    vals = [1.0] + [v for row in c['spec']['mat'] for v in row]
    st = _STASH.get(jhash(c)) or {}
    runs = [st[k] for k in ('observation', 'sample') if k in st] if 'run' not in st else ([st['run']] if st['run'] else [])
    runs = [r for r in runs if r]
    for run in runs:
        for o in run['outs']:
            vals += o
        vals += run['before']['data'] + run.get('after', [])
    if st.get('pre'):
        vals += st['pre']['data']
    if st.get('base'):
        vals += [v for row in st['base']['mat'] for v in row]
    return BookCoder(T.spec_universe(c['spec']), vals)


def _uses_bits(c):
    """code book (opaque values) unless the model has to divide"""
    if c['kind'] == 'norm':
        return False
    if c['kind'] == 'normalize':
        return not c['rel']
    return True


def _content(c):
    """the content of the table the operation under test starts from: the spec's, or, when the case
    has a preparatory step (norm before pa), the snapshot taken right after that step"""
    st = _STASH.get(jhash(c)) or {}
    if st.get('base') is not None:
        return st['base']
    return T.norm_snap(T.spec_content(c['spec']))


# ---------------------------------------------------------------- implementation
def _interp():
    if 'm' not in _INTERP:
        try:
            _INTERP['m'] = kernels._load('_transform')
        except Exception as e:  # pragma: no cover
            _INTERP['m'], _INTERP['err'] = None, '%s: %s' % (type(e).__name__, e)
    return _INTERP['m']


def _arrays(m):
    return {'fmt': m.format, 'shape': [int(x) for x in m.shape], 'indptr': [int(x) for x in m.indptr],
            'indices': [int(x) for x in m.indices], 'data': [float(x) for x in m.data]}


class Spy:
    """records what the compiled kernel is handed and what the user function sees / returns"""

    def __init__(self):
        self.runs = []
        self.real = bt._transform

    def __enter__(self):
        def spy(arr, ids, metadata, function, axis):
            run = {'before': _arrays(arr), 'axis': int(axis), 'calls': [], 'outs': [],
                   'ids': [str(i) for i in ids], 'md': None if metadata is None else [T.plain(dict(x)) if x is not None else None for x in metadata]}
            self.runs.append(run)

            def wrapped(v, i, m):
                arg = np.array(v, dtype=float, copy=True)
                res = function(v, i, m)
                run['calls'].append([arg.tolist(), str(i), None if m is None else T.plain(dict(m))])
                out = np.asarray(res, dtype=float)
                try:
                    out = np.broadcast_to(out, arg.shape)
                except ValueError:
                    pass
                run['outs'].append(np.array(out, dtype=float).reshape(-1).tolist())
                return res
            try:
                self.real(arr, ids, metadata, wrapped, axis)
            finally:
                run['after'] = [float(x) for x in arr.data]
        bt._transform = spy
        return self

    def __exit__(self, *a):
        bt._transform = self.real


def _snap(t):
    return T.norm_snap(T.snapshot(t))


def _is_cli(c):
    return c.get('via', 'function') != 'function'


def _run_cli(c, t):
    """`biom normalize-table -i inp -o out [-r] [-p] -a axis` through the real click group, in process
    (so the spy still sees the kernel).  The group's close callback closes fd 1: the standard
    descriptors are saved and restored around the call.
    -> (snapshot of the table the command read, result snapshot | None, exception | None)"""
    import h5py
    from biom import load_table
    from biom.cli import cli
    d = tempfile.mkdtemp(prefix='biomv-c13-')
    try:
        inp, out = os.path.join(d, 'in.biom'), os.path.join(d, 'out.biom')
        if c['via'] == 'cli_json':
            with open(inp, 'w') as f:
                f.write(t.to_json('harness'))
        else:
            with h5py.File(inp, 'w') as f:
                t.to_hdf5(f, 'harness')
        base = _snap(load_table(inp))
        args = ['normalize-table', '-i', inp, '-o', out] + (['-r'] if c['rel'] else []) + (['-p'] if c['pa'] else []) \
            + ['-a', c['axis']]
        saved = [os.dup(k) for k in (0, 1, 2)]
        try:
            try:
                cli.main(args=args, standalone_mode=False)
                err = None
            except BaseException as e:      # click may raise SystemExit / Abort
                err = e
        finally:
            for k, fd in enumerate(saved):
                os.dup2(fd, k)
                os.close(fd)
        res = None if err is not None else _snap(load_table(out))
        return base, res, err
    finally:
        shutil.rmtree(d, ignore_errors=True)


def _op(c, t, ulog):
    k = c['kind']
    if k == 'transform':
        return t.transform(_logged(_make_fn(c['fn']), ulog), axis=c['axis'], inplace=c['inplace'])
    if k == 'rank':
        real = scipy.stats.rankdata

        def counting(a, *args, **kw):
            ulog.append(np.array(a, dtype=float).tolist())
            return real(a, *args, **kw)
        scipy.stats.rankdata = counting
        try:
            return t.rankdata(axis=c['axis'], inplace=c['inplace'], method=c['method'])
        finally:
            scipy.stats.rankdata = real
    if k == 'norm':
        return t.norm(axis=c['axis'], inplace=c['inplace'])
    if k == 'pa':
        return t.pa(inplace=c['inplace'])
    if k == 'normalize':
        return _normalize_table(t, c['rel'], c['pa'], c['axis'])
    raise ValueError(k)


def run_impl(c):
    try:
        return _run_impl(c)
    except Exception as e:  # the library (or a changed kernel) failed outside the guarded call
        _STASH[jhash(c)] = {'crash': True, 'run': None, 'pre': None}
        return {'crash': [type(e).__name__, str(e)[:300]]}


def _shim_check(run):
    """on the unchanged tree the interpreted .pyx must do what the compiled kernel did"""
    m = _interp()
    if m is None:
        return _INTERP.get('err', 'no interpreter')
    if '_transform' in kernels.STATE['patched']:
        return True
    from scipy.sparse import csc_matrix, csr_matrix
    b = run['before']
    cls = csr_matrix if b['fmt'] == 'csr' else csc_matrix
    a2 = cls((np.array(b['data'], dtype=float), np.array(b['indices'], dtype=np.int32), np.array(b['indptr'], dtype=np.int32)),
             shape=tuple(b['shape']))
    outs = iter(run['outs'])
    try:
        m._transform(a2, run['ids'], run['md'], lambda v, i, md: np.array(next(outs), dtype=float), run['axis'])
    except Exception:
        return len(run['outs']) != len(run['calls']) or 'interpreted kernel raised'
    return [float(x) for x in a2.data] == run['after']


def _run_impl(c):
    if c['kind'] == 'axis_indep':
        obs = {}
        runs = {}
        for ax in ('observation', 'sample'):
            t = T.build(c['spec'])
            ulog = []
            with Spy() as sp:
                r = t.transform(_logged(FUNCS[c['fn']], ulog), axis=ax, inplace=False)
            obs[ax] = _snap(r)
            obs['ncalls_' + ax] = len(ulog)
            runs[ax] = sp.runs[0]
        obs['layout_ok'] = True
        _STASH[jhash(c)] = runs
        return obs
    t = T.build(c['spec'])
    base = None
    if c.get('prenorm'):
        # preparatory step (not under test here): relative abundances, then the operation
        t.norm(axis=c['prenorm'], inplace=True)
        base = _snap(t)
    if c.get('prezero'):
        # preparatory step: an earlier transform zeroed the small values, leaving vectors emptied by it
        t.transform(FUNCS['zero_small'], axis=c['prezero'], inplace=True)
        base = _snap(t)
    if c.get('presibling'):
        fmt0 = t.matrix_data.format
        for ax in ('observation', 'sample'):
            # nothing is handed to the function for an entry-less vector, so the identity also holds there
            sib = t.transform(lambda v, i, m: v, axis=ax, inplace=False)
            sib.add_metadata({str(i): {'sibling_key': 'edited'} for i in sib.ids(axis=ax)}, axis=ax)
            sib.del_metadata(axis='sample' if ax == 'observation' else 'observation')
            del sib
        if t.matrix_data.format != fmt0:         # the layout the case asked for is part of the case
            t._data = t._data.asformat(fmt0)
    ulog = []
    pre = _arrays(t.matrix_data)
    with Spy() as sp:
        if _is_cli(c):
            base, rs, err = _run_cli(c, t)
            res = ['ok', rs] if err is None else ['err', T.err_code(err) if isinstance(err, Exception) else 9]
            same_obj, post = None, None
        else:
            try:
                r = _op(c, t, ulog)
                res = ['ok', _snap(r)]
                same_obj = r is t
                post = _arrays(r.matrix_data)
            except Exception as e:
                r, res, same_obj, post = None, ['err', T.err_code(e)], None, None
    run = sp.runs[0] if sp.runs else None
    obs = {'result': res, 'layout_ok': True}
    failed = res[0] == 'err'
    if not _is_cli(c):
        if not (failed and c.get('inplace') and run is not None):
            obs['receiver'] = _snap(t)
        obs['returned_receiver'] = same_obj
    if run is not None:
        # transform: the calls the LIBRARY made to the user's function (not only those of the kernel)
        obs['calls'] = None if failed else (ulog if c['kind'] == 'transform' else run['calls'])
        if c['kind'] == 'rank':
            obs['fn_calls'] = len(ulog)          # invocations of scipy.stats.rankdata
        obs['kernel'] = {'indptr': run['before']['indptr'], 'indices': run['before']['indices'], 'data': run['after'],
                         'calls': run['calls'], 'segments_ok': True} if not failed else None
        obs['shim_agrees'] = True if failed else _shim_check(run)
        if c.get('inplace') and not failed and c['kind'] in ('transform', 'rank', 'pa'):
            obs['repr'] = {'handed': {k: run['before'][k] for k in ('fmt', 'shape', 'indptr', 'indices', 'data')},
                           'installed': post}
    _STASH[jhash(c)] = {'run': run, 'pre': pre, 'base': base}
    return obs


# ---------------------------------------------------------------- wire
def _lay(run):
    p, ind = run['before']['indptr'], run['before']['indices']
    return [ind[p[i]:p[i + 1]] for i in range(len(p) - 1)]


def _md_opt(md):
    return [] if md is None else [[T.md_tree(x) for x in md]]


def _recorded(c):
    st = _STASH.get(jhash(c))
    if st is None:
        run_impl(c)
        st = _STASH.get(jhash(c))
    return st


def _cs_tree(a, cd):
    major, minor = (a['shape'][0], a['shape'][1]) if a['fmt'] == 'csr' else (a['shape'][1], a['shape'][0])
    return [major, minor, a['indptr'], a['indices'], [cd.val(v) for v in a['data']]]


def _scaled_table(cd, content, axis):
    """norm divides every vector of [axis] by its own total, so a vector may be multiplied by a power
    of two without changing the exact quotients: every vector is scaled to integers by its own
    power of two (ordinary dyadic values, 1e-20, 1e-300 and denormals alike).  The entries of one
    vector must then fit the wire's 62-bit integers, i.e. have comparable exponents."""
    rows = [[float(v) for v in row] for row in content['mat']]
    nr, nc = len(content['oids']), len(content['sids'])
    out = [[0] * nc for _ in range(nr)]
    vecs = [[(i, j) for j in range(nc)] for i in range(nr)] if axis == 'observation' else \
        [[(i, j) for i in range(nr)] for j in range(nc)]
    for cells in vecs:
        fr = [rows[i][j].as_integer_ratio() for i, j in cells] if nr and nc else []
        den = max([d for _, d in fr] + [1])
        for (i, j), (num, d) in zip(cells, fr):
            k = num * (den // d)
            if abs(k) >= 2 ** 58:
                raise ValueError('vector mixes magnitudes too far apart for the wire: %r' % [rows[a][b] for a, b in cells])
            out[i][j] = k
    tb = cd.table(dict(content, mat=[[0.0] * nc for _ in range(nr)]))
    tb[2] = out
    return tb


def encode(c):
    st = _recorded(c)
    if st.get('crash'):
        return [3, 0, [0], [], [], [], [], []]
    cd = _coder(c, _uses_bits(c))
    tb = cd.table(_content(c)) if _uses_bits(c) else _scaled_table(cd, _content(c), c['axis'])
    k = c['kind']
    if k == 'axis_indep':
        subs = []
        for ax in ('observation', 'sample'):
            run = st[ax]
            subs.append([0, tb, AX[ax], 0, _lay(run), [[cd.val(v) for v in o] for o in run['outs']]])
        return [9] + subs
    run = st['run']
    if run is None:       # refused before any kernel ran (normalize without / with both modes)
        return [5, int(c['rel']), int(c['pa']), AX[c['axis']], cd.val(1.0), [], tb]
    lay = _lay(run)
    outs = [[cd.val(v) for v in o] for o in run['outs']] if _uses_bits(c) else []
    if k in ('transform', 'rank'):
        top = [0, tb, AX[c['axis']], int(c['inplace']), lay, outs]
    elif k == 'pa':
        top = [2, tb, cd.val(1.0), int(c['inplace']), lay]
    elif k == 'norm':
        return [1, tb, AX[c['axis']], lay]
    else:
        return [5, int(c['rel']), int(c['pa']), AX[c['axis']], cd.val(1.0), lay, tb]
    subs = [top]
    b = run['before']
    n = len(b['indptr']) - 1
    subs.append([3, n, b['indptr'], b['indices'], [cd.val(v) for v in b['data']], [cd.id(i) for i in run['ids']],
                 _md_opt(run['md']), outs if k != 'pa' else [[cd.val(v) for v in o] for o in run['outs']]])
    if c.get('inplace') and len(run['outs']) == n and all(len(o) == b['indptr'][i + 1] - b['indptr'][i] for i, o in enumerate(run['outs'])):
        pre = st['pre']
        subs.append([4, 0 if pre['fmt'] == 'csr' else 1, _cs_tree(pre, cd), AX[c['axis']] if k != 'pa' else 1,
                     [[cd.val(v) for v in o] for o in run['outs']]])
    return [9] + subs


def _uncalls(tr, cd):
    return [[[cd.unval(v) for v in call[0]], cd.unid(call[1]), None if not call[2] else T.md_untree(call[2][0])] for call in tr]


def _uncs(tr, fmt, cd):
    major, minor, indptr, indices, data = tr
    shape = [major, minor] if fmt == 'csr' else [minor, major]
    return {'fmt': fmt, 'shape': shape, 'indptr': indptr, 'indices': indices, 'data': [cd.unval(v) for v in data]}


def _unq(m, spec):
    out = [[(num / den) / 1.0 if num else 0.0 for num, den in row] for row in m]
    if not spec['oids'] or not spec['sids']:
        out = [[] for _ in spec['oids']]
    return out


def _result(tr, cd):
    return ['err', tr[1]] if tr[0] == -1 else ['ok', T.norm_snap(cd.untable(tr[1]))]


def decode(tree, c):
    st = _recorded(c)
    if st.get('crash'):
        return {'model': 'not run: the implementation crashed'}
    cd = _coder(c, _uses_bits(c))
    k = c['kind']
    if k == 'axis_indep':
        o, s = tree
        return {'observation': _result(o[1], cd)[1], 'sample': _result(s[1], cd)[1], 'layout_ok': bool(o[3]) and bool(s[3]),
                'ncalls_observation': len(o[2]), 'ncalls_sample': len(s[2])}
    sc = _content(c)
    if k == 'norm':
        m, lay_ok = tree
        snap = dict(sc, mat=_unq(m, c['spec']))
        return {'result': ['ok', snap], 'layout_ok': bool(lay_ok), 'receiver': snap if c['inplace'] else sc,
                'returned_receiver': bool(c['inplace']), 'calls': st['run']['calls'], 'kernel': st_kernel(st), 'shim_agrees': True}
    if k == 'normalize':
        run = st['run']
        if tree[0] == -1:
            o = {'result': ['err', tree[1]], 'layout_ok': True, 'receiver': sc, 'returned_receiver': None}
        else:
            if tree[0] == 0:
                snap = dict(sc, mat=_unq(tree[1], c['spec']))
            else:
                snap = T.norm_snap(cd.untable(tree[1]))
            o = {'result': ['ok', snap], 'layout_ok': True, 'receiver': snap, 'returned_receiver': True,
                 'calls': run['calls'], 'kernel': st_kernel(st), 'shim_agrees': True}
        if _is_cli(c):           # the command works on a table of its own: no receiver to observe
            o.pop('receiver'), o.pop('returned_receiver')
        return o
    top, kern = tree[0], tree[1]
    rep = tree[2] if len(tree) > 2 else None
    if k == 'pa':
        recv, res = top
        lay_ok, calls = True, st['run']['calls']
    else:
        recv, res, calls, lay_ok = top
        calls = _uncalls(calls, cd)
    result = _result(res, cd)
    obs = {'result': result, 'layout_ok': bool(lay_ok)}
    failed = result[0] == 'err'
    if not (failed and c.get('inplace')):
        obs['receiver'] = T.norm_snap(cd.untable(recv))
    obs['returned_receiver'] = None if failed else bool(c['inplace'])
    obs['calls'] = None if failed else calls
    if k == 'rank':
        obs['fn_calls'] = len(calls)
    obs['kernel'] = None if failed else {'indptr': kern[0], 'indices': kern[1], 'data': [cd.unval(v) for v in kern[2]],
                                         'calls': _uncalls(kern[3], cd), 'segments_ok': bool(kern[4])}
    obs['shim_agrees'] = True
    if rep is not None and not failed:
        handed, want, installed = rep
        fmt = 'csr' if want == 0 else 'csc'
        obs['repr'] = {'handed': _uncs(handed, fmt, cd), 'installed': _uncs(installed, fmt, cd)}
    return obs


def st_kernel(st):
    """norm's values are rationals in the model: the kernel-level arrays are checked by the oracle only"""
    run = st['run']
    return {'indptr': run['before']['indptr'], 'indices': run['before']['indices'], 'data': run['after'],
            'calls': run['calls'], 'segments_ok': True}


# ---------------------------------------------------------------- oracle (the property text, numpy reference)
def _mat(spec):
    return np.array(spec['mat'], dtype=float).reshape(len(spec['oids']), len(spec['sids']))


def _cmat(c):
    b = _content(c)
    return np.array(b['mat'], dtype=float).reshape(len(b['oids']), len(b['sids']))


def _rank(vals, method):
    """plain reference ranking (not scipy): ranks 1..k of the values, ties by method"""
    k = len(vals)
    order = sorted(range(k), key=lambda i: (vals[i], i))
    out = [0.0] * k
    if method == 'ordinal':
        for r, i in enumerate(order):
            out[i] = r + 1.0
        return out
    distinct = sorted(set(vals))
    for i, x in enumerate(vals):
        less = sum(1 for y in vals if y < x)
        eq = sum(1 for y in vals if y == x)
        out[i] = {'min': less + 1.0, 'max': float(less + eq), 'average': less + (eq + 1) / 2.0,
                  'dense': float(distinct.index(x) + 1)}[method]
    return out


def _want_calls(c, axis):
    M = _cmat(c)
    sc = _content(c)
    ids, md = (sc['oids'], sc['omd']) if axis == 'observation' else (sc['sids'], sc['smd'])
    vecs = [M[i, :] for i in range(M.shape[0])] if axis == 'observation' else [M[:, j] for j in range(M.shape[1])]
    return [[sorted(v[v != 0].tolist()), i, None if md is None else md[k]] for k, (v, i) in enumerate(zip(vecs, ids))]


def _check_calls(c, obs, axis, fails):
    got = canon([[sorted(call[0]), call[1], call[2]] for call in obs.get('calls') or []])
    want = canon(_want_calls(c, axis))
    if got != want:
        fails.append('the function was called with %s; the non-zero values / id / metadata per %s are %s' % (got, axis, want))


def _untouched(c, r, fails, what='result'):
    sc = canon(_content(c))
    for key in ('oids', 'sids', 'omd', 'smd', 'type'):
        if r[key] != sc[key]:
            fails.append('%s: %s changed' % (what, key))


def oracle(c, obs):
    if 'crash' in obs:
        return ['harness/implementation crashed: %s' % obs['crash']]
    fails = []
    spec, k = c['spec'], c['kind']
    M = _cmat(c)
    sc = canon(_content(c))
    if k == 'axis_indep':
        ref = np.where(M != 0, ELEMENTWISE[c['fn']](M), 0.0)
        for ax in ('observation', 'sample'):
            R = np.array(obs[ax]['mat'], dtype=float).reshape(M.shape)
            if not np.array_equal(R, ref):
                fails.append('element-wise %s along %s differs from applying it to the non-zero cells' % (c['fn'], ax))
        if obs.get('ncalls_observation') != M.shape[0] or obs.get('ncalls_sample') != M.shape[1]:
            fails.append('the function was called %s / %s times along observations / samples of a %d x %d table'
                         % (obs.get('ncalls_observation'), obs.get('ncalls_sample'), M.shape[0], M.shape[1]))
        if obs['observation'] != obs['sample']:
            fails.append('element-wise %s gives different tables along the two axes' % c['fn'])
        return fails
    res = obs['result']
    if obs.get('shim_agrees', True) is not True:
        fails.append('interpreted _transform.pyx and compiled kernel differ on the same arrays (%s)' % obs['shim_agrees'])
    if k == 'normalize' and c['rel'] == c['pa']:
        if res != ['err', 5]:
            fails.append('_normalize_table(relative_abund=%s, presence_absence=%s) was not refused with ValueError' % (c['rel'], c['pa']))
        return fails
    if k == 'transform' and c['fn'] == 'too_long' and (M != 0).any():
        # (a one-element result for a vector without stored values broadcasts into the empty slice)
        if res != ['err', 5]:
            fails.append('a result of the wrong length was not refused: %s' % res[:1])
        if not c['inplace'] and obs.get('receiver') != sc:
            fails.append('a refused transform on a copy changed the receiver')
        return fails
    if res[0] != 'ok':
        return fails + ['%s raised error code %s' % (k, res[1])]
    r = res[1]
    inplace = True if k == 'normalize' else c['inplace']
    _untouched(c, r, fails)
    if _is_cli(c):
        if not c.get('prenorm'):
            want_in = canon(T.norm_snap(T.spec_content(spec)))
            if any(sc[key] != want_in[key] for key in ('oids', 'sids', 'mat')):
                fails.append('the table read from the input file is not the table that was written')
    else:
        if obs['returned_receiver'] != inplace:
            fails.append('inplace=%s but the returned table %s the receiver' % (inplace, 'is' if obs['returned_receiver'] else 'is not'))
        if obs['receiver'] != (r if inplace else sc):
            fails.append('inplace=%s: the receiver afterwards is not %s' % (inplace, 'the result' if inplace else 'unchanged'))
    axis = 'sample' if k == 'pa' or (k == 'normalize' and c['pa']) else c['axis']
    _check_calls(c, obs, axis, fails)
    R = np.array(r['mat'], dtype=float).reshape(M.shape)
    V, W = (M, R) if axis == 'observation' else (M.T, R.T)        # rows = vectors of the axis
    if ((V == 0) & (W != 0)).any():
        fails.append('a zero cell became non-zero')
    if (W != 0).sum() > (V != 0).sum():
        fails.append('density increased')
    if k == 'pa' or (k == 'normalize' and c['pa']):
        if not np.array_equal(R, (M != 0).astype(float)):
            fails.append('pa is not 1 exactly where the table was non-zero')
    elif k == 'norm' or k == 'normalize':
        for i in range(V.shape[0]):
            s = V[i].sum()
            if s > 0:
                if abs(W[i].sum() - 1.0) > 1e-12:
                    fails.append('normalised vector %d sums to %r' % (i, W[i].sum()))
                if not np.array_equal(W[i], V[i] / s):
                    fails.append('normalised vector %d is not v / v.sum()' % i)
            elif not np.array_equal(W[i], V[i]):
                fails.append('an all-zero vector was changed by norm')
    elif k == 'rank':
        if obs.get('fn_calls') != V.shape[0]:
            fails.append('the rank function was invoked %s times for %d vectors' % (obs.get('fn_calls'), V.shape[0]))
        for i in range(V.shape[0]):
            nz = V[i] != 0
            vals, ranks = V[i][nz].tolist(), W[i][nz].tolist()
            if c['method'] == 'ordinal':
                # ties get distinct consecutive ranks; which tied cell gets which is not promised
                ok = sorted(ranks) == [float(x) for x in range(1, len(vals) + 1)] and \
                    all(ranks[a] < ranks[b] for a in range(len(vals)) for b in range(len(vals)) if vals[a] < vals[b])
            else:
                ok = ranks == _rank(vals, c['method'])
            if not ok:
                fails.append('vector %d: ranks %s of the non-zero values %s are not the %s ranks' % (i, ranks, vals, c['method']))
    elif k == 'transform':
        fn = c['fn']
        if fn in ELEMENTWISE:
            if not np.array_equal(R, np.where(M != 0, ELEMENTWISE[fn](M), 0.0)):
                fails.append('element-wise %s: result differs from applying it to the non-zero cells only' % fn)
        elif fn == 'too_long':
            pass            # nothing stored anywhere (checked above): nothing to write, the generic checks apply
        elif fn == 'counter':
            # one call per vector in axis order, empty vectors included: vector number i gets + i
            for i in range(V.shape[0]):
                nz = V[i] != 0
                if nz.any() and not np.array_equal(W[i][nz], V[i][nz] + i):
                    fails.append('stateful function: vector %d holds %s, expected its values + %d' % (i, W[i][nz].tolist(), i))
        elif fn in ORDER_FREE:
            for i in range(V.shape[0]):
                nz = V[i] != 0
                if nz.any() and not np.array_equal(W[i][nz], ORDER_FREE[fn](V[i][nz])):
                    fails.append('%s on vector %d: got %s' % (fn, i, W[i][nz].tolist()))
        else:
            # order-sensitive / id / metadata functions: the values written to the non-zero cells of
            # each vector are the values the function returned for that vector
            for i, (call, ) in enumerate(zip((obs.get('calls') or [])[:V.shape[0]])):
                nz = V[i] != 0
                want = sorted(np.asarray(FUNCS[fn](np.array(call[0], dtype=float), call[1], call[2]), dtype=float).tolist())
                if sorted(W[i][nz].tolist()) != want:
                    fails.append('%s on vector %d: cells hold %s, the function returned %s' % (fn, i, sorted(W[i][nz].tolist()), want))
    # kernel level (K3): indptr / indices untouched is checked by the model comparison; here: the
    # value array afterwards is the concatenation of what the function returned
    kern, st = obs.get('kernel'), _STASH.get(jhash(c))
    if kern and st and st.get('run') and k != 'norm' and k != 'normalize':
        flat = [x for o in st['run']['outs'] for x in o]
        if canon(flat) != canon(kern['data']):
            fails.append('kernel: data afterwards is not the concatenation of the function results')
    return fails[:5]


# ---------------------------------------------------------------- generation
def _share_ids(rng, spec):
    """observation and sample ids are separate namespaces: in ~25 % of the tables the same strings
    name vectors on both axes (fully: numeric ids on both; or partially)"""
    u = rng.random()
    if u >= 0.25:
        return
    r, c = len(spec['oids']), len(spec['sids'])
    pool = [str(k + 1) for k in range(max(r, c))]
    if u < 0.12:
        spec['oids'] = rng.sample(pool, r)
        spec['sids'] = rng.sample(pool, c)
    else:
        take = rng.sample(spec['oids'], min(r, c, rng.randint(1, 3)))
        for k, x in zip(rng.sample(range(c), len(take)), take):
            spec['sids'][k] = x


def _cli_md(spec):
    """metadata kinds whose file round trip is not this property's business are replaced by plain strings"""
    spec['omd'] = None if spec['omd'] is None else [{'g': 'g%d' % (i % 3)} for i in range(len(spec['oids']))]
    spec['smd'] = None if spec['smd'] is None else [{'g': 'g%d' % (i % 2)} for i in range(len(spec['sids']))]


def gen_case(rng, kind=None, spec=None):
    kind = kind or rng.choice(['transform'] * 9 + ['rank'] * 4 + ['norm'] * 3 + ['pa'] * 2 + ['axis_indep'] * 2 + ['normalize'] * 2)
    if spec is None:
        r, cdim = rng.randint(1, 5), rng.randint(1, 5)
        if r == cdim and rng.random() < 0.8:
            cdim = cdim % 5 + 1                                   # non-square
        values = rng.choice(['counts', 'small', 'dyadic']) if kind in ('norm', 'normalize') else \
            rng.choice(['counts', 'small', 'signed', 'dyadic', 'big'])
        spec = T.rand_spec(rng, min_r=r, max_r=r, min_c=cdim, max_c=cdim, values=values,
                           density=rng.choice([0.2, 0.5, 0.5, 0.8, 1.0]),
                           md=rng.choice(['none', 'num', 'num', 'group', 'text', 'obs', 'samp', 'partial', 'partial']))
        if kind in ('norm', 'normalize'):
            spec['mat'] = [[abs(v) for v in row] for row in spec['mat']]
        # CSR and CSC start layouts in equal parts
        if rng.random() < 0.5:
            spec['layout'] = [rng.choice(['csc', 'csc', 'dense', 'coo'])] + spec['layout'][1:] + [rng.choice(['colaccess', 'copy', 'nnz'])]
        _share_ids(rng, spec)
    c = {'kind': kind, 'spec': spec, 'axis': rng.choice(['observation', 'sample']), 'inplace': kind == 'normalize' or rng.random() < 0.5}
    if kind == 'normalize':
        c['rel'], c['pa'] = rng.choice([(True, False), (True, False), (False, True), (False, True), (False, False), (True, True)])
        # the click command itself (biom normalize-table), reading a JSON / HDF5 file
        c['via'] = rng.choice(['function', 'function', 'function', 'cli_json', 'cli_hdf5'])
        if c['via'] != 'function':
            _cli_md(spec)
    if kind == 'norm' or (kind == 'normalize' and c['rel']):
        # "every vector with a positive total sums to 1", however small the total: some vectors of the
        # normalised axis hold only tiny magnitudes (1e-20, 1e-300, denormals), next to ordinary ones
        if rng.random() < 0.4:
            nr, nc = len(spec['oids']), len(spec['sids'])
            n_ax = nr if c['axis'] == 'observation' else nc
            for v in range(n_ax):
                if rng.random() < 0.5:
                    base = rng.choice(TINY_BASES)
                    for w in range(nc if c['axis'] == 'observation' else nr):
                        i, j = (v, w) if c['axis'] == 'observation' else (w, v)
                        if spec['mat'][i][j] != 0:
                            spec['mat'][i][j] = base * rng.choice([1, 2, 3, 5, 8])
    if kind == 'pa' or (kind == 'normalize' and not c['rel']):
        # presence means "non-zero", however small: tiny magnitudes, denormals, negative tiny values,
        # and relative abundances of very uneven vectors (norm, then pa)
        r = rng.random()
        if r < 0.35:
            spec['mat'] = [[rng.choice(TINY) if v != 0 and rng.random() < 0.7 else v for v in row] for row in spec['mat']]
        elif r < 0.6:
            spec['mat'] = [[abs(v) * rng.choice([1.0, 1.0, 6.5e8, 3e11]) for v in row] for row in spec['mat']]
            c['prenorm'] = rng.choice(['observation', 'sample'])
    if kind == 'transform':
        c['fn'] = rng.choice(sorted(FUNCS) + ['plus1', 'plus1', 'relative', 'reverse', 'counter', 'counter', 'inplace_double', 'inplace_double'])
        if rng.random() < 0.15:
            c['prezero'] = rng.choice(['observation', 'sample'])
    elif kind == 'rank':
        c['method'] = rng.choice(RANK_METHODS)
    elif kind == 'axis_indep':
        c['fn'] = rng.choice(sorted(ELEMENTWISE))
    return c


def exhaustive_small():
    import itertools
    for vals in itertools.product([0.0, 1.0, -2.0], repeat=6):
        mat = [list(vals[0:3]), list(vals[3:6])]
        for lay in (['csr', ['via_sort_samp', [2, 0, 1]]], ['csc', 'colaccess']):
            spec = {'oids': ['o0', 'o1'], 'sids': ['s0', 's1', 's2'], 'mat': mat, 'omd': None, 'smd': None, 'type': None, 'layout': lay}
            for axis in ('observation', 'sample'):
                for fn in ('plus1', 'reverse', 'times_count'):
                    yield {'kind': 'transform', 'spec': spec, 'axis': axis, 'inplace': fn == 'plus1', 'fn': fn}


def gen(rng, tier):
    # history through a SIBLING table: every 5th function-level case first derives another table from the receiver by a
    # not-in-place transform, edits that table's metadata in place and drops it; the receiver must not notice
    for n_, c in enumerate(_gen(rng, tier)):
        if n_ % 5 == 2 and c['kind'] != 'axis_indep' and not _is_cli(c):
            c = dict(c, presibling=True)
        yield c


def _gen(rng, tier):
    n = 650 if tier == 'quick' else 6500
    for _ in range(n):
        yield gen_case(rng)
    # the command line entry point, systematically: both axes x -r / -p x JSON / HDF5 input
    for via in ('cli_json', 'cli_hdf5'):
        for axis in ('observation', 'sample'):
            for rel, pa in ((True, False), (False, True)):
                for _ in range(1 if tier == 'quick' else 12):
                    c = gen_case(rng, kind='normalize')
                    c.update(via=via, axis=axis, rel=rel, pa=pa)
                    c.pop('prenorm', None)
                    _cli_md(c['spec'])
                    if rel:
                        c['spec']['mat'] = [[float(abs(round(v * 64)) / 64) if abs(v) >= 1.0 / 64 else 0.0 for v in row] for row in c['spec']['mat']]
                    yield c
    if tier == 'thorough':
        for c in exhaustive_small():
            yield c


def nontrivial(c):
    M = _mat(c['spec'])
    n_ax = M.shape[0] if c.get('axis') == 'observation' else M.shape[1]
    return bool((M == 0).any() and (M != 0).any() and n_ax >= 2)


def classify(c):
    M = _mat(c['spec'])
    tags = ['kind:' + c['kind'], 'axis:' + str(c.get('axis')), 'inplace:' + str(c.get('inplace')),
            'layout0:' + str(c['spec']['layout'][0] if c['spec']['layout'] else 'dense'),
            'square' if M.shape[0] == M.shape[1] else 'non-square']
    try:
        tags.append('repr:' + T.layout_info(T.build(c['spec'])))
    except Exception:
        tags.append('repr:unbuildable')
    if c.get('prenorm'):
        tags.append('norm-then-op')
    if M.size and ((M != 0) & (np.abs(M) <= 1e-8)).any():
        tags.append('tiny-magnitudes')
    if set(c['spec']['oids']) & set(c['spec']['sids']):
        tags.append('ids-shared-between-axes')
    if c.get('prezero'):
        tags.append('zeroing-transform-then-op')
    if c['kind'] == 'normalize':
        tags.append('via:' + c.get('via', 'function'))
    for key in ('fn', 'method'):
        if key in c:
            tags.append('%s:%s' % (key, c[key]))
    st = _STASH.get(jhash(c))
    run = st.get('run') if isinstance(st, dict) and 'run' in st else None
    if run:
        p, ind = run['before']['indptr'], run['before']['indices']
        tags.append('kernel-got:' + run['before']['fmt'])
        if any(ind[p[i]:p[i + 1]] != sorted(ind[p[i]:p[i + 1]]) for i in range(len(p) - 1)):
            tags.append('kernel-saw-unsorted-indices')
        tags.append('kernel-own-arrays' if st['pre']['fmt'] == run['before']['fmt'] and c.get('inplace') else 'kernel-converted-or-copy')
    return tags


def shrink(c):
    s = c['spec']
    r, k = len(s['oids']), len(s['sids'])
    for i in range(r):
        if r > 1:
            yield dict(c, spec=dict(s, oids=s['oids'][:i] + s['oids'][i + 1:], mat=s['mat'][:i] + s['mat'][i + 1:],
                                    omd=None if s['omd'] is None else s['omd'][:i] + s['omd'][i + 1:], layout=[s['layout'][0]]))
    for j in range(k):
        if k > 1:
            yield dict(c, spec=dict(s, sids=s['sids'][:j] + s['sids'][j + 1:], mat=[row[:j] + row[j + 1:] for row in s['mat']],
                                    smd=None if s['smd'] is None else s['smd'][:j] + s['smd'][j + 1:], layout=[s['layout'][0]]))
    if s['layout'] and len(s['layout']) > 1:
        yield dict(c, spec=dict(s, layout=s['layout'][:-1]))
    if s.get('omd') or s.get('smd'):
        yield dict(c, spec=dict(s, omd=None, smd=None))
    if s.get('type'):
        yield dict(c, spec=dict(s, type=None))
    for i in range(r):
        for j in range(k):
            if s['mat'][i][j] not in (0.0, 1.0):
                m2 = [list(row) for row in s['mat']]
                m2[i][j] = 1.0
                yield dict(c, spec=dict(s, mat=m2))


SIGNATURES = {}
