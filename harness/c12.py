"""C12: subsampling (rarefaction) draws exactly n counts per vector, never inventing any.

Every case runs the REAL Table.subsample on a table built through a layout recipe, with the random
generator replaced by a recording subclass of numpy's Generator (same PCG64 stream as
np.random.default_rng(seed)).  What the generator returned (choice / multinomial / shuffle) and the
arrays the compiled kernel received are then handed to the model (coq/Model/Subsample.v):
  - content level: Table.subsample on the table content + the recorded layout + the recorded draws,
  - array level:   the kernel on the recorded (indptr, data) + the recorded draws,
and every observable is compared.  The model also reports whether the recorded draws met the
contracts the theorems assume (choice: n distinct values below the total; multinomial: non-negative,
sum n, zero where p = 0; shuffle: a permutation) and whether the recorded layout is a layout of
the table; both must be 'yes' on every case."""
import itertools
import json
import math
import os

import numpy as np

import biom.table as bt

from . import kernels
from . import tables as T
from .core import ROOT, canon, jhash

ID = 'C12'
RULE = ('count tables 1..5 x 1..5 (values 1,2,3,5,8,13,40,1000,2^31+7,2^40+1; whole vectors zeroed, single-entry vectors, '
        'n chosen equal to a vector total in ~40% of the cases, else 1..max total+1; in ~30% of the tables observation and sample ids overlap, fully or partially) x layout recipe (dense/csr/csc/coo/lists/'
        'csr with explicit zeros/csr with reversed indices, then sort_order round trips, transposes, column/row access, nnz, copy) '
        'x axis x {counts without replacement, with replacement, by id, refused arguments} x call form {keywords, positional in the documented order n/axis/by_id/with_replacement/seed, biom.util.generate_subsamples} x seed (recording Generator; the same '
        'call is repeated with the plain seed and must give the same table; a fixed sweep of 96 cases per run uses the seeds 0, numpy 0, 1, 2^32-1, 2^63-1 in every mode x axis x call form; the same '
        'call is repeated with the plain integer seed and must give the same table); the arrays the kernel received are replayed '
        'through the array-level model and, on the unchanged tree, through the interpreted .pyx; thorough adds every 2x2 and 2x3 '
        'matrix over {0,1,2,3} x both axes x n in 1..4 and the statistical test (20000 seeds, chi-square against the exact '
        'multivariate hypergeometric / multinomial / uniform-subset laws); non-trivial = some vector really loses counts '
        '(counts), some vector has counts (replacement), 0 < n < N (by id); distinct by case hash')
TRUSTED = ['hand-written model coq/Model/Subsample.v tied to biom/table.py:3034-3061 and biom/_subsample.pyx by this correspondence run',
           "numpy Generator contracts (hypotheses of the theorems, checked on every recorded draw): choice(total, n, replace=False) "
           "returns n distinct values in [0,total); multinomial(n, p) returns non-negative counts summing to n, zero where p = 0; "
           "shuffle permutes",
           'UNBIASEDNESS is not proven: walk_counts shows the result is the occupancy vector of the drawn unit positions, so "each unit '
           'equally likely" is exactly the uniformity of numpy\'s choice/shuffle/multinomial (trusted); the thorough tier runs a '
           'chi-square TEST of it (stats/C12-stat.json), which is a test, not a proof',
           'compiled kernels are the shipped .so (Cython absent); when _subsample.pyx differs from the pinned hash the harness runs '
           'the interpreted source instead (tools/decython.py); on the unchanged tree both are run on every case and must agree',
           'extraction (ExtrOcamlBasic only) + ocaml/driver_tail.ml, cross-checked against vm_compute on a sample']
from . import regen as _regen
regenerate = _regen.hook(TRUSTED, ['subsample'])   # py2v: regenerate coq/Gen/* from the source first
ASSUMPTIONS = ['counts are non-negative integers below 2^53 (astype(int64) and ceil are the identity; int64 overflow not modelled)',
               'n >= 1 for the property clauses (n < 0 and by_id with with_replacement are refusals; n = 0 is outside the property)',
               'a recording subclass of numpy.random.Generator over PCG64(seed) is the generator default_rng(seed) would build']

AX = {'observation': 0, 'sample': 1}
VALUES = [1, 1, 1, 2, 2, 3, 5, 8, 13, 40, 1000, 2 ** 31 + 7, 2 ** 40 + 1]
_STASH = {}
_INTERP = {}


# ---------------------------------------------------------------- recording generator
class Rec(np.random.Generator):
    """np.random.default_rng(seed) with a log of what the code under test was given"""

    def __init__(self, seed):
        super().__init__(np.random.PCG64(seed))
        self.log = []

    def choice(self, *a, **k):
        r = super().choice(*a, **k)
        self.log.append(['choice', [int(a[0]), int(a[1])], np.asarray(r).astype(object).tolist()])
        return r

    def multinomial(self, n, pvals, *a, **k):
        r = super().multinomial(n, pvals, *a, **k)
        self.log.append(['multinomial', [int(n), len(pvals)], np.asarray(r).astype(object).tolist()])
        return r

    def shuffle(self, x, *a, **k):
        r = super().shuffle(x, *a, **k)
        self.log.append(['shuffle', [], [str(i) for i in x]])
        return r


class Replay:
    """feeds recorded results back, for the interpreted kernel"""

    def __init__(self, log):
        self.log = list(log)

    def choice(self, *a, **k):
        return np.array(self.log.pop(0)[2], dtype=np.int64)

    def multinomial(self, n, pvals):
        if len(pvals) == 0 or not np.all(np.isfinite(pvals)):
            raise ValueError('pvals')
        return np.array(self.log.pop(0)[2], dtype=np.int64)


def _interp():
    if 'm' not in _INTERP:
        try:
            _INTERP['m'] = kernels._load('_subsample')
        except Exception as e:  # pragma: no cover
            _INTERP['m'] = None
            _INTERP['err'] = '%s: %s' % (type(e).__name__, e)
    return _INTERP['m']


# ---------------------------------------------------------------- implementation
def _ints(a):
    return [int(x) for x in a]


def _seed_value(c):
    """the seed as the user passes it: a python int, or (seedtype 'np_int64') a numpy integer"""
    return np.int64(c['seed']) if c.get('seedtype') == 'np_int64' else c['seed']


def _call(t, c, seed):
    """the call forms a user has: keywords; positionally in the documented order
    (n, axis, by_id, with_replacement, seed); the library's own wrapper biom.util.generate_subsamples,
    which forwards (n, axis, by_id) positionally and gives no seed: np.random.default_rng is
    replaced for the duration of that call so that the draws stay recordable"""
    form = c.get('call', 'keyword')
    if form == 'positional':
        return t.subsample(c['n'], c['axis'], c['by_id'], c['wr'], seed)
    if form == 'generate':
        from biom.util import generate_subsamples
        real = np.random.default_rng

        def fake(s=None):
            return seed if isinstance(seed, np.random.Generator) else real(seed)
        np.random.default_rng = fake
        try:
            return next(generate_subsamples(t, c['n'], axis=c['axis'], by_id=c['by_id']))
        finally:
            np.random.default_rng = real
    return t.subsample(c['n'], axis=c['axis'], by_id=c['by_id'], with_replacement=c['wr'], seed=seed)


def run_impl(c):
    try:
        return _run_impl(c)
    except Exception as e:  # pragma: no cover - harness bug or crash outside the call under test
        return {'crash': [type(e).__name__, str(e)[:300]]}


def _run_impl(c):
    if c['kind'] == 'stat':
        return _run_stat(c)
    t = T.build(c['spec'])
    rec = Rec(_seed_value(c))
    seen = {}
    real = bt.subsample

    def spy(arr, n, with_replacement, rng):
        seen['indptr'] = _ints(arr.indptr)
        seen['indices'] = _ints(arr.indices)
        seen['before'] = [float(x) for x in arr.data]
        seen['args'] = [int(n), bool(with_replacement)]
        try:
            real(arr, n, with_replacement, rng)
        except Exception as e:
            seen['after'] = ['err', T.err_code(e)]
            raise
        seen['after'] = [float(x) for x in arr.data]
    bt.subsample = spy
    try:
        try:
            r = _call(t, c, rec)
            res = ['ok', T.norm_snap(T.snapshot(r))]
            stored_zeros = int((r.matrix_data.data == 0).sum())
        except Exception as e:
            r, res, stored_zeros = None, ['err', T.err_code(e)], 0
    finally:
        bt.subsample = real
    obs = {'result': res, 'receiver': T.norm_snap(T.snapshot(t)), 'layout_ok': True, 'contract_ok': True,
           'stored_zeros': stored_zeros, 'kernel': None}
    # the same seed as a plain integer gives the same table
    try:
        r2 = _call(T.build(c['spec']), c, _seed_value(c))
        res2 = ['ok', T.norm_snap(T.snapshot(r2))]
    except Exception as e:
        res2 = ['err', T.err_code(e)]
    obs['same_seed'] = canon(res2) == canon(res)
    if 'before' in seen:
        obs['kernel'] = {'data': seen['after'], 'draws_left': 0, 'in_bounds': True}
        # on the unchanged tree the interpreted .pyx must agree with the compiled kernel
        m = _interp()
        if m is not None and '_subsample' not in kernels.STATE['patched']:
            from scipy.sparse import csr_matrix
            a2 = csr_matrix((np.array(seen['before'], dtype=float), np.array(seen['indices'], dtype=np.int32),
                             np.array(seen['indptr'], dtype=np.int32)),
                            shape=(len(seen['indptr']) - 1, max(seen['indices'] + [0]) + 1))
            try:
                m.subsample(a2, seen['args'][0], seen['args'][1], Replay(rec.log))
                after2 = [float(x) for x in a2.data]
            except Exception as e:
                after2 = ['err', T.err_code(e)]
            obs['shim_agrees'] = after2 == seen['after']
        else:
            obs['shim_agrees'] = True if m is not None else _INTERP.get('err', 'no interpreter')
    else:
        obs['shim_agrees'] = True
    _STASH[jhash(c)] = {'log': rec.log, 'seen': seen}
    return obs


# ---------------------------------------------------------------- wire
class CountCoder(T.Coder):
    """counts travel unscaled"""

    def val(self, v):
        if v != int(v):
            raise ValueError('count %r is not an integer' % v)
        return int(v)

    def unval(self, k):
        return float(k)


def _coder(c):
    return CountCoder(T.spec_universe(c['spec']))


def _recorded(c):
    st = _STASH.get(jhash(c))
    if st is None:          # encode is always called after run_impl; be safe anyway
        run_impl(c)
        st = _STASH.get(jhash(c), {'log': [], 'seen': {}})
    return st


def encode(c):
    if c['kind'] == 'stat':
        return [1, 0, 0, [0], [], []]
    cd = _coder(c)
    st = _recorded(c)
    log, seen = st['log'], st['seen']
    if c['by_id']:
        draws = [[cd.id(i) for i in e[2]] for e in log if e[0] == 'shuffle'][:1]
    elif c['wr']:
        draws = [e[2] for e in log if e[0] == 'multinomial']
    else:
        draws = [sorted(e[2]) for e in log if e[0] == 'choice']
    lay = []
    if 'indptr' in seen:
        p = seen['indptr']
        lay = [seen['indices'][p[i]:p[i + 1]] for i in range(len(p) - 1)]
    tb = cd.table(T.spec_content(c['spec']))
    top = [0, tb, c['n'], AX[c['axis']], int(c['by_id']), int(c['wr']), lay, draws]
    if 'before' in seen:
        kern = [1, int(c['wr']), max(c['n'], 0), seen['indptr'], [cd.val(v) for v in seen['before']], draws]
        return [5, top, kern]
    return top


def decode(tree, c):
    if c['kind'] == 'stat':
        return {'stat': True}
    cd = _coder(c)
    kern = None
    if _recorded(c)['seen'].get('before') is not None:
        tree, k = tree
        if k and k[0] == -1:
            kern = {'data': ['err', k[1]], 'draws_left': 0, 'in_bounds': True}
        elif c['wr']:
            kern = {'data': [float(v) for v in k[1]], 'draws_left': 0, 'in_bounds': True}
        else:
            kern = {'data': [float(v) for v in k[0]], 'draws_left': k[1], 'in_bounds': bool(k[2])}
    recv, res, lay_ok, contract_ok = tree
    if res[0] == -1:
        result = ['err', res[1]]
    else:
        result = ['ok', T.norm_snap(cd.untable(res[1]))]
    return {'result': result, 'receiver': T.norm_snap(cd.untable(recv)), 'layout_ok': bool(lay_ok),
            'contract_ok': bool(contract_ok), 'stored_zeros': 0, 'kernel': kern, 'same_seed': True, 'shim_agrees': True}


# ---------------------------------------------------------------- oracle (the property text, numpy reference)
def _mat(spec):
    return np.array(spec['mat'], dtype=float).reshape(len(spec['oids']), len(spec['sids']))


def oracle(c, obs):
    if 'crash' in obs:
        return ['harness/implementation crashed: %s' % obs['crash']]
    if c['kind'] == 'stat':
        return [] if obs.get('stat') else ['statistical test failed, see stats/C12-stat.json']
    fails = []
    spec = c['spec']
    want_recv = canon(T.norm_snap(T.spec_content(spec)))
    if obs['receiver'] != want_recv:
        fails.append('the input table was modified by subsample')
    if not obs['same_seed']:
        fails.append('the same seed gave a different result')
    if obs['shim_agrees'] is not True:
        fails.append('interpreted _subsample.pyx and compiled kernel differ on the same arrays and draws (%s)' % obs['shim_agrees'])
    res = obs['result']
    n, axis = c['n'], c['axis']
    if n < 0 or (c['by_id'] and c['wr']):
        if res != ['err', 5]:
            fails.append('n=%d by_id=%s with_replacement=%s was not refused with ValueError: %s' % (n, c['by_id'], c['wr'], res[:1]))
        return fails
    if res[0] != 'ok':
        return fails + ['subsample(n=%d, axis=%s, by_id=%s, with_replacement=%s) raised error code %s'
                        % (n, axis, c['by_id'], c['wr'], res[1])]
    r = res[1]
    if obs['stored_zeros']:
        fails.append('the result stores %d explicit zeros' % obs['stored_zeros'])
    M = _mat(spec)
    R = np.array(r['mat'], dtype=float).reshape(len(r['oids']), len(r['sids']))
    ax, ot = ('oids', 'sids') if axis == 'observation' else ('sids', 'oids')
    if axis == 'sample':
        M, R = M.T, R.T            # rows = vectors of the sampled axis
    ids, oth = spec[ax], spec[ot]
    totals = M.sum(axis=1)
    # ids on both axes are sub-sequences of the original ids
    def subseq(a, b):
        it = iter(b)
        return all(x in it for x in a)
    if not subseq(r[ax], ids) or not subseq(r[ot], oth):
        return fails + ['result ids %s / %s are not sub-sequences of the original ids' % (r[ax], r[ot])]
    rows = [ids.index(x) for x in r[ax]]
    cols = [oth.index(y) for y in r[ot]]
    O = M[np.ix_(rows, cols)] if rows and cols else np.zeros((len(rows), len(cols)))
    if c['by_id']:
        if len(r[ax]) != min(n, len(ids)):
            fails.append('by_id kept %d ids, expected min(n, N) = %d' % (len(r[ax]), min(n, len(ids))))
        if not np.array_equal(R, O):
            fails.append('by_id changed values of retained cells')
        # other-axis vectors all-zero over the kept ids are dropped, the others kept
        keep = [y for j, y in enumerate(oth) if rows and M[rows, j].sum() > 0]
        if r[ot] != keep:
            fails.append('other-axis ids %s, expected those non-empty over the kept ids %s' % (r[ot], keep))
    else:
        if c['wr']:
            want = [x for x, s in zip(ids, totals) if s > 0]
        else:
            want = [x for x, s in zip(ids, totals) if s >= n]
        if r[ax] != want:
            fails.append('retained %s ids %s, expected %s (totals %s, n=%d)' % (axis, r[ax], want, totals.tolist(), n))
        if R.size and (R != np.floor(R)).any() or (R < 0).any():
            fails.append('result holds a negative or fractional value')
        for k, x in enumerate(r[ax]):
            if R[k].sum() != n:
                fails.append('vector %s sums to %r, expected exactly %d' % (x, R[k].sum(), n))
        if c['wr']:
            if ((R != 0) & (O == 0)).any():
                fails.append('with replacement: a cell is non-zero where the original was zero')
        elif (R > O).any():
            fails.append('a cell exceeds its original count')
        if R.size and (R.sum(axis=0) == 0).any():
            fails.append('an all-zero vector of the other axis was kept')
    md_ax, md_ot = ('omd', 'smd') if axis == 'observation' else ('smd', 'omd')
    sc = T.spec_content(spec)
    for key, idk, kept in ((md_ax, ax, r[ax]), (md_ot, ot, r[ot])):
        want_md = None if sc[key] is None else [sc[key][sc[idk].index(x)] for x in kept]
        if want_md is not None and not any(want_md):
            want_md = None         # Table.filter ends with _cast_metadata: entries all empty -> None
        if canon(r[key]) != canon(want_md):
            fails.append('metadata on %s did not travel with its ids' % idk)
    if r['type'] != sc['type']:
        fails.append('type changed')
    return fails[:5]


# ---------------------------------------------------------------- statistical test (thorough only)
def _chi2(observed, expected):
    return sum((o - e) ** 2 / e for o, e in zip(observed, expected))


def _run_stat(c):
    """20000 seeds on one 4 x 3 table; every vector's outcome distribution against the exact law.
    Deterministic (fixed seed list); bound = dof + 6*sqrt(2*dof) (about 6 sigma of a chi-square)."""
    from collections import Counter
    from biom import Table
    cols = [[3, 2, 1, 0], [5, 1, 0, 0], [2, 2, 2, 1]]
    n, seeds = 3, range(c.get('seeds', 20000))
    t = Table(np.array(cols, dtype=float).T, ['o%d' % i for i in range(4)], ['s%d' % j for j in range(3)])
    report = {'seeds': len(seeds), 'tests': []}
    ok = True

    def law_hyper(a):
        N = sum(a)
        out = {}
        for x in itertools.product(*[range(v + 1) for v in a]):
            if sum(x) == n:
                out[x] = math.prod(math.comb(v, k) for v, k in zip(a, x)) / math.comb(N, n)
        return out

    def law_multi(a):
        N = sum(a)
        out = {}
        for x in itertools.product(range(n + 1), repeat=len(a)):
            if sum(x) == n and all(k == 0 or v > 0 for v, k in zip(a, x)):
                out[x] = math.factorial(n) / math.prod(math.factorial(k) for k in x) * math.prod((v / N) ** k for v, k in zip(a, x))
        return out
    for mode, law in (('without', law_hyper), ('with', law_multi)):
        counts = [Counter() for _ in cols]
        for s in seeds:
            r = t.subsample(n, with_replacement=(mode == 'with'), seed=s)
            full = {o: i for i, o in enumerate(t.ids(axis='observation'))}
            for j, sid in enumerate(t.ids()):
                v = [0] * 4
                if sid in r.ids():
                    d = r.data(sid, axis='sample')
                    for o, x in zip(r.ids(axis='observation'), d):
                        v[full[o]] = int(x)
                counts[j][tuple(v)] += 1
        for j, a in enumerate(cols):
            L = law(a)
            keys = sorted(L)
            exp = [L[k] * len(seeds) for k in keys]
            obsv = [counts[j].get(k, 0) for k in keys]
            stray = sum(counts[j].values()) - sum(obsv)
            dof = len(keys) - 1
            x2 = _chi2(obsv, exp)
            bound = dof + 6 * math.sqrt(2 * dof)
            good = stray == 0 and x2 <= bound
            ok &= good
            report['tests'].append({'mode': mode, 'vector': a, 'n': n, 'outcomes': len(keys), 'chi2': round(x2, 2),
                                    'bound': round(bound, 2), 'impossible_outcomes_seen': stray, 'pass': good})
    # by id: every 2-subset of 3 sample ids equally likely
    cnt = Counter()
    for s in seeds:
        cnt[tuple(t.subsample(2, by_id=True, seed=s).ids())] += 1
    keys = [('s0', 's1'), ('s0', 's2'), ('s1', 's2')]
    x2 = _chi2([cnt.get(k, 0) for k in keys], [len(seeds) / 3.0] * 3)
    good = set(cnt) <= set(keys) and x2 <= 2 + 6 * 2
    ok &= good
    report['tests'].append({'mode': 'by_id', 'subsets': {'/'.join(k): cnt.get(k, 0) for k in keys}, 'chi2': round(x2, 2), 'bound': 14, 'pass': good})
    report['pass'] = ok
    os.makedirs(os.path.join(ROOT, 'evidence'), exist_ok=True)
    os.makedirs(os.path.join(ROOT, 'stats'), exist_ok=True)
    json.dump(report, open(os.path.join(ROOT, 'stats', 'C12-stat.json'), 'w'), indent=1)
    print('C12 statistical test (a TEST, not part of the proof): %d seeds, %d chi-square comparisons, %s'
          % (len(seeds), len(report['tests']), 'all within bounds' if ok else 'FAILED'))
    return {'stat': ok}


# ---------------------------------------------------------------- generation
def _rand_counts(rng, r, c):
    dens = rng.choice([0.3, 0.6, 0.6, 0.9, 1.0])
    big = rng.random() < 0.15
    vals = VALUES if big else VALUES[:10]
    M = [[float(rng.choice(vals)) if rng.random() < dens else 0.0 for _ in range(c)] for _ in range(r)]
    if rng.random() < 0.35 and r:
        i = rng.randrange(r)
        M[i] = [0.0] * c                                   # an all-zero observation
    if rng.random() < 0.35 and c:
        j = rng.randrange(c)
        for row in M:
            row[j] = 0.0                                   # an all-zero sample
    if rng.random() < 0.25 and r and c:
        i, j = rng.randrange(r), rng.randrange(c)          # a single-entry vector
        M[i] = [0.0] * c
        M[i][j] = float(rng.choice([1, 2, 7]))
    return M


def _share_ids(rng, spec):
    """observation and sample ids are separate namespaces: in ~30 % of the tables the same strings
    name vectors on both axes (numeric ids '1','2',... on both; fully or partially, in any order)"""
    u = rng.random()
    if u >= 0.3:
        return
    r, c = len(spec['oids']), len(spec['sids'])
    pool = [str(k + 1) for k in range(max(r, c))]
    if u < 0.15:                       # fully: both axes draw from the same numeric pool
        spec['oids'] = rng.sample(pool, r)
        spec['sids'] = rng.sample(pool, c)
    else:                              # partially: some sample ids are replaced by observation ids
        take = rng.sample(spec['oids'], min(r, c, rng.randint(1, 3)))
        pos = rng.sample(range(c), len(take))
        for k, x in zip(pos, take):
            spec['sids'][k] = x


def gen_case(rng, kind=None, spec=None, axis=None, n=None):
    if spec is None:
        r, c = rng.randint(1, 5), rng.randint(1, 5)
        spec = T.rand_spec(rng, min_r=r, max_r=r, min_c=c, max_c=c, values='counts',
                           md=rng.choice(['none', 'none', 'group', 'text', 'obs', 'samp', 'partial', 'partial']))
        spec['mat'] = _rand_counts(rng, r, c)
        _share_ids(rng, spec)
    axis = axis or rng.choice(['observation', 'sample'])
    kind = kind or rng.choice(['counts'] * 11 + ['replace'] * 4 + ['by_id'] * 4 + ['refuse'])
    M = _mat(spec)
    totals = (M.sum(axis=1) if axis == 'observation' else M.sum(axis=0)).tolist()
    N = len(totals)
    if n is None:
        if kind == 'by_id':
            n = rng.randint(1, N + 2)
        else:
            # depths stay small: rng.choice(total, n) materialises O(n) (or O(total)) integers
            pos = [int(x) for x in totals if 0 < x <= 200]
            if pos and rng.random() < 0.4:
                n = rng.choice(pos)                        # a total equal to n
            elif pos:
                n = rng.randint(1, min(max(pos) + 1, 60))
            else:
                n = rng.randint(1, 3)
    c = {'kind': kind, 'spec': spec, 'axis': axis, 'n': int(n), 'by_id': kind == 'by_id', 'wr': kind == 'replace',
         'seed': rng.randrange(2 ** 32)}
    c['call'] = rng.choice(['keyword', 'keyword', 'positional', 'positional', 'generate'])
    if c['call'] == 'generate' and kind not in ('counts', 'by_id'):
        c['call'] = 'positional'          # the wrapper has no with_replacement option
    if kind == 'refuse':
        if rng.random() < 0.5:
            c['n'] = -rng.randint(1, 3)
            c['by_id'], c['wr'] = rng.random() < 0.3, False
        else:
            c['by_id'] = c['wr'] = True
    return c


def exhaustive_small():
    for r, cdim in ((2, 2), (2, 3)):
        for vals in itertools.product([0.0, 1.0, 2.0, 3.0], repeat=r * cdim):
            mat = [list(vals[i * cdim:(i + 1) * cdim]) for i in range(r)]
            spec = {'oids': ['o%d' % i for i in range(r)], 'sids': ['s%d' % i for i in range(cdim)], 'mat': mat,
                    'omd': None, 'smd': None, 'type': None, 'layout': ['csr', ['via_sort_samp', list(range(cdim))[::-1]]]}
            k = sum(int(v) for v in vals)
            for axis in ('observation', 'sample'):
                for n in (1, 2, 3, 4):
                    yield {'kind': 'counts', 'spec': spec, 'axis': axis, 'n': n, 'by_id': False, 'wr': False, 'seed': 1000 + k * 7 + n}


SEED_TABLE = [[40.0, 13.0, 8.0, 5.0, 0.0, 21.0], [21.0, 40.0, 13.0, 8.0, 5.0, 0.0], [0.0, 21.0, 40.0, 13.0, 8.0, 5.0],
              [5.0, 0.0, 21.0, 40.0, 13.0, 8.0], [8.0, 5.0, 0.0, 21.0, 40.0, 13.0], [13.0, 8.0, 5.0, 0.0, 21.0, 40.0]]
BOUNDARY_SEEDS = [(0, 'int'), (0, 'np_int64'), (1, 'int'), (2 ** 32 - 1, 'int'), (2 ** 63 - 1, 'int'), (2 ** 63 - 1, 'np_int64')]


def seed_sweep():
    """same seed -> same result, systematically: falsy-looking and boundary seeds (0, numpy 0, 1,
    2^32-1, 2^63-1) x every mode x both axes x every call form, on a 6 x 6 table with enough counts
    that two unrelated draws practically never coincide; each case repeats the call with the plain
    seed and compares (observable same_seed)"""
    spec = {'oids': ['o%d' % i for i in range(6)], 'sids': ['s%d' % i for i in range(6)], 'mat': SEED_TABLE,
            'omd': None, 'smd': None, 'type': None, 'layout': ['dense']}
    for seed, st in BOUNDARY_SEEDS:
        for kind, n in (('counts', 30), ('replace', 30), ('by_id', 3)):
            for axis in ('observation', 'sample'):
                for call in ('keyword', 'positional', 'generate'):
                    if call == 'generate' and kind == 'replace':
                        continue
                    yield {'kind': kind, 'spec': spec, 'axis': axis, 'n': n, 'by_id': kind == 'by_id', 'wr': kind == 'replace',
                           'seed': seed, 'seedtype': st, 'call': call}


def gen(rng, tier):
    n = 700 if tier == 'quick' else 7000
    for c in seed_sweep():
        yield c
    for _ in range(n):
        yield gen_case(rng)
    if tier == 'thorough':
        for c in exhaustive_small():
            yield c
        yield {'kind': 'stat', 'seeds': 20000}


def key(c):
    return c


def nontrivial(c):
    if c['kind'] == 'stat':
        return True
    M = _mat(c['spec'])
    totals = M.sum(axis=1) if c['axis'] == 'observation' else M.sum(axis=0)
    if c['kind'] == 'counts':
        return bool((totals > c['n']).any())
    if c['kind'] == 'replace':
        return bool((totals > 0).any())
    if c['kind'] == 'by_id':
        return 0 < c['n'] < len(totals)
    return True


def classify(c):
    if c['kind'] == 'stat':
        return ['kind:stat']
    M = _mat(c['spec'])
    totals = M.sum(axis=1) if c['axis'] == 'observation' else M.sum(axis=0)
    tags = ['kind:' + c['kind'], 'call:' + c.get('call', 'keyword')] + (['boundary-seed:%s/%s' % (c['seed'], c['seedtype'])] if 'seedtype' in c else []) + [ 'axis:' + c['axis'], 'layout0:' + str(c['spec']['layout'][0] if c['spec']['layout'] else 'dense'),
            'shape:%dx%d' % M.shape]
    try:
        tags.append('repr:' + T.layout_info(T.build(c['spec'])))
    except Exception:
        tags.append('repr:unbuildable')
    if (totals == 0).any():
        tags.append('has-all-zero-vector-on-axis')
    if (totals == c['n']).any():
        tags.append('has-total-equal-n')
    if (totals < c['n']).any() and (totals > 0).any():
        tags.append('has-total-below-n')
    nz = (M != 0).sum(axis=1) if c['axis'] == 'observation' else (M != 0).sum(axis=0)
    if (nz == 1).any():
        tags.append('has-single-entry-vector')
    if M.size and M.max() >= 2 ** 31:
        tags.append('large-counts')
    if set(c['spec']['oids']) & set(c['spec']['sids']):
        tags.append('ids-shared-between-axes')
    st = _STASH.get(jhash(c))
    if st and 'indptr' in st['seen']:
        p, ind = st['seen']['indptr'], st['seen']['indices']
        if any(ind[p[i]:p[i + 1]] != sorted(ind[p[i]:p[i + 1]]) for i in range(len(p) - 1)):
            tags.append('kernel-saw-unsorted-indices')
    return tags


def shrink(c):
    if c['kind'] == 'stat':
        return
    s = c['spec']
    r, k = len(s['oids']), len(s['sids'])
    for i in range(r):
        if r > 1:
            yield dict(c, spec=dict(s, oids=s['oids'][:i] + s['oids'][i + 1:], mat=s['mat'][:i] + s['mat'][i + 1:],
                                    omd=None if s['omd'] is None else s['omd'][:i] + s['omd'][i + 1:], layout=['csr']))
    for j in range(k):
        if k > 1:
            yield dict(c, spec=dict(s, sids=s['sids'][:j] + s['sids'][j + 1:], mat=[row[:j] + row[j + 1:] for row in s['mat']],
                                    smd=None if s['smd'] is None else s['smd'][:j] + s['smd'][j + 1:], layout=['csr']))
    if s['layout'] and len(s['layout']) > 1:
        yield dict(c, spec=dict(s, layout=s['layout'][:-1]))
    if s['layout'] and s['layout'] != ['dense']:
        yield dict(c, spec=dict(s, layout=['dense']))
    if s.get('omd') or s.get('smd'):
        yield dict(c, spec=dict(s, omd=None, smd=None))
    if s.get('type'):
        yield dict(c, spec=dict(s, type=None))
    for i in range(r):
        for j in range(k):
            v = s['mat'][i][j]
            if v > 1:
                m2 = [list(row) for row in s['mat']]
                m2[i][j] = float(max(1, int(v) // 2))
                yield dict(c, spec=dict(s, mat=m2))
    if c['n'] > 1:
        yield dict(c, n=c['n'] - 1)
    if c['seed'] > 3 and 'seedtype' not in c:
        yield dict(c, seed=c['seed'] % 3)


SIGNATURES = {}
