"""C07: non-in-place operations never modify their inputs; in-place is equivalent (PARTIAL: see docs/C07.md)."""
import copy as _copy

import numpy as np

from . import tables as T
from .c06 import apply_pre
from .core import canon, jhash

ID = 'C07'
RULE = ('every operation with an inplace flag (filter by ids given as list / tuple / set / dict keys / array / ONE-SHOT iterables (generator, iter, map) / by function, transform, norm, pa, rankdata, remove_empty, update_ids) x '
        'inplace in {True, False}, every operation documented to return a new table (sort, sort_order (order as list or as a view of the '
        "receiver's own id array), transpose, copy, head, subsample (by count / by id), partition, collapse, merge, concat, align_to) and "
        'the two mutators add_metadata / del_metadata, and the export to_dataframe (dense / sparse, after a layout-changing read access; '
        'later in-place operations on the table must not show in the frame nor writes into the frame in the table), x both axes (remove_empty/del_metadata also whole) x layout recipes that leave the '
        'receiver in CSR or CSC (unsorted indices, histories) x metadata of each axis in {none, flat, with nested lists} for receiver and '
        'argument table; flag operations also after an earlier IN-PLACE thresholding transform of the receiver (history), with user '
        'functions that look at all the values they are handed (rankdata, v - min(v), len(v)); collapse also one_to_many (divide / add) '
        'on tables with 1-2 vectors or one dominant vector whose ids belong to two groups. Per call: deep snapshots of receiver and argument before/after, identity of the returned object, in-place '
        'content == non-in-place content (two fresh builds), the real aliasing relation (np.shares_memory on matrix/id arrays, `is` on '
        'metadata dicts and nested values) against the Share/Fresh pattern of the Coq effect model, the receiver layout afterwards; then '
        'the result is mutated in place (transform, add_metadata, del_metadata, dict item assignment, update_ids, matrix_data.data[:] = .., '
        'filter, remove_empty, add_group_metadata) and the inputs (content AND group metadata) are re-snapshotted after every step; '
        'receivers carry group metadata (add_group_metadata, or read back from HDF5) in a third of the cases; merge is also called with an '
        'empty list / tuple of others (fast and general path); raw writes into id arrays / nested metadata values are '
        'recorded separately. non-trivial = table with >= 2 ids on both axes and a non-zero entry; distinct by case hash')
TRUSTED = ['PARTIAL: the effect signatures coq/Model/Effects.v are a hand abstraction of CPython object identity; they are tied to '
           'biom/table.py only by this run (observed aliasing must equal the predicted one on every case)',
           'content models of filter / remove_empty / update_ids are those of C08 / C06; transform, norm, pa, rankdata are covered at the '
           'content level by the generic pattern theorem for an arbitrary content function',
           'compiled kernels are the shipped .so (or the interpreted .pyx when it changed, tools/decython.py)']
ASSUMPTIONS = ['user functions (filter predicates, transform functions, partition functions) are deterministic and do not keep references '
               'to their arguments',
               'writing through t.ids() or into a value nested in a metadata dict is not an operation of the Table API '
               '(id_arrays_never_written); such raw writes DO show through shared views and are reported as a candidate finding, not as a failure']

OPS = ['filter', 'transform', 'norm', 'pa', 'rankdata', 'remove_empty', 'update_ids', 'sort', 'sort_order', 'transpose', 'copy', 'head',
       'subsample', 'partition', 'collapse', 'merge', 'concat', 'align_to', 'add_metadata', 'del_metadata', 'to_dataframe']
FLAG_OPS = OPS[:7]
MUTATORS = OPS[18:20]
AX3 = {'observation': 0, 'sample': 1, 'whole': 2}
MDK = {'none': 0, 'flat': 1, 'nested': 2}
COMPS = ['M', 'IdO', 'IdS', 'DictO', 'DictS', 'ValO', 'ValS']
TBLS = {0: 'recv', 1: 'arg'}
TF = {
    'double': lambda v, i, m: v * 2,
    'plus1': lambda v, i, m: v + 1,
    'negate': lambda v, i, m: -v,
    'zero_first': lambda v, i, m: np.where(np.arange(len(v)) == 0, 0.0, v),
    # functions that look at ALL the values they are handed (stored zeros would change their answer)
    'sub_min': lambda v, i, m: (v - v.min() + 1) if len(v) else v,
    'count': lambda v, i, m: np.full(len(v), float(len(v))),
}
THRESHOLD = 2.0


def _apply_hist(t, hist):
    """an earlier IN-PLACE operation in the receiver's history: ['threshold', axis] zeroes the values below THRESHOLD
    (the kernel writes zeros into the stored values; whether they stay stored is the library's business)"""
    if hist and hist[0] == 'threshold':
        t.transform(lambda v, i, m: np.where(v < THRESHOLD, 0.0, v), axis=hist[1], inplace=True)
    if hist and hist[0] == 'access':       # read-only accesses that leave the matrix in another layout
        k = hist[1]
        try:
            _access(t, k)
        except ValueError:      # min / max of a vector without stored values (C19's business)
            pass
    return t


def _access(t, k):
    if True:
        if k == 'data_sample':
            t.data(t.ids()[0], axis='sample')
        elif k == 'iter_sample':
            list(t.iter(axis='sample'))
        elif k == 'min_sample':
            t.min(axis='sample')
        elif k == 'max_observation':
            t.max(axis='observation')
        elif k == 'iter_observation':
            list(t.iter(axis='observation', dense=False))


def _eff_spec(c):
    """content of the receiver when the operation under test starts"""
    s = c['spec']
    if c.get('hist') and c['hist'][0] == 'threshold':
        return dict(s, mat=[[0.0 if v < THRESHOLD else v for v in row] for row in s['mat']])
    return s

_STASH = {}


# ---------------------------------------------------------------- metadata kinds
def _mk_md(kind, ids, tag):
    if kind == 'none':
        return None
    if kind == 'flat':
        return [{'g': 'g%d' % (k % 2), 'n': '%s%d' % (tag, k)} for k, _ in enumerate(ids)]
    return [{'g': 'g%d' % (k % 2), 'taxonomy': ['k__%s' % tag, 'p__%d' % k]} for k, _ in enumerate(ids)]


def _other_axis(a):
    return 'sample' if a == 'observation' else 'observation'


# ---------------------------------------------------------------- observation of the real objects
def _nested(md):
    out = []
    for d in (md or ()):
        if d is not None:
            out += [v for v in d.values() if isinstance(v, (list, dict, set, np.ndarray))]
    return out


def _components(t):
    d = t.matrix_data
    omd, smd = t.metadata(axis='observation'), t.metadata(axis='sample')
    return {'M': [d.data, d.indices, d.indptr], 'IdO': t.ids(axis='observation'), 'IdS': t.ids(axis='sample'),
            'DictO': [x for x in (omd or ()) if x is not None], 'DictS': [x for x in (smd or ()) if x is not None],
            'ValO': _nested(omd), 'ValS': _nested(smd)}


def _shares(c, a, c2, b):
    if c == 'M':
        return c2 == 'M' and any(np.shares_memory(x, y) for x in a for y in b)
    if c.startswith('Id'):
        return c2.startswith('Id') and bool(np.shares_memory(a, b))
    if c.startswith('Dict'):
        return c2.startswith('Dict') and any(x is y for x in a for y in b)
    return c2.startswith('Val') and any(x is y for x in a for y in b)


def _alias(res, sources):
    """[[component of the result, input table, its component], ...] that are the same object / overlap in memory"""
    rc = _components(res)
    out = []
    for c in COMPS:
        for name, comps in sources:
            for c2 in COMPS:
                if comps is not None and _shares(c, rc[c], c2, comps[c2]):
                    out.append([c, name, c2])
    return sorted(out)


def _snap(t):
    return canon(T.norm_snap(T.snapshot(t)))


# ---------------------------------------------------------------- the calls
def _group_f(ids):
    grp = {i: 'grp%d' % (k % 2) for k, i in enumerate(ids)}
    return lambda id_, md: grp[str(id_)]


def _call(c, t, other):
    op, ax, a = c['op'], c.get('axis'), c.get('args', {})
    ip = c.get('inplace', False)
    if op == 'filter':
        keep = list(a['keep'])
        if a.get('as_function'):
            ks = set(keep)
            return t.filter(lambda v, i, m: i in ks, axis=ax, invert=a['invert'], inplace=ip)
        # one-shot iterables: a new one per call, it can be read once only
        coll = {'generator': lambda: (x for x in keep), 'iter': lambda: iter(keep), 'map': lambda: map(str, keep),
                'tuple': lambda: tuple(keep), 'set': lambda: set(keep), 'dictkeys': lambda: {x: 1 for x in keep}.keys(),
                'array': lambda: np.array(keep, dtype=object)}.get(a.get('ctype'), lambda: keep)()
        return t.filter(coll, axis=ax, invert=a['invert'], inplace=ip)
    if op == 'transform':
        return t.transform(TF[a['f']], axis=ax, inplace=ip)
    if op == 'norm':
        return t.norm(axis=ax, inplace=ip)
    if op == 'pa':
        return t.pa(inplace=ip)
    if op == 'rankdata':
        return t.rankdata(axis=ax, inplace=ip)
    if op == 'remove_empty':
        return t.remove_empty(axis=ax, inplace=ip)
    if op == 'update_ids':
        return t.update_ids(dict((x, y) for x, y in a['id_map']), axis=ax, strict=a['strict'], inplace=ip)
    if op == 'sort':
        return t.sort(axis=ax)
    if op == 'sort_order':
        if a.get('view'):
            return t.sort_order(t.ids(axis=ax)[::-1], axis=ax)
        return t.sort_order(list(a['order']), axis=ax)
    if op == 'transpose':
        return t.transpose()
    if op == 'copy':
        return t.copy()
    if op == 'head':
        return t.head(a['n'], a['m'])
    if op == 'subsample':
        return t.subsample(a['n'], axis=ax, by_id=a.get('by_id', False), seed=a.get('seed', 7))
    if op == 'partition':
        return [tab for _, tab in t.partition(_group_f([str(i) for i in t.ids(axis=ax)]), axis=ax)]
    if op == 'collapse':
        if a.get('otm'):
            # one-to-many: every other id belongs to two groups
            groups = {str(i): (['grpA', 'grpB'] if k % 2 == 0 else ['grpB']) for k, i in enumerate(t.ids(axis=ax))}

            def otm_f(id_, md):
                for g in groups[str(id_)]:
                    yield (('path', g), g)
            return t.collapse(otm_f, norm=False, one_to_many=True, one_to_many_mode=a['otm'], axis=ax)
        return t.collapse(_group_f([str(i) for i in t.ids(axis=ax)]), norm=False, axis=ax)
    if op == 'merge':
        if a.get('others') is not None:     # an EMPTY collection of others: tables[0].merge(tables[1:]) with one table
            return t.merge([] if a['others'] == 'list' else (), sample=a.get('how', 'union'))
        return t.merge(other)
    if op == 'concat':
        return t.concat([other], axis=ax)
    if op == 'align_to':
        return t.align_to(other, axis=a['mode'])
    if op == 'add_metadata':
        ids = [str(i) for i in t.ids(axis=ax)]
        t.add_metadata({ids[0]: {'added': 'yes'}}, axis=ax)
        return t
    if op == 'del_metadata':
        t.del_metadata(keys=['g'], axis=ax)
        return t
    raise ValueError(op)


def _in_place(c):
    return c['op'] in MUTATORS or (c['op'] in FLAG_OPS and c.get('inplace', False))


# ---------------------------------------------------------------- mutation of the result
def _raw_writes(res_list, watched):
    """write straight into the id arrays / nested metadata values of the result; which inputs change?
    watched: [(name, table, snapshot before)].  Every write is undone."""
    leaks = set()
    for res in res_list:
        for comp, ax in (('IdO', 'observation'), ('IdS', 'sample')):
            arr = res.ids(axis=ax)
            if arr.size == 0 or not arr.flags.writeable:
                continue
            old = arr[0]
            arr[0] = 'Z' * max(1, len(str(old))) if str(old)[:1] != 'Z' else 'Y' * max(1, len(str(old)))
            if str(arr[0]) != str(old):
                for name, tab, before in watched:
                    if _wsnap(tab) != before:
                        leaks.add((comp, name))
            arr[0] = old
        for comp, ax in (('ValO', 'observation'), ('ValS', 'sample')):
            vals = _nested(res.metadata(axis=ax))
            for v in vals:
                if isinstance(v, list):
                    v.append('RAW')
            for name, tab, before in watched:
                if vals and _wsnap(tab) != before:
                    leaks.add((comp, name))
            for v in vals:
                if isinstance(v, list):
                    v.pop()
    return sorted([a, b] for a, b in leaks)


def _api_mutations(res_list, watched):
    """in-place changes a user can make to the result; after every step the inputs must be unchanged"""
    leaks = []

    def check(step):
        for name, tab, before in watched:
            if _wsnap(tab) != before and [step, name] not in leaks:
                leaks.append([step, name])
    for res in res_list:
        for name, tab, before in watched:
            for ax in ('observation', 'sample'):
                g = res.group_metadata(axis=ax)
                if g is not None and g is tab.group_metadata(axis=ax) and ['group metadata dict is the same object', name] not in leaks:
                    leaks.append(['group metadata dict is the same object', name])
        steps = [
            ('add_group_metadata', lambda r: [r.add_group_metadata({'added_later': ('str', ax)}, axis=ax) for ax in ('observation', 'sample')]),
            # then the steps that write into whatever matrix object the result holds right now
            ('matrix_data.data[:]=', lambda r: r.matrix_data.data.__setitem__(slice(None), 77.0)),
            ('transform(%s)' % ('observation' if res.matrix_data.format == 'csr' else 'sample'),
             lambda r: r.transform(lambda v, i, m: v * 3 + 1, axis='observation' if r.matrix_data.format == 'csr' else 'sample', inplace=True)),
            ('transform(other axis)',
             lambda r: r.transform(lambda v, i, m: v + 5, axis='sample' if r.matrix_data.format == 'csr' else 'observation', inplace=True)),
            ('metadata dict item', lambda r: [d.__setitem__('g', 'CHANGED') for ax in ('observation', 'sample')
                                               for d in (r.metadata(axis=ax) or ())]),
            ('add_metadata', lambda r: [r.add_metadata({str(i): {'extra': 'x', 'g': 'new'} for i in r.ids(axis=ax)}, axis=ax)
                                        for ax in ('observation', 'sample') if r.ids(axis=ax).size]),
            ('del_metadata', lambda r: r.del_metadata(keys=['n', 'extra'])),
            ('update_ids', lambda r: [r.update_ids({str(i): str(i) + '_x' for i in r.ids(axis=ax)}, axis=ax, inplace=True)
                                      for ax in ('observation', 'sample')]),
            ('norm', lambda r: r.norm(inplace=True)),
            ('filter', lambda r: r.filter(list(r.ids())[:1], axis='sample', invert=True, inplace=True) if r.ids().size > 1 else None),
            ('remove_empty', lambda r: r.remove_empty(inplace=True)),
            ('pa', lambda r: r.pa(inplace=True)),
        ]
        for step, f in steps:
            try:
                f(res)
            except Exception as e:   # the mutation itself failing is not what is under test, but say so
                if [step + ' raised ' + type(e).__name__, 'result'] not in leaks and not _tolerated(step, e):
                    leaks.append([step + ' raised ' + type(e).__name__, 'result'])
            check(step)
    return leaks


def _tolerated(step, e):
    # a result that became empty cannot be transformed / normalised further; that is not a leak
    return isinstance(e, (ValueError, ZeroDivisionError, IndexError)) or 'empty' in str(e).lower()


# ---------------------------------------------------------------- exports: the frame plays the result
LATER = {
    'norm(sample)': lambda t: t.norm(axis='sample', inplace=True),
    'norm(observation)': lambda t: t.norm(axis='observation', inplace=True),
    'transform(sample)': lambda t: t.transform(lambda v, i, m: v * 2 + 1, axis='sample', inplace=True),
    'transform(observation)': lambda t: t.transform(lambda v, i, m: v * 2 + 1, axis='observation', inplace=True),
    'pa': lambda t: t.pa(inplace=True),
    'rankdata(sample)': lambda t: t.rankdata(axis='sample', inplace=True),
    'matrix_data.data[:]=': lambda t: t.matrix_data.data.__setitem__(slice(None), 55.0),
    'update_ids': lambda t: t.update_ids({str(i): str(i) + '_z' for i in t.ids()}, inplace=True),
    'filter': lambda t: t.filter(list(t.ids())[:1], invert=True, inplace=True) if t.ids().size > 1 else None,
}


def _frame_view(df, dense):
    """(index, columns, values with absent = 0) of an exported frame"""
    vals = np.asarray(df if dense else df.sparse.to_dense(), dtype=float)
    return [[str(i) for i in df.index], [str(i) for i in df.columns], np.nan_to_num(vals, nan=0.0).tolist()]


def _frame_buffers(df, dense):
    if dense:
        return [df.to_numpy()]
    return [df[col].array.sp_values for col in df.columns]


def _run_export(c):
    """to_dataframe after a layout-changing access; then in-place operations on the TABLE must not show in the frame,
    and writes into the frame's values must not show in the table"""
    t, _ = _build_pair(c)
    a = c['args']
    before = _snap(t)
    refs = _components(t)
    out = {'ret': 'new', 'alias': [], 'fmt': None, 'content': None, 'raw_leak': [], 'recv_same': None, 'arg_same': None,
           'mut_leak': [], 'inplace_eq': None}
    df = t.to_dataframe(dense=a['dense'])
    out['fmt'] = [t.matrix_data.format, None]
    view0 = canon(_frame_view(df, a['dense']))
    want = canon([before['oids'], before['sids'], before['mat'] if before['oids'] and before['sids'] else [[] for _ in before['oids']]])
    if view0 != want:
        out['mut_leak'].append(['to_dataframe itself: frame differs from the table', 'export'])
    bufs = _frame_buffers(df, a['dense'])
    if any(np.shares_memory(b, x) for b in bufs for x in refs['M']):
        out['alias'].append(['M', 'recv', 'M'])
    out['recv_same'] = _snap(t) == before
    # (1) later in-place operations on the table
    for step in a['later']:
        try:
            LATER[step](t)
        except Exception as e:
            if not _tolerated(step, e):
                out['mut_leak'].append([step + ' raised ' + type(e).__name__, 'table'])
        if canon(_frame_view(df, a['dense'])) != view0 and ['%s on the TABLE' % step, 'export'] not in out['mut_leak']:
            out['mut_leak'].append(['%s on the TABLE' % step, 'export'])
    # (2) writes into the frame's stored values, on a fresh pair
    t2, _ = _build_pair(c)
    b2 = _snap(t2)
    df2 = t2.to_dataframe(dense=a['dense'])
    for buf in _frame_buffers(df2, a['dense']):
        if buf.size and buf.flags.writeable:
            buf[...] = 123.0
    if _snap(t2) != b2:
        out['mut_leak'].append(['write into the frame values', 'recv'])
    return out


# ---------------------------------------------------------------- run on the implementation
def run_impl(c):
    try:
        o = _run_impl(c)
    except Exception as e:  # pragma: no cover - harness bug
        o = {'crash': [type(e).__name__, str(e)[:300]]}
    _STASH[jhash(c)] = o
    return o


GRP = {'observation': {'tree': ('newick', '(o_a:0.1,o_b:0.2);'), 'note': ('str', 'obs')},
       'sample': {'tree': ('newick', '(s_a,s_b);')}}


def _give_group_md(t, how):
    """group metadata of the receiver: 'add' = add_group_metadata on both axes (fresh dicts per build),
    'sample' = only the sample axis, 'hdf5' = the table written to and read back from an (in-memory) HDF5 file"""
    if not how:
        return t
    for ax in (('observation', 'sample') if how in ('add', 'hdf5') else ('sample',)):
        t.add_group_metadata(_copy.deepcopy(GRP[ax]), axis=ax)
    if how == 'hdf5':
        import h5py
        from biom import Table as _T
        with h5py.File('c07-%d.h5' % id(t), 'w', driver='core', backing_store=False) as fh:
            t.to_hdf5(fh, 'c07')
            t = _T.from_hdf5(fh)
    return t


def _gsnap(t):
    """group metadata of both axes, as plain data"""
    return canon([T.plain(_copy.deepcopy(t.group_metadata(axis=ax))) for ax in ('observation', 'sample')])


def _wsnap(t):
    """what must not change in an input: content snapshot and group metadata"""
    return [_snap(t), _gsnap(t)]


def _build_pair(c):
    # 'pre': a prior history that used to leave all-empty metadata dicts behind (F40, see harness/c06.py apply_pre)
    # 'hist': an earlier in-place transform of the receiver (see _apply_hist)
    # 'grp': group metadata given to the receiver (and the argument table)
    return (_give_group_md(_apply_hist(apply_pre(T.build(c['spec']), c.get('pre')), c.get('hist')), c.get('grp')),
            (_give_group_md(T.build(c['other']), 'add' if c.get('grp') else None) if c.get('other') else None))


def _content_kind(c):
    return c['op'] in ('filter', 'remove_empty', 'update_ids')


def _inplace_eq(c):
    """content left by the in-place variant == content returned by the non-in-place variant (two fresh builds)"""
    if c['op'] not in FLAG_OPS:
        return None
    t1, _ = _build_pair(c)
    t2, _ = _build_pair(c)
    try:
        r1 = _snap(_call(dict(c, inplace=True), t1, None))
    except Exception as e:
        r1 = ['err', T.err_code(e)]
    try:
        r2 = _snap(_call(dict(c, inplace=False), t2, None))
    except Exception as e:
        r2 = ['err', T.err_code(e)]
    return r1 == r2


def _run_impl(c):
    if c['op'] == 'to_dataframe':
        return _run_export(c)
    t, other = _build_pair(c)
    inplace = _in_place(c)
    before, before_o = _wsnap(t), (None if other is None else _wsnap(other))
    refs, refs_o = _components(t), (None if other is None else _components(other))
    out = {'ret': None, 'alias': [], 'fmt': None, 'content': None, 'raw_leak': None,
           'recv_same': None, 'arg_same': None, 'mut_leak': None, 'inplace_eq': None}
    try:
        res = _call(c, t, other)
    except Exception as e:
        out['ret'] = 'err'
        out['fmt'] = [t.matrix_data.format, None if other is None else other.matrix_data.format]
        out['recv_same'] = _wsnap(t) == before
        out['arg_same'] = None if other is None else _wsnap(other) == before_o
        if _content_kind(c):
            out['content'] = ['raise', _snap(t), T.err_code(e)]
        else:
            out['content'] = ['raise', T.err_code(e)]
        out['inplace_eq'] = _inplace_eq(c)
        return out
    res_list = res if isinstance(res, list) else [res]
    is_self = [r is t for r in res_list]
    out['ret'] = 'self' if all(is_self) and res_list else ('new' if not any(is_self) else 'mixed')
    al = [_alias(r, [('recv', refs), ('arg', refs_o)]) for r in res_list]
    out['alias'] = al[0] if all(x == al[0] for x in al) else ['nonuniform'] + al
    out['fmt'] = [t.matrix_data.format, None if other is None else other.matrix_data.format]
    after = _snap(t)
    after_w = _wsnap(t)
    if _content_kind(c):
        out['content'] = ['self', after] if out['ret'] == 'self' else ['new', after, _snap(res_list[0])]
    if not inplace:
        out['recv_same'] = after_w == before
    if other is not None:
        out['arg_same'] = _wsnap(other) == before_o
    if not inplace:
        watched = [('recv', t, before)] + ([] if other is None else [('arg', other, before_o)])
        out['raw_leak'] = _raw_writes(res_list, watched)
        out['mut_leak'] = _api_mutations(res_list, watched)
    out['inplace_eq'] = _inplace_eq(c)
    return out


# ---------------------------------------------------------------- model wire
def _coder(c):
    u = T.spec_universe(c['spec'])
    a = c.get('args', {})
    u += list(a.get('keep', []))
    for x, y in a.get('id_map', []):
        u += [x, y]
    return T.Coder(u)


def _align_axes(c):
    """which axes align_to ends up sorting (table.py align_to), from the id sets"""
    s, o, mode = c['spec'], c['other'], c['args']['mode']
    al_o, al_s = set(s['oids']) == set(o['oids']), set(s['sids']) == set(o['sids'])
    ok = {'sample': al_s, 'observation': al_o, 'both': al_o and al_s, 'detect': al_o or al_s}[mode]
    if not ok:
        return False, False
    return (mode in ('observation', 'both') or (mode == 'detect' and al_o),
            mode in ('sample', 'both') or (mode == 'detect' and al_s))


def _flag_bools(c):
    if c['op'] == 'align_to':
        return _align_axes(c)
    if c['op'] in ('merge', 'concat') and c.get('other'):
        s, o = c['spec'], c['other']
        return bool(set(o['oids']) - set(s['oids'])), bool(set(o['sids']) - set(s['sids']))
    return False, False


def encode(c):
    t, other = _build_pair(c)
    lk = 0 if t.matrix_data.format == 'csr' else 1
    alk = 0 if other is None or other.matrix_data.format == 'csr' else 1
    bo, bs = _flag_bools(c)
    a = c.get('args', {})
    content = []
    if _content_kind(c):
        cd = _coder(c)
        tb = cd.table(T.spec_content(_eff_spec(c)))
        if c['op'] == 'filter':
            content = [0, tb, [cd.id(i) for i in a['keep']], int(a['invert']), AX3[c['axis']]]
        elif c['op'] == 'remove_empty':
            content = [1, tb, AX3[c['axis']]]
        else:
            content = [2, tb, [[cd.id(x), cd.id(y)] for x, y in a['id_map']], AX3[c['axis']], int(a['strict'])]
    md = c['md']
    amd = c.get('amd', ['none', 'none'])
    opi = OPS.index(c['op'])
    if c['op'] == 'merge' and a.get('others') is not None and (md != ['none', 'none'] or a.get('how') == 'intersection'):
        opi = OPS.index('copy')      # table.py merge: `merged = self.copy()`, no other table to fold in
    return [opi, lk, int(bool(c.get('inplace', False))), AX3.get(c.get('axis'), 1), MDK[md[0]], MDK[md[1]],
            MDK[amd[0]], MDK[amd[1]], int(bool(a.get('view'))), int(bo), int(bs), content, alk]


def decode(tree, c):
    inplace = bool(tree[0])
    alias = sorted([COMPS[x[0]], TBLS[x[1]], COMPS[x[2]]] for x in tree[1])
    alias = [list(x) for x in sorted({tuple(x) for x in alias})]
    has_arg = bool(c.get('other'))
    fmt = [['csr', 'csc'][tree[2]], ['csr', 'csc'][tree[3]] if has_arg else None]
    out = {'ret': 'self' if inplace else 'new', 'alias': alias, 'fmt': fmt, 'content': None,
           'raw_leak': None if inplace else sorted([list(x) for x in {(a[0], a[1]) for a in alias if a[0][:2] in ('Id', 'Va')}]),
           'recv_same': None if inplace else True, 'arg_same': True if has_arg else None,
           'mut_leak': None if inplace else [], 'inplace_eq': True if c['op'] in FLAG_OPS else None}
    refused = None
    if tree[4]:
        cd = _coder(c)
        k = tree[4][0]
        recv_after = canon(T.norm_snap(_fixmd(cd.untable(tree[4][1]))))
        if k == 0:
            out['content'] = ['self', recv_after]
        elif k == 1:
            out['content'] = ['new', recv_after, canon(T.norm_snap(_fixmd(cd.untable(tree[4][2]))))]
        else:
            out['content'] = ['raise', recv_after, tree[4][2]]
            refused = True
    elif c['op'] == 'align_to' and _align_axes(c) == (False, False):
        out['content'] = ['raise', 2 if c['args']['mode'] not in ('sample', 'observation', 'both', 'detect') else 3]
        refused = True
    if refused:
        # nothing is returned: no aliasing, no layout change, the inputs are as before
        t, other = _build_pair(c)
        out.update(ret='err', alias=[], raw_leak=None, mut_leak=None, recv_same=True,
                   fmt=[t.matrix_data.format, None if other is None else other.matrix_data.format])
    return out


def _fixmd(s):
    for k in ('omd', 'smd'):
        if s[k] == []:
            s[k] = None
    return s


# ---------------------------------------------------------------- oracle (property text; independent of the model)
def oracle(c, obs):
    if 'crash' in obs:
        return ['harness / implementation crashed: %s' % obs['crash']]
    fails = []
    inplace = _in_place(c)
    if obs['ret'] == 'err':
        if obs['recv_same'] is False:
            fails.append('%s raised and left the receiver changed' % c['op'])
        if obs['arg_same'] is False:
            fails.append('%s raised and left the argument table changed' % c['op'])
        if obs.get('inplace_eq') is False:
            fails.append('%s: in-place and non-in-place variants disagree (one raises, or different errors)' % c['op'])
        return fails
    if inplace:
        if obs['ret'] != 'self':
            fails.append('%s(inplace=True) did not return the receiver itself' % c['op'])
    else:
        if obs['ret'] != 'new':
            fails.append('%s returned the receiver although it has to return a new table' % c['op'])
        if obs['recv_same'] is not True:
            fails.append('%s (not in place) changed the receiver' % c['op'])
        for step, who in obs['mut_leak'] or []:
            if who == 'export':
                fails.append('to_dataframe(dense=%s): after `%s` the exported frame no longer shows the values it was exported with'
                             % (c['args'].get('dense'), step))
            else:
                fails.append('%s: after `%s` on the RESULT the %s changed' % (c['op'], step, {'recv': 'receiver', 'arg': 'argument table'}.get(who, who)))
    if obs['arg_same'] is False:
        fails.append('%s changed its argument table' % c['op'])
    if c['op'] in FLAG_OPS and obs['inplace_eq'] is not True:
        fails.append('%s: the in-place variant leaves a different content than the non-in-place variant returns' % c['op'])
    return fails


# ---------------------------------------------------------------- generation
LAYOUTS = [['csr'], ['csc'], ['dense', 'colaccess'], ['csr_unsorted'], ['coo', 'rowaccess'], ['csr', 'colaccess', 'nnz'],
           ['lists', 'transpose2'], ['csr_zero', 'colaccess'], ['csc', 'copy'], ['dense', 'copy', 'colaccess']]


def _spec(rng, md, values='counts', min_r=2, max_r=4, min_c=2, max_c=4, pfx=('o', 's'), lay=None):
    s = T.rand_spec(rng, min_r=min_r, max_r=max_r, min_c=min_c, max_c=max_c, values=values, density=rng.choice([0.5, 0.7, 1.0]),
                    md='none', alphabet='short', ttype=rng.choice([None, 'OTU table']), layout=False, opfx=pfx[0], spfx=pfx[1])
    if not any(v for row in s['mat'] for v in row):
        s['mat'][0][0] = 2.0
    s['omd'], s['smd'] = _mk_md(md[0], s['oids'], 'O'), _mk_md(md[1], s['sids'], 'S')
    lay = lay or rng.choice(LAYOUTS)
    s['layout'] = list(lay)
    if rng.random() < 0.3:
        p = list(range(len(s['sids'])))
        rng.shuffle(p)
        s['layout'] = s['layout'][:1] + [['via_sort_samp', p]] + s['layout'][1:]
    return s


def _mdpair(rng):
    return [rng.choice(['none', 'flat', 'nested']), rng.choice(['none', 'flat', 'nested'])]


def _case(rng, op, axis=None, inplace=False, md=None, lay=None):
    md = md or _mdpair(rng)
    axis = axis or rng.choice(['observation', 'sample'])
    values = 'counts' if op in ('norm', 'subsample', 'rankdata', 'pa') else rng.choice(['counts', 'small', 'dyadic'])
    spec = _spec(rng, md, values=values, lay=lay)
    ids = list(spec['oids'] if axis == 'observation' else spec['sids'])
    c = {'op': op, 'spec': spec, 'axis': axis, 'md': md, 'args': {}}
    if op in FLAG_OPS:
        c['inplace'] = inplace
    a = c['args']
    if op == 'filter':
        keep = [i for i in ids if rng.random() < 0.6] or ids[:1]
        inv = rng.random() < 0.3 and len(keep) < len(ids)
        a.update(keep=keep, invert=inv, as_function=rng.random() < 0.3,
                 ctype=rng.choice(['list', 'generator', 'iter', 'map', 'tuple', 'set', 'dictkeys', 'array']))
        if rng.random() < 0.06 and not a['as_function']:
            a['keep'] = keep + ['nope']
    elif op == 'transform':
        a['f'] = rng.choice(sorted(TF))
    elif op == 'remove_empty':
        c['axis'] = rng.choice(['observation', 'sample', 'whole'])
        if rng.random() < 0.7:   # make an empty row and an empty column
            spec['mat'][-1] = [0.0] * len(spec['sids'])
            for row in spec['mat']:
                row[-1] = 0.0
            if not any(v for row in spec['mat'] for v in row):
                spec['mat'][0][0] = 3.0
    elif op == 'update_ids':
        r = rng.random()
        if r < 0.5:
            a.update(id_map=[[i, i + '_renamed' * rng.randint(1, 2)] for i in ids], strict=True)
        elif r < 0.75:
            a.update(id_map=[[i, 'n' + i] for i in ids[:-1]], strict=False)
        elif r < 0.85:
            a.update(id_map=[], strict=False)
        elif r < 0.93:
            a.update(id_map=[[ids[0], ids[1]]], strict=False)       # duplicate -> must raise, receiver untouched
        else:
            a.update(id_map=[[i, i + 'x'] for i in ids[:-1]], strict=True)   # strict and incomplete -> must raise
    elif op == 'sort_order':
        if rng.random() < 0.35:
            a['view'] = True
        else:
            p = list(ids)
            rng.shuffle(p)
            a['order'] = p
    elif op == 'head':
        a.update(n=rng.randint(1, 3), m=rng.randint(1, 3))
    elif op == 'subsample':
        a.update(n=rng.randint(1, 3), by_id=rng.random() < 0.3, seed=rng.randint(0, 99))
    elif op in ('merge', 'concat', 'align_to'):
        amd = _mdpair(rng)
        c['amd'] = amd
        o = _spec(rng, amd, values=values, lay=rng.choice(LAYOUTS))
        oids, sids = list(spec['oids']), list(spec['sids'])
        if op == 'merge':
            how_o, how_s = rng.choice(['same', 'more', 'less']), rng.choice(['same', 'more', 'less'])
            oids = {'same': oids, 'more': oids + ['o_new'], 'less': oids[:-1]}[how_o]
            sids = {'same': sids, 'more': sids + ['s_new'], 'less': sids[:-1]}[how_s]
            rng.shuffle(oids)
            rng.shuffle(sids)
        elif op == 'concat':
            inv = {'same': lambda l: list(l), 'more': lambda l: list(l) + ['inv_new'], 'less': lambda l: list(l)[:-1]}[rng.choice(['same', 'same', 'more', 'less'])]
            if axis == 'sample':
                sids, oids = ['c_' + i for i in sids], inv(oids)
            else:
                oids, sids = ['c_' + i for i in oids], inv(sids)
            if rng.random() < 0.5:
                rng.shuffle(oids)
                rng.shuffle(sids)
        else:
            how = rng.choice(['both', 'both', 'samp', 'obs', 'none', 'identical', 'identical'])
            if how != 'identical':      # 'identical': already in the other table's order, still a new table is due
                rng.shuffle(oids)
                rng.shuffle(sids)
            if how in ('samp', 'none'):
                oids = oids[:-1] + ['other_o']
            if how in ('obs', 'none'):
                sids = sids[:-1] + ['other_s']
            a['mode'] = rng.choice(['sample', 'observation', 'both', 'detect', 'detect'])
            del c['axis']
        r, k = len(oids), len(sids)
        o.update(oids=oids, sids=sids, mat=[[float((2 * i + j) % 3 + (1 if i == j else 0)) for j in range(k)] for i in range(r)])
        o['omd'], o['smd'] = _mk_md(amd[0], oids, 'AO'), _mk_md(amd[1], sids, 'AS')
        o['layout'] = [x for x in o['layout'] if not isinstance(x, list)]
        c['other'] = o
    elif op == 'del_metadata':
        c['axis'] = rng.choice(['observation', 'sample', 'whole'])
    elif op == 'to_dataframe':
        c.pop('axis', None)
        c['hist'] = ['access', rng.choice(['none', 'data_sample', 'iter_sample', 'min_sample', 'max_observation'])]
        a.update(dense=rng.random() < 0.4,
                 later=rng.sample(['norm(sample)', 'transform(sample)', 'pa', 'rankdata(sample)', 'matrix_data.data[:]=',
                                   'norm(observation)', 'transform(observation)', 'update_ids', 'filter'], 3))
    if op in ('transpose', 'copy', 'head', 'merge', 'pa'):
        c.pop('axis', None)
    return c


def _with_history(rng, c, hist_axis=None):
    """give the receiver an earlier in-place thresholding transform that really zeroes something and leaves something"""
    m = c['spec']['mat']
    m[0][0], m[0][1] = 1.0, 5.0
    m[-1][-1] = 1.0 if len(m) > 1 else m[-1][-1]
    c['hist'] = ['threshold', hist_axis or rng.choice(['observation', 'sample'])]
    if c['op'] == 'update_ids' or c['op'] == 'filter':
        pass
    return c


def _otm_case(rng, axis, shape, lay, mode='divide'):
    """collapse(one_to_many=True): small tables / one dominant vector, ids that belong to two groups"""
    md = _mdpair(rng)
    # one_to_many needs metadata on the collapsed axis (zip(ids, None) is a TypeError in table.py collapse)
    k = 0 if axis == 'observation' else 1
    if md[k] == 'none':
        md[k] = rng.choice(['flat', 'nested'])
    if shape == 'tiny':
        dims = dict(min_r=1, max_r=2, min_c=2, max_c=4) if axis == 'observation' else dict(min_r=2, max_r=4, min_c=1, max_c=2)
    else:
        dims = dict(min_r=3, max_r=5, min_c=3, max_c=5)
    spec = _spec(rng, md, values='counts', lay=lay, **dims)
    spec['layout'] = list(lay)
    m = spec['mat']
    if shape == 'dominant':   # the first vector of the axis is full, the others hold one entry each
        r, k = len(m), len(m[0])
        for i in range(r):
            for j in range(k):
                first = (i == 0) if axis == 'observation' else (j == 0)
                m[i][j] = float(2 * (i + j) + 2) if first or (i == j) else 0.0
    else:
        for i, row in enumerate(m):
            for j in range(len(row)):
                row[j] = float(2 * (i + j) + 2)
    return {'op': 'collapse', 'spec': spec, 'axis': axis, 'md': md, 'args': {'otm': mode}}


def gen(rng, tier):
    reps = 1 if tier == 'quick' else 8
    for _ in range(reps):
        # every operation x both axes x both inplace values x a CSR and a CSC receiver, metadata kinds random
        for op in OPS:
            for axis in ('observation', 'sample'):
                for lay in (['csr'], ['csc'], None):
                    for inplace in ((False, True) if op in FLAG_OPS else (False,)):
                        yield _case(rng, op, axis, inplace, lay=lay)
        # metadata kinds swept for the operations whose footprint depends on them
        for op in ('sort_order', 'transpose', 'partition', 'collapse', 'merge', 'concat', 'align_to', 'filter', 'copy', 'add_metadata'):
            for mo in ('none', 'flat', 'nested'):
                for ms in ('none', 'flat', 'nested'):
                    yield _case(rng, op, None, rng.random() < 0.5, md=[mo, ms])
        for _ in range(300):
            op = rng.choice(OPS)
            c = _case(rng, op, None, rng.random() < 0.5)
            if op in FLAG_OPS and rng.random() < 0.3:
                c = _with_history(rng, c)
            if rng.random() < 0.3:
                c['grp'] = 'add'
            yield c
        # histories: an earlier in-place thresholding transform, then every flag operation in both variants - among
        # them functions that look at all the values they are handed (rankdata, sub_min, count)
        for op, f in (('rankdata', None), ('transform', 'sub_min'), ('transform', 'count'), ('transform', 'double'),
                      ('norm', None), ('pa', None), ('filter', None), ('remove_empty', None), ('update_ids', None)):
            for axis in ('observation', 'sample'):
                for hax in ('observation', 'sample'):
                    for inplace in (False, True):
                        c = _case(rng, op, axis, inplace)
                        if f:
                            c['args']['f'] = f
                        yield _with_history(rng, c, hax)
        # refused update_ids (rename onto a retained id, two ids onto one name, strict and incomplete): the receiver
        # must be exactly as before, in both variants
        for axis in ('observation', 'sample'):
            for inplace in (True, False):
                for kind in ('onto_retained', 'two_to_one', 'onto_retained_last', 'strict_incomplete'):
                    c = _case(rng, 'update_ids', axis, inplace)
                    ids = list(c['spec']['oids'] if axis == 'observation' else c['spec']['sids'])
                    c['args'] = {'onto_retained': {'id_map': [[ids[0], ids[-1]]], 'strict': False},
                                 'two_to_one': {'id_map': [[ids[0], 'same'], [ids[1], 'same']], 'strict': False},
                                 'onto_retained_last': {'id_map': [[ids[-1], ids[0]], ['ghost', 'g']], 'strict': False},
                                 'strict_incomplete': {'id_map': [[i, i + 'x'] for i in ids[1:]], 'strict': True}}[kind]
                    yield c
        # filter by a one-shot iterable (generator expression, iter(list), map): both variants read it once and agree
        for ctype in ('generator', 'iter', 'map'):
            for axis in ('observation', 'sample'):
                for inplace in (True, False):
                    for invert in (False, True):
                        c = _case(rng, 'filter', axis, inplace)
                        ids = list(c['spec']['oids'] if axis == 'observation' else c['spec']['sids'])
                        c['args'] = {'keep': ids[:-1] if not invert else ids[:1], 'invert': invert, 'as_function': False, 'ctype': ctype}
                        yield c
        # merge with an EMPTY collection of others (what tables[0].merge(tables[1:]) does with one table): fast path
        # (no metadata, union) and general path (metadata, or an intersection) must both return a new table
        for md in (['none', 'none'], ['flat', 'none'], ['none', 'nested'], ['nested', 'flat']):
            for others in ('list', 'tuple'):
                for how in ('union', 'intersection'):
                    for lay in (['csr'], ['csc']):
                        spec = _spec(rng, md, values='counts', lay=lay)
                        spec['layout'] = list(lay)
                        yield {'op': 'merge', 'spec': spec, 'md': md, 'args': {'others': others, 'how': how},
                               'grp': rng.choice([None, 'add'])}
        # group metadata on the receiver (add_group_metadata / read back from HDF5): every operation that is not in place
        for op in OPS:
            if op in MUTATORS:
                continue
            for grp in ('add', 'sample', 'hdf5'):
                for inplace in ((False, True) if op in FLAG_OPS else (False,)):
                    c = _case(rng, op, None, inplace, md=['none', 'none'] if grp == 'hdf5' else None)
                    c['grp'] = grp
                    yield c
        # exports: to_dataframe dense / sparse after a layout-changing access, then in-place operations on the table
        for access in ('none', 'data_sample', 'iter_sample', 'min_sample', 'max_observation', 'iter_observation'):
            for dense in (False, True):
                for lay in (['csr'], ['csc'], ['dense']):
                    md = _mdpair(rng)
                    spec = _spec(rng, md, values='counts', lay=lay)
                    spec['layout'] = list(lay)
                    later = rng.sample(['norm(sample)', 'transform(sample)', 'pa', 'rankdata(sample)', 'matrix_data.data[:]='], 2) + \
                        rng.sample(['norm(observation)', 'transform(observation)', 'update_ids', 'filter'], 2)
                    yield {'op': 'to_dataframe', 'spec': spec, 'md': md, 'hist': ['access', access],
                           'args': {'dense': dense, 'later': later}}
        # collapse with one_to_many on small tables / a dominant vector, CSR and CSC receivers
        for axis in ('observation', 'sample'):
            for shape in ('tiny', 'tiny', 'dominant', 'full'):
                for lay in (['csr'], ['csc'], ['csr', 'rowaccess'], ['dense']):
                    yield _otm_case(rng, axis, shape, lay, 'divide')
                yield _otm_case(rng, axis, shape, ['csr'], 'add')


def nontrivial(c):
    s = c['spec']
    return len(s['oids']) >= 2 and len(s['sids']) >= 2 and any(v for row in s['mat'] for v in row)


def classify(c):
    tags = ['op:%s%s' % (c['op'], '' if c['op'] not in FLAG_OPS else '/inplace=%s' % c.get('inplace')),
            'md:%s/%s' % tuple(c['md'])]
    try:
        tags.append('repr:' + T.layout_info(_build_pair(c)[0]))
    except Exception:
        tags.append('repr:unbuildable')
    if c.get('hist'):
        tags.append('history:%s(%s)' % tuple(c['hist']))
    if c.get('grp'):
        tags.append('group-metadata:%s' % c['grp'])
    if c['op'] == 'filter' and not c['args'].get('as_function'):
        tags.append('filter-ids-as:%s' % c['args'].get('ctype', 'list'))
    if c['op'] == 'merge' and c.get('args', {}).get('others'):
        tags.append('merge:empty-%s/%s' % (c['args']['others'], c['args'].get('how')))
    if c['op'] == 'to_dataframe':
        tags.append('export:%s' % ('dense' if c['args']['dense'] else 'sparse'))
    if c.get('args', {}).get('otm'):
        tags.append('collapse:one_to_many/%s' % c['args']['otm'])
    o = _STASH.get(jhash(c))
    if isinstance(o, dict) and 'crash' not in o:
        tags.append('ret:%s' % o['ret'])
        for a in o.get('alias') or []:
            if isinstance(a, list) and len(a) == 3:
                tags.append('shares:%s<-%s.%s' % (a[0], a[1], a[2]))
        for comp, who in o.get('raw_leak') or []:
            tags.append('raw-write-shows-through:%s->%s' % (comp, who))
    return tags


def shrink(c):
    s = c['spec']
    if s['layout'] and len(s['layout']) > 1:
        yield dict(c, spec=dict(s, layout=s['layout'][:1]))
    if c['md'] != ['none', 'none'] and c['op'] not in ('add_metadata', 'del_metadata'):
        yield dict(c, md=['none', 'none'], spec=dict(s, omd=None, smd=None))


SIGNATURES = {}
_copy  # keep the import (used by replays that deep-copy cases)
