"""Table generation, layout recipes, snapshots and wire encoding shared by the property modules.

A *spec* is a JSON-able description of a table:
  {'oids': [str], 'sids': [str], 'mat': [[float]], 'omd': None|[dict|None], 'smd': ..., 'type': None|str,
   'layout': [recipe steps]}
build(spec) constructs the real biom.Table and replays the layout recipe so that its internal
sparse representation is one a history could have left behind, while its content is the spec's."""
import struct

import numpy as np
from scipy.sparse import coo_matrix, csc_matrix, csr_matrix

from biom import Table

from . import kernels  # noqa: F401  (installs interpreted kernels when a .pyx changed)

SCALE = 64           # matrix values are k/64: exact in binary64 and as scaled integers in the model
TYPES = [None, 'OTU table', 'Pathway table', 'Function table', 'Ortholog table', 'Gene table',
         'Metabolite table', 'Taxon table']
ALPHABETS = {
    'short': lambda rng, i, p: '%s%d' % (p, i),
    'long': lambda rng, i, p: '%s_%s_%d' % (p, 'x' * rng.randint(8, 30), i),
    'punct': lambda rng, i, p: '%s %d/%s' % (p, i, rng.choice(['a.b', 'c;d', "e'f", 'g"h', 'i|j', '(k)'])),
    'latin1': lambda rng, i, p: '%séñ%d' % (p, i),
    'cjk': lambda rng, i, p: '%s样本%d' % (p, i),
    'astral': lambda rng, i, p: '%s\U0001d11e%d' % (p, i),
}
INITIAL = ['dense', 'csr', 'csc', 'coo', 'lists', 'csr_zero', 'csr_unsorted']
STEPS = ['via_sort_obs', 'via_sort_samp', 'transpose2', 'colaccess', 'rowaccess', 'nnz', 'copy']


# ---------------------------------------------------------------- generation
def rand_value(rng, kind):
    if kind == 'counts':
        return float(rng.choice([1, 1, 2, 3, 5, 8, 13, 40]))
    if kind == 'small':
        return float(rng.choice([1, 2, 3]))
    if kind == 'signed':
        return float(rng.choice([-3, -1, 1, 2, 5]))
    if kind == 'dyadic':
        return rng.choice([-96, -1, 1, 3, 32, 64, 65, 200, 4096]) / SCALE
    if kind == 'big':
        return float(rng.choice([2 ** 40 + 1, 2 ** 33, 7, 1]))
    if kind == 'tiny':
        # magnitudes whose squares, sums with ordinary values or comparisons with a tolerance lose them
        return rng.choice([1e-170, -1e-170, 5e-324, 1e-300, 2.5e-9, -4e-12, 1e-8, 1.0, 3.0])
    raise ValueError(kind)


def rand_md(rng, kind, i):
    if kind == 'text':
        return {'k': rng.choice(['a', 'b', 'c', 'x y', 'ü']), 'j': 'v%d' % i}
    if kind == 'num':
        return {'n': rng.randint(-3, 9), 'f': rng.choice([0.5, 1.25, -2.0]), 'b': bool(rng.getrandbits(1))}
    if kind == 'tax':
        return {'taxonomy': ['k__%s' % rng.choice('AB'), 'p__%s' % rng.choice('CDE')][:rng.randint(1, 2)]}
    if kind == 'group':
        return {'g': rng.choice(['g1', 'g2', 'g3'])}
    if kind == 'falsy':
        # real metadata whose values are all falsy (a flag that is off, a zero, an empty text / list, None),
        # now and then with a truthy one
        d = {'b': False, 'z': rng.choice([0, 0.0]), 'e': '', 'l': [], 'n': None}
        for k in rng.sample(sorted(d), rng.randint(0, 3)):
            del d[k]
        if rng.random() < 0.3:
            d['g'] = rng.choice(['g1', 'g2'])
        return d or {'b': False}
    raise ValueError(kind)


def rand_spec(rng, min_r=1, max_r=4, min_c=1, max_c=4, values=None, density=None, md=None, alphabet=None,
              ttype='any', layout=True, opfx='o', spfx='s'):
    r, c = rng.randint(min_r, max_r), rng.randint(min_c, max_c)
    values = values or rng.choice(['counts', 'small', 'signed', 'dyadic', 'big'])
    density = rng.choice([0.0, 0.2, 0.6, 0.6, 1.0]) if density is None else density
    alphabet = alphabet or rng.choice(['short'] * 4 + ['long', 'punct', 'latin1', 'cjk', 'astral'])
    mk = ALPHABETS[alphabet]
    mat = [[rand_value(rng, values) if rng.random() < density else 0.0 for _ in range(c)] for _ in range(r)]
    mdk = md if md is not None else rng.choice(['none', 'none', 'text', 'num', 'tax', 'group', 'obs', 'samp'])
    omd = smd = None
    if mdk in ('text', 'num', 'tax', 'group', 'falsy'):
        omd = [rand_md(rng, mdk, i) for i in range(r)]
        smd = [rand_md(rng, mdk if mdk != 'tax' else 'text', i) for i in range(c)]
    elif mdk == 'partial':
        # some ids without any metadata (as add_metadata on a subset of the ids leaves them)
        omd = [rand_md(rng, 'group', i) if rng.random() < 0.5 else {} for i in range(r)]
        smd = [rand_md(rng, 'group', i) if rng.random() < 0.5 else None for i in range(c)]
    elif mdk == 'obs':
        omd = [rand_md(rng, 'group', i) for i in range(r)]
    elif mdk == 'samp':
        smd = [rand_md(rng, 'group', i) for i in range(c)]
    spec = {'oids': [mk(rng, i, opfx) for i in range(r)], 'sids': [mk(rng, i, spfx) for i in range(c)],
            'mat': mat, 'omd': omd, 'smd': smd,
            'type': rng.choice(TYPES) if ttype == 'any' else ttype, 'layout': []}
    if layout:
        spec['layout'] = rand_layout(rng, r, c)
    return spec


def rand_layout(rng, r, c):
    lay = [rng.choice(INITIAL)]
    for _ in range(rng.choice([0, 1, 1, 2, 2])):
        s = rng.choice(STEPS + ['via_sort_obs', 'via_sort_samp', 'via_sort_samp'])
        if s == 'via_sort_obs':
            p = list(range(r)); rng.shuffle(p); lay.append([s, p])
        elif s == 'via_sort_samp':
            p = list(range(c)); rng.shuffle(p); lay.append([s, p])
        else:
            lay.append(s)
    return lay


# ---------------------------------------------------------------- building the real table
def _initial(kind, M):
    if kind == 'dense':
        return M
    if kind == 'csr':
        return csr_matrix(M)
    if kind == 'csc':
        return csc_matrix(M)
    if kind == 'coo':
        return coo_matrix(M)
    if kind == 'lists':
        return [[float(v) for v in row] for row in M.tolist()] if M.size else M
    if kind in ('csr_zero', 'csr_unsorted'):
        # caller-supplied CSR with an explicitly stored zero / with reversed column order per row
        r, c = M.shape
        indptr, indices, data = [0], [], []
        for i in range(r):
            cols = [j for j in range(c) if M[i, j] != 0]
            if kind == 'csr_zero':
                z = [j for j in range(c) if M[i, j] == 0][:1]
                cols = sorted(cols + z)
            else:
                cols = cols[::-1]
            indices += cols
            data += [M[i, j] for j in cols]
            indptr.append(len(indices))
        m = csr_matrix((np.array(data, dtype=float), np.array(indices, dtype=np.int32),
                        np.array(indptr, dtype=np.int32)), shape=(r, c))
        return m
    raise ValueError(kind)


def build(spec, validate=True):
    M = np.array(spec['mat'], dtype=float).reshape(len(spec['oids']), len(spec['sids']))
    lay = spec.get('layout') or ['dense']
    oids, sids = list(spec['oids']), list(spec['sids'])
    omd, smd = spec.get('omd'), spec.get('smd')
    kw = {}
    if lay[0] == 'lists' and M.size:
        kw['input_is_dense'] = True
    # 'via_sort_*' steps: start from a permuted table and sort_order back to the wanted order
    pre = [s for s in lay[1:] if isinstance(s, list)]
    t_oids, t_sids, t_omd, t_smd, tM = oids, sids, omd, smd, M
    for s, p in pre:
        if s == 'via_sort_obs' and len(p) == len(t_oids):
            t_oids = [t_oids[i] for i in p]; tM = tM[p, :] if tM.size or True else tM
            t_omd = None if t_omd is None else [t_omd[i] for i in p]
        elif s == 'via_sort_samp' and len(p) == len(t_sids):
            t_sids = [t_sids[i] for i in p]; tM = tM[:, p]
            t_smd = None if t_smd is None else [t_smd[i] for i in p]
    t = Table(_initial(lay[0], tM), t_oids, t_sids, _cp(t_omd), _cp(t_smd), type=spec.get('type'), **kw)
    if pre:
        if t_oids != oids:
            t = t.sort_order(oids, axis='observation')
        if t_sids != sids:
            t = t.sort_order(sids, axis='sample')
    for s in lay[1:]:
        if isinstance(s, list):
            continue
        if s == 'transpose2':
            ty = t.type
            t = t.transpose().transpose()
            t.type = ty
        elif s == 'colaccess' and t.shape[1]:
            t.data(t.ids()[0], axis='sample')
        elif s == 'rowaccess' and t.shape[0]:
            t.data(t.ids(axis='observation')[0], axis='observation')
        elif s == 'nnz':
            t.nnz
        elif s == 'copy':
            t = t.copy()
    return t


def _cp(md):
    return None if md is None else [None if m is None else dict(m) for m in md]


def layout_info(t):
    d = t.matrix_data
    d2 = d.copy()
    d2.sort_indices()
    unsorted = not np.array_equal(d2.indices, d.indices)
    return '%s/%s/z%d' % (d.format, 'unsorted' if unsorted else 'sorted', int((d.data == 0).sum()))


# ---------------------------------------------------------------- snapshots
def plain(x):
    """metadata value -> plain JSON-able python"""
    if isinstance(x, dict):
        return {str(k): plain(v) for k, v in x.items()}
    if isinstance(x, (list, tuple)):
        return [plain(v) for v in x]
    if isinstance(x, np.ndarray):
        return plain(x.tolist())
    if isinstance(x, np.generic):
        return plain(x.item())
    if isinstance(x, bytes):
        return x.decode('utf-8', 'replace')
    return x


def snapshot(t):
    """observable content of a real table (never mutates it: works on a copy of the matrix)"""
    d = t.matrix_data.copy()
    dense = np.asarray(d.todense(), dtype=float).reshape(d.shape)

    def md(ax):
        m = t.metadata(axis=ax)
        return None if m is None else [plain(dict(x)) if x is not None else None for x in m]
    return {'oids': [str(i) for i in t.ids(axis='observation')], 'sids': [str(i) for i in t.ids()],
            'mat': dense.tolist(), 'omd': md('observation'), 'smd': md('sample'), 'type': t.type}


def spec_content(spec):
    """the content a spec describes, in snapshot form"""
    def md(m):
        if m is None or all(not x for x in m):
            return None
        return [plain(x) if x else {} for x in m]
    return {'oids': list(spec['oids']), 'sids': list(spec['sids']),
            'mat': [[float(v) for v in row] for row in spec['mat']] if spec['oids'] else [],
            'omd': md(spec.get('omd')), 'smd': md(spec.get('smd')), 'type': spec.get('type')}


# ---------------------------------------------------------------- wire coding
def md_tree(x):
    """injective encoding of a JSON-able metadata value as a tree"""
    if x is None:
        return [0]
    if isinstance(x, bool):
        return [1, int(x)]
    if isinstance(x, int):
        return [2, x]
    if isinstance(x, float):
        return [3, struct.unpack('<q', struct.pack('<d', x))[0]]
    if isinstance(x, str):
        return [4, list(x.encode('utf-8'))]
    if isinstance(x, (list, tuple)):
        return [5, [md_tree(v) for v in x]]
    if isinstance(x, dict):
        return [6, [[list(str(k).encode('utf-8')), md_tree(v)] for k, v in sorted(x.items())]]
    raise TypeError(type(x))


def md_untree(t):
    k = t[0]
    if k == 0:
        return None
    if k == 1:
        return bool(t[1])
    if k == 2:
        return t[1]
    if k == 3:
        return struct.unpack('<d', struct.pack('<q', t[1]))[0]
    if k == 4:
        return bytes(t[1]).decode('utf-8')
    if k == 5:
        return [md_untree(v) for v in t[1]]
    if k == 6:
        return {bytes(a).decode('utf-8'): md_untree(b) for a, b in t[1]}
    raise ValueError(t)


class Coder:
    """IDs <-> integer codes.  Codes respect Python's string order over the universe given at
    construction, so the model can 'sort' by comparing codes; unknown strings met later get
    fresh codes above every known one."""

    def __init__(self, universe):
        self.strs = sorted(set(universe))
        self.code = {s: 10 * (i + 1) for i, s in enumerate(self.strs)}
        self.back = {v: k for k, v in self.code.items()}

    def id(self, s):
        if s not in self.code:
            c = 10 * (len(self.code) + 1) + 5
            self.code[s] = c
            self.back[c] = s
        return self.code[s]

    def unid(self, c):
        return self.back.get(c, '<code %d>' % c)

    def val(self, v):
        k = v * SCALE
        if k != int(k):
            raise ValueError('value %r is not a multiple of 1/%d' % (v, SCALE))
        return int(k)

    def unval(self, k):
        return k / SCALE

    TYPES = {None: 0}

    def ttype(self, s):
        return 0 if s is None else 1 + TYPES.index(s) if s in TYPES else 99

    def untype(self, c):
        return None if c == 0 else (TYPES[c - 1] if c - 1 < len(TYPES) else '<type %d>' % c)

    def table(self, snap):
        def md(m):
            return [] if m is None else [[md_tree(x) for x in m]]
        return [[self.id(i) for i in snap['oids']], [self.id(i) for i in snap['sids']],
                [[self.val(v) for v in row] for row in snap['mat']], md(snap['omd']), md(snap['smd']),
                self.ttype(snap['type'])]

    def untable(self, tr):
        def md(m):
            return None if not m else [md_untree(x) for x in m[0]]
        return {'oids': [self.unid(c) for c in tr[0]], 'sids': [self.unid(c) for c in tr[1]],
                'mat': [[self.unval(k) for k in row] for row in tr[2]], 'omd': md(tr[3]), 'smd': md(tr[4]),
                'type': self.untype(tr[5])}


def spec_universe(*specs):
    u = []
    for s in specs:
        u += list(s['oids']) + list(s['sids'])
    return u


def norm_snap(s):
    """canonical comparison form of a snapshot (floats that are integral -> int happens in core.canon)"""
    s = dict(s)
    if not s['oids'] or not s['sids']:
        s['mat'] = [[] for _ in s['oids']]
    if not s['oids']:
        s['omd'] = None          # metadata of an axis without ids: () and None are the same thing
    if not s['sids']:
        s['smd'] = None
    return s


def err_code(e):
    """map an exception to the model's small error enum"""
    from biom.exception import TableException, UnknownIDError, UnknownAxisError, DisjointIDError
    if isinstance(e, (UnknownIDError, UnknownAxisError)):
        return 2
    if isinstance(e, DisjointIDError):
        return 3
    if isinstance(e, TableException):
        return 1
    if isinstance(e, KeyError):
        return 4
    if isinstance(e, ValueError):
        return 5
    if isinstance(e, TypeError):
        return 6
    return 9
