"""C20: the error-handling profile is honoured and scoped.
Cases are (a) programs over seterr / seterrcall / geterrcall / errcheck / errstate blocks,
executed on the real biom.err and on the model with the profile compared after every step,
(b) the 7 x 5 reaction table at real call sites (constructor, filter, collapse)."""
import io
import warnings

import numpy as np

import biom.err as E
from biom import Table
from biom.exception import TableException

from . import core
from .core import enc_str, dec_str

ID = 'C20'
KINDS = ['empty', 'obssize', 'sampsize', 'obsdup', 'sampdup', 'obsmdsize', 'sampmdsize']
REACTIONS = ['raise', 'ignore', 'call', 'print', 'warn']
DEFAULT = {'empty': 'ignore', 'obssize': 'raise', 'sampsize': 'raise', 'obsdup': 'raise',
           'sampdup': 'raise', 'obsmdsize': 'raise', 'sampmdsize': 'raise'}
MSG2KIND = {E.EMPTY: 'empty', E.OBSSIZE: 'obssize', E.SAMPSIZE: 'sampsize', E.OBSDUP: 'obsdup',
            E.SAMPDUP: 'sampdup', E.OBSMDSIZE: 'obsmdsize', E.SAMPMDSIZE: 'sampmdsize'}
RULE = ('random well-bracketed programs over seterr/seterrcall/geterrcall/errcheck/errstate (depth <= 3 nesting, '
        "<= 7 instructions per level, 'all', unknown kinds/reactions, exits by exception) with the profile compared "
        'after every instruction, plus the reaction table at the four errcheck call sites: constructor (7 kinds x 5 reactions), filter '
        '(empty on the result; the six other kinds on a table built while the kind was ignored and then filtered in place), '
        'update_ids(inplace=False) (obsdup/sampdup on the renamed copy; and the six non-empty kinds on a latent-defective table with a mapping that renames nothing, in place) and collapse (empty; and the six non-empty kinds travelling from the axis that is not collapsed into the result); '
        'non-trivial = a program that changes the profile at least once or a triggering reaction cell; distinct by case hash')
TRUSTED = ['translator tools/py2v (fail-closed, self-tested by tools/py2v/selftest.py) with its signature file '
           'tools/py2v/sigs/err.json and the hand-written types coq/Model/ErrTypes.v; the generated model is also '
           'tied to biom/err.py by this correspondence run',
           'extraction (ExtrOcamlBasic only) + ocaml/driver_tail.ml, cross-checked against vm_compute on a sample']
_TRUSTED_BASE = list(TRUSTED)


def regenerate():
    """re-translate biom/err.py into coq/Gen/ErrGen.v; a refusal breaks the tie"""
    import re
    rc, out = core.sh([core.os.path.join(core.ROOT, 'tools', 'regen.sh'), 'err'], timeout=300)
    del TRUSTED[:]
    TRUSTED.extend(_TRUSTED_BASE)
    if rc != 0:
        msg = [ln for ln in out.split('\n') if 'REFUSED' in ln]
        TRUSTED.append('translator REFUSED biom/err.py on this run; coq/Gen/ErrGen.v is stale')
        raise core.Broken('translator rejected biom/err.py: %s' % (msg[0].split('REFUSED', 1)[1].strip() if msg else 'rc=%d' % rc), out[-3000:])
    m = re.search(r'-> (\S+) (written|unchanged) \(source sha256 ([0-9a-f]+)\)', out)
    TRUSTED.append('coq/Gen/ErrGen.v regenerated from biom/err.py by tools/py2v on this run (%s; sha256 of source %s)'
                   % (m.group(2) if m else '?', m.group(3) if m else '?'))

ASSUMPTIONS = ['warnings/stdout/callback capture observes what errcheck emits',
               'exceptions raised inside a block are caught directly outside that block']

PROF = getattr(E, '__errprof')
CB = {}       # (kind, cbid) -> function
CBID = {}     # function -> cbid
CALLS = []    # callback invocations, in order


def _cb(kind, n):
    if (kind, n) not in CB:
        def f(item, kind=kind, n=n):
            CALLS.append((kind, n))
            return ('called', kind, n)
        CB[(kind, n)] = f
        CBID[f] = n
    return CB[(kind, n)]


def reset():
    PROF._state.clear()
    PROF._state.update(DEFAULT)
    for k in KINDS:
        PROF._profile[k]['call'] = _cb(k, 0)


class Fake:
    """what the seven test predicates look at"""

    def __init__(self, v):
        self.v = v
        self.shape = (v['rows'], v['cols'])

    def is_empty(self):
        return self.v['empty']

    def ids(self, axis='sample'):
        return ['i%d' % i for i in (self.v['sids'] if axis == 'sample' else self.v['oids'])]

    def metadata(self, axis='sample'):
        n = self.v['smd'] if axis == 'sample' else self.v['omd']
        return None if n is None else [{} for _ in range(n)]


def observe(fn):
    """run fn, return the event it produced in the model's vocabulary"""
    buf = io.StringIO()
    old = E.stdout
    E.stdout = buf
    del CALLS[:]
    try:
        with warnings.catch_warnings(record=True) as w:
            warnings.simplefilter('always')
            try:
                ret = fn()
            except TableException as e:
                return ['ok', ['raise', MSG2KIND.get(str(e), str(e))]]
            except KeyError:
                return ['err', 1]
            except TypeError:
                return ['err', 3]
        if w:
            return ['ok', ['warn', MSG2KIND.get(str(w[0].message), str(w[0].message))]]
        if buf.getvalue():
            line = buf.getvalue().split('\n')[0]    # an operation may check more than once (collapse: twice)
            return ['ok', ['print', MSG2KIND.get(line, line)]]
        if CALLS:
            return ['ok', ['call', CALLS[0][0], CALLS[0][1]]]
        return ['ok', ['none']]
    finally:
        E.stdout = old


def snap():
    return ['state', [[k, v] for k, v in E.geterr().items()],
            [[k, CBID.get(PROF._profile[k]['call'], -1)] for k in PROF._state]]


class Marker(Exception):
    pass


def exec_prog(prog, out):
    for ins in prog:
        op = ins[0]
        if op == 'seterr':
            try:
                r = E.seterr(**dict(ins[1]))
                out.append(['seterr', ['ok', [[k, v] for k, v in r.items()]]])
            except KeyError:
                out.append(['seterr', ['err', 1]])
            out.append(snap())
        elif op == 'setcall':
            try:
                r = E.seterrcall(ins[1], _cb(ins[1], ins[2]))
                out.append(['call', ['ok', CBID.get(r, -1)]])
            except KeyError:
                out.append(['call', ['err', 1]])
            out.append(snap())
        elif op == 'getcall':
            try:
                out.append(['call', ['ok', CBID.get(E.geterrcall(ins[1]), -1)]])
            except KeyError:
                out.append(['call', ['err', 1]])
            out.append(snap())
        elif op == 'check':
            out.append(['check', observe(lambda: E.errcheck(Fake(ins[1]), *ins[2]))])
            out.append(snap())
        elif op == 'block':
            entered = False
            try:
                with E.errstate(**dict(ins[1])):
                    entered = True
                    out.append(['enter', True])
                    out.append(snap())
                    exec_prog(ins[2], out)
                    if ins[3]:
                        raise Marker()
                out.append(['exit'])
                out.append(snap())
            except Marker:
                out.append(['exit'])
                out.append(snap())
            except KeyError:
                if entered:
                    raise
                out.append(['enter', False])
                out.append(snap())


def view_of_table_args(rows, cols, oids, sids, omd, smd):
    return {'empty': rows == 0 or cols == 0, 'rows': rows, 'cols': cols, 'oids': oids, 'sids': sids,
            'omd': omd, 'smd': smd}


def run_react(c):
    """one reaction cell at a real call site"""
    reset()
    v = c['view']
    base = Table(np.ones((2, 2)), ['a', 'b'], ['x', 'y'])
    emptied = base.filter([], axis='observation', inplace=False)
    E.seterr(**{c['errkind']: c['reaction']})
    if c['reaction'] == 'call':
        E.seterrcall(c['errkind'], _cb(c['errkind'], 1))
    site = c['site']
    data = np.arange(1, v['rows'] * v['cols'] + 1, dtype=float).reshape(v['rows'], v['cols'])
    oids = ['i%d' % i for i in v['oids']]
    sids = ['i%d' % i for i in v['sids']]
    mk = {'dict': lambda i: {'k': i}, 'none': lambda i: None, 'empty': lambda i: {}}[c.get('mdkind', 'dict')]
    omd = None if v['omd'] is None else [mk(i) for i in range(v['omd'])]
    smd = None if v['smd'] is None else [mk(i) for i in range(v['smd'])]
    if site == 'ctor':
        # the same matrix handed over in another shape-stating input form (the reaction table does not depend on it)
        import scipy.sparse as _sp
        form = c.get('form', 'ndarray')
        kw = {}
        if form == 'dense_lists':
            data, kw = data.tolist(), {'input_is_dense': True}
        elif form in ('csr', 'csc', 'coo'):
            data = getattr(_sp, form + '_matrix')(data)
        elif form == 'rows':
            data = [r for r in data]
        elif form == 'sparse_rows':
            data = [_sp.csr_matrix(r) for r in data]
        ev = observe(lambda: Table(data, oids, sids, omd, smd, **kw) and None)
    elif site == 'filter':
        # build a valid table silently, then filter everything out (or nothing) on one axis
        t = base
        keep = [] if v['empty'] else ['a']
        ev = observe(lambda: t.filter(keep, axis='observation', inplace=False) and None)
    elif site == 'collapse':
        t = emptied if v['empty'] else base
        ev = observe(lambda: t.collapse(lambda i, m: 'g', axis='sample', norm=False) and None)
    elif site == 'update_ids':
        # errcheck(result) at the end of update_ids(inplace=False): the renamed COPY is what is checked
        # (with inplace=True update_ids refuses duplicates before anything is written, whatever the
        # profile says: upstream issue #892, outside the reaction table)
        t = Table(data, ['i0', 'i1'], ['i10', 'i11', 'i12'])
        ax = 'observation' if c['errkind'] == 'obsdup' else 'sample'
        src = list(t.ids(axis=ax))
        idmap = {src[0]: 'q', src[1]: 'q'} if c['trigger'] else {src[0]: 'q'}
        ev = observe(lambda: t.update_ids(idmap, axis=ax, strict=False, inplace=False) and None)
    elif site in ('filter_inplace', 'update_ids_noop', 'collapse_kind'):
        # a table that was built while the kind was ignored, then an in-place filter (keeping every id
        # of the axis the defect is not on) under the configured reaction: filter ends in errcheck(table)
        E.seterr(all='ignore')
        t = Table(data, oids, sids, omd, smd)
        reset()
        E.seterr(**{c['errkind']: c['reaction']})
        if c['reaction'] == 'call':
            E.seterrcall(c['errkind'], _cb(c['errkind'], 1))
        ax = 'sample' if c['errkind'].startswith('obs') else 'observation'
        keep = list(dict.fromkeys(t.ids(axis=ax)))
        if site == 'collapse_kind':
            # collapse builds its result through the validating constructor: a defect on the axis that is NOT
            # collapsed travels into the result and must meet the configured reaction there
            ev = observe(lambda: t.collapse(lambda i, m: 'g', axis=ax, norm=False) and None)
        elif site == 'update_ids_noop':
            # update_ids ends in errcheck(result) whatever the mapping does: a mapping that renames nothing
            # (empty, strict=False) on the axis the defect is not on, in place
            ev = observe(lambda: t.update_ids({}, axis=ax, strict=False, inplace=True) and None)
        else:
            ev = observe(lambda: t.filter(keep, axis=ax, inplace=True) and None)
    out = [['check', ev], snap()]
    reset()
    return out


def run_impl(c):
    if c['kind'] == 'react':
        try:
            return run_react(c)
        except Exception as e:  # pragma: no cover
            reset()
            return ['crash', type(e).__name__, str(e)[:200]]
    reset()
    out = []
    try:
        exec_prog(c['prog'], out)
    except Exception as e:
        out.append(['crash', type(e).__name__, str(e)[:200]])
    reset()
    return out


# ---------------------------------------------------------------- wire
def enc_dict(d):
    return [[enc_str(k), enc_str(v)] for k, v in d]


def enc_view(v):
    return [int(v['empty']), v['rows'], v['cols'], v['oids'], v['sids'],
            [] if v['omd'] is None else [v['omd']], [] if v['smd'] is None else [v['smd']]]


def enc_instr(i):
    op = i[0]
    if op == 'seterr':
        return [0, enc_dict(i[1])]
    if op == 'setcall':
        return [1, enc_str(i[1]), i[2]]
    if op == 'getcall':
        return [2, enc_str(i[1])]
    if op == 'check':
        return [3, enc_view(i[1]), [enc_str(a) for a in i[2]]]
    return [4, enc_dict(i[1]), [enc_instr(x) for x in i[2]], int(i[3])]


def encode(c):
    if c['kind'] == 'react':
        prog = [['seterr', [[c['errkind'], c['reaction']]]]]
        if c['reaction'] == 'call':
            prog.append(['setcall', c['errkind'], 1])
        args = ['empty'] if c['site'] in ('collapse', 'collapse_kind') else []
        prog.append(['check', c['view'], args])
        if c['site'] == 'collapse_kind':
            # the collapsed table: one group 'g' on the collapsed axis (with its collapsed-ids metadata), the other
            # axis as it was, defect included
            v = c['view']
            if c['errkind'].startswith('obs'):
                v2 = dict(v, cols=1, sids=[99], smd=1)
            else:
                v2 = dict(v, rows=1, oids=[99], omd=1)
            prog.append(['check', v2, []])
        if c['site'] == 'collapse':
            # collapse checks 'empty' on the receiver, then the constructor checks the collapsed table
            # (one collapsed sample 'g' over the receiver's observations; F25 repaired: coherent also when empty)
            v = c['view']
            v2 = dict(v, cols=1, sids=[99], smd=1, empty=v['rows'] == 0)
            prog.append(['check', v2, []])
        return [8, [enc_instr(i) for i in prog]]
    return [8, [enc_instr(i) for i in c['prog']]]


def dec_res(t, f):
    if t[0] == -1:
        return ['err', t[1]]
    return ['ok', f(t[1])]


def dec_event(t):
    n = t[0]
    if n == 0:
        return ['none']
    if n == 3:
        return ['call', dec_str(t[1]), t[2]]
    return [{1: 'warn', 2: 'print', 4: 'raise'}[n], dec_str(t[1])]


def dec_obs(t):
    k = t[0]
    if k == 0:
        return ['seterr', dec_res(t[1], lambda d: [[dec_str(a), dec_str(b)] for a, b in d])]
    if k == 1:
        return ['call', dec_res(t[1], lambda z: z)]
    if k == 2:
        return ['check', dec_res(t[1], dec_event)]
    if k == 3:
        return ['enter', bool(t[1])]
    if k == 4:
        return ['exit']
    return ['state', [[dec_str(a), dec_str(b)] for a, b in t[1]], [[dec_str(a), b] for a, b in t[2]]]


def decode(tree, c):
    out = [dec_obs(o) for o in tree]
    if c['kind'] == 'react':
        if c['site'] in ('collapse', 'collapse_kind'):
            first, second = out[-4], out[-2]
            ev = first if first[1] != ['ok', ['none']] else second
            return [ev, out[-1]]
        return out[-2:]
    return out


# ---------------------------------------------------------------- generation
def gen_view(rng):
    rows, cols = rng.randint(0, 3), rng.randint(0, 3)
    oids = list(range(rows))
    sids = list(range(10, 10 + cols))
    omd = smd = None
    r = rng.random()
    if r < 0.12 and rows:
        oids[rng.randrange(rows)] = oids[0] if rows > 1 else oids[0]
        if rows > 1:
            oids[-1] = oids[0]
    elif r < 0.24 and cols > 1:
        sids[-1] = sids[0]
    elif r < 0.34:
        oids = oids + [7] if rng.random() < 0.5 else oids[:-1]
    elif r < 0.44:
        sids = sids + [17] if rng.random() < 0.5 else sids[:-1]
    elif r < 0.54:
        omd = rows + rng.choice([-1, 1]) if rows else 1
    elif r < 0.64:
        smd = cols + rng.choice([-1, 1]) if cols else 1
    elif r < 0.8:
        omd, smd = rows, cols
    if rng.random() < 0.15:
        omd = rng.randint(0, 3)
    return view_of_table_args(rows, cols, oids, sids, omd, smd)


def gen_kw(rng):
    r = rng.random()
    kinds = KINDS + (['bogus'] if rng.random() < 0.15 else [])
    reacts = REACTIONS + (['explode'] if rng.random() < 0.15 else [])
    if r < 0.15:
        return [['all', rng.choice(reacts)]]
    n = rng.choice([0, 1, 1, 1, 2, 2, 3])
    ks = rng.sample(kinds, min(n, len(kinds)))
    kw = [[k, rng.choice(reacts)] for k in ks]
    if rng.random() < 0.05:
        kw.insert(rng.randint(0, len(kw)), ['all', rng.choice(reacts)])
    return kw


def gen_prog(rng, depth, maxlen):
    prog = []
    for _ in range(rng.randint(1, maxlen)):
        r = rng.random()
        if r < 0.3:
            prog.append(['seterr', gen_kw(rng)])
        elif r < 0.4:
            prog.append(['setcall', rng.choice(KINDS + ['bogus']), rng.randint(0, 3)])
        elif r < 0.45:
            prog.append(['getcall', rng.choice(KINDS + ['bogus'])])
        elif r < 0.7 or depth == 0:
            args = [] if rng.random() < 0.7 else rng.sample(KINDS, rng.randint(1, 3))
            prog.append(['check', gen_view(rng), args])
        else:
            prog.append(['block', gen_kw(rng), gen_prog(rng, depth - 1, max(2, maxlen - 2)), rng.random() < 0.4])
    return prog


def _defect(k, trig):
    """constructor arguments of a 2 x 3 table that trigger exactly kind k (or none)"""
    rows, cols = 2, 3
    oids, sids, omd, smd = [0, 1], [10, 11, 12], None, None
    if trig:
        if k == 'empty':
            rows, oids = 0, []
        elif k == 'obssize':
            oids = [0, 1, 2]
        elif k == 'sampsize':
            sids = [10, 11]
        elif k == 'obsdup':
            oids = [0, 0]
        elif k == 'sampdup':
            sids = [10, 11, 10]
        elif k == 'obsmdsize':
            omd = 3
        elif k == 'sampmdsize':
            smd = 2
    return rows, cols, oids, sids, omd, smd


def react_cases():
    out = []
    for k in KINDS:
        for r in REACTIONS:
            for trig in (True, False):
                rows, cols, oids, sids, omd, smd = _defect(k, trig)
                out.append({'kind': 'react', 'site': 'ctor', 'errkind': k, 'reaction': r, 'trigger': trig,
                            'view': view_of_table_args(rows, cols, oids, sids, omd, smd)})
                if rows:
                    for form in ('dense_lists', 'csr', 'csc', 'coo', 'rows', 'sparse_rows'):
                        out.append({'kind': 'react', 'site': 'ctor', 'errkind': k, 'reaction': r, 'trigger': trig, 'form': form,
                                    'view': view_of_table_args(rows, cols, oids, sids, omd, smd)})
                if trig and k in ('obsmdsize', 'sampmdsize'):
                    # metadata of the wrong size whose entries are all None / all empty is still the wrong size
                    for mdkind in ('none', 'empty'):
                        for n in (1, 3) if k == 'obsmdsize' else (2, 4):
                            v = view_of_table_args(rows, cols, oids, sids, n if k == 'obsmdsize' else None,
                                                   n if k == 'sampmdsize' else None)
                            out.append({'kind': 'react', 'site': 'ctor', 'errkind': k, 'reaction': r, 'trigger': True,
                                        'view': v, 'mdkind': mdkind})
    for k in ('obsdup', 'sampdup'):
        for r in REACTIONS:
            for trig in (True, False):
                oids, sids = ([0, 0] if trig and k == 'obsdup' else [0, 1]), ([10, 10, 12] if trig and k == 'sampdup' else [10, 11, 12])
                out.append({'kind': 'react', 'site': 'update_ids', 'errkind': k, 'reaction': r, 'trigger': trig,
                            'view': view_of_table_args(2, 3, oids, sids, None, None)})
    for k in KINDS[1:]:
        for r in REACTIONS:
            for trig in (True, False):
                rows, cols, oids, sids, omd, smd = _defect(k, trig)
                for site in ('filter_inplace', 'update_ids_noop', 'collapse_kind'):
                    out.append({'kind': 'react', 'site': site, 'errkind': k, 'reaction': r, 'trigger': trig,
                                'view': view_of_table_args(rows, cols, oids, sids, omd, smd)})
    for site in ('filter', 'collapse'):
        for r in REACTIONS:
            for trig in (True, False):
                rows = 0 if trig else (1 if site == 'filter' else 2)
                v = view_of_table_args(rows, 2, list(range(rows)), [10, 11], None, None)
                out.append({'kind': 'react', 'site': site, 'errkind': 'empty', 'reaction': r, 'trigger': trig, 'view': v})
    return out


def gen(rng, tier):
    for c in react_cases():
        yield c
    n = 400 if tier == 'quick' else 6000
    for _ in range(n):
        yield {'kind': 'prog', 'prog': gen_prog(rng, 3, 7)}


def nontrivial(c):
    if c['kind'] == 'react':
        return c['trigger']
    def changes(p):
        return any(i[0] in ('seterr', 'setcall') or (i[0] == 'block' and (i[1] or changes(i[2]))) for i in p)
    return changes(c['prog'])


def classify(c):
    if c['kind'] == 'react':
        return ['react:' + c['site'], 'form:' + c.get('form', 'ndarray')]
    tags = ['prog']
    def walk(p, d):
        for i in p:
            tags.append('op:' + i[0])
            if i[0] == 'block':
                tags.append('depth:%d' % (d + 1))
                if i[3]:
                    tags.append('exit:exception')
                walk(i[2], d + 1)
    walk(c['prog'], 0)
    return tags


# ---------------------------------------------------------------- oracle (the property text)
def oracle(c, obs):
    """independent of the model: reference = a scoped configuration stack"""
    fails = []
    if obs and obs[0] == 'crash':
        return ['implementation crashed: %s' % obs]
    if c['kind'] == 'react':
        ev = obs[0][1]
        want = ['none']
        if c['trigger'] and c['reaction'] != 'ignore':
            want = [c['reaction'], c['errkind']] + ([1] if c['reaction'] == 'call' else [])
        if ev != ['ok', want]:
            fails.append('reaction: kind=%s reaction=%s trigger=%s at %s: expected %s, observed %s'
                         % (c['errkind'], c['reaction'], c['trigger'], c['site'], want, ev))
        return fails
    # programs: replay against a reference stack of scopes
    it = iter(obs)
    cur = dict(DEFAULT)

    def valid(kw):
        d = dict(kw)
        if 'all' in d:          # documented: 'all' sets the treatment for all kinds
            return d['all'] in REACTIONS
        return all(k in KINDS and v in REACTIONS for k, v in kw)

    def apply(kw, st):
        d = dict(kw)
        if 'all' in d:
            return {k: d['all'] for k in st}
        st = dict(st)
        st.update(d)
        return st

    def state_of(o):
        return dict(o[1])

    def triggers(v):
        """which kinds the offered object exhibits (plain reading of the seven definitions)"""
        t = set()
        if v['empty']:
            t.add('empty')
        if v['rows'] != len(v['oids']):
            t.add('obssize')
        if v['cols'] != len(v['sids']):
            t.add('sampsize')
        if len(set(v['oids'])) != len(v['oids']):
            t.add('obsdup')
        if len(set(v['sids'])) != len(v['sids']):
            t.add('sampdup')
        if v['omd'] is not None and v['omd'] != v['rows']:
            t.add('obsmdsize')
        if v['smd'] is not None and v['smd'] != v['cols']:
            t.add('sampmdsize')
        return t

    def walk(prog, cur):
        for ins in prog:
            op = ins[0]
            if op == 'seterr':
                r = next(it); s = next(it)
                if valid(ins[1]):
                    new = apply(ins[1], cur)
                    if r[1][0] != 'ok' or dict(r[1][1]) != cur:
                        fails.append('seterr%s did not return the previous profile' % (ins[1],))
                else:
                    new = cur
                    if r[1][0] != 'err':
                        fails.append('seterr%s with unknown kind/reaction was not refused' % (ins[1],))
                if state_of(s) != new:
                    fails.append('after seterr%s profile is %s, expected %s' % (ins[1], state_of(s), new))
                cur = state_of(s)
            elif op in ('setcall', 'getcall', 'check'):
                r = next(it); s = next(it)
                if op == 'check' and all(k in KINDS for k in ins[2]):
                    # the configured reaction is what happens: when at most one of the kinds the
                    # object exhibits has a reaction other than 'ignore', that reaction (or nothing)
                    # must be observed -- an ignored kind must not hide another one
                    live = [k for k in sorted(triggers(ins[1]) & set(ins[2] or KINDS)) if cur.get(k) != 'ignore']
                    if len(live) <= 1:
                        want = ['none']
                        if live:
                            want = [cur[live[0]], live[0]] + ([dict(s[2]).get(live[0])] if cur[live[0]] == 'call' else [])
                        if r[1] != ['ok', want]:
                            fails.append('errcheck with profile %s on an object exhibiting %s: expected %s, observed %s'
                                         % (cur, sorted(triggers(ins[1])), want, r[1]))
                if state_of(s) != cur:
                    fails.append('%s changed the profile' % op)
                cur = state_of(s)
            elif op == 'block':
                e = next(it); s = next(it)
                if not valid(ins[1]):
                    if e != ['enter', False]:
                        fails.append('errstate%s with unknown kind/reaction was entered' % (ins[1],))
                    if state_of(s) != cur:
                        fails.append('refused errstate%s changed the profile to %s' % (ins[1], state_of(s)))
                    cur = state_of(s)
                    continue
                inner = apply(ins[1], cur)
                if state_of(s) != inner:
                    fails.append('inside errstate%s profile is %s, expected %s' % (ins[1], state_of(s), inner))
                walk(ins[2], state_of(s))
                next(it); s = next(it)
                if state_of(s) != cur:
                    fails.append('after errstate%s (exit by %s) profile is %s, expected the previous %s'
                                 % (ins[1], 'exception' if ins[3] else 'normal completion', state_of(s), cur))
                cur = state_of(s)
        return cur
    try:
        walk(c['prog'], cur)
    except (StopIteration, TypeError, IndexError, ValueError, KeyError):
        fails.append('observation stream does not have the shape the program prescribes')
    return fails[:3]


def shrink(c):
    if c['kind'] != 'prog':
        return
    p = c['prog']
    for i in range(len(p)):
        yield {'kind': 'prog', 'prog': p[:i] + p[i + 1:]}
    for i, ins in enumerate(p):
        if ins[0] == 'block':
            yield {'kind': 'prog', 'prog': p[:i] + ins[2] + p[i + 1:]}
            for sub in shrink({'kind': 'prog', 'prog': ins[2]}):
                yield {'kind': 'prog', 'prog': p[:i] + [['block', ins[1], sub['prog'], ins[3]]] + p[i + 1:]}
        if ins[0] in ('seterr', 'block') and len(ins[1]) > 1:
            for j in range(len(ins[1])):
                q = list(ins); q[1] = ins[1][:j] + ins[1][j + 1:]
                yield {'kind': 'prog', 'prog': p[:i] + [q] + p[i + 1:]}


# known-finding signatures: (case, impl obs, model obs, oracle failures) -> bool
def _f25(c, io, mo, fails):
    return (c.get('kind') == 'react' and c.get('site') == 'collapse' and c.get('reaction') == 'ignore'
            and c.get('trigger') and io and io[0][0] == 'check' and io[0][1][0] == 'ok' and io[0][1][1][0] == 'raise')


SIGNATURES = {}
