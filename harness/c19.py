"""C19: summaries and exports report the numbers that are in the matrix.

A case = one table spec (content + layout recipe, optionally a short history `pre` and an injected
representation) and ONE summary call.  The implementation runs on the real biom.Table; the model
(coq/Model/Summary.v) receives the representation the table holds just before the call (format,
indptr, indices, data as scipy has them), the ids and the metadata in dict order."""
import contextlib
import csv
import io
import locale
import math
import os
import re
import tempfile
from fractions import Fraction

import numpy as np
from scipy.sparse import csc_matrix, csr_matrix

from biom import Table
from biom.util import compute_counts_per_sample_stats

from . import tables as T
from .core import canon, enc_str, dec_str, jhash

ID = 'C19'
RULE = ('tables from tables.rand_spec (1..4 x 1..5, mostly non-square, asymmetric; counts / signed / k/64 values; '
        'metadata none/text/num/tax/group/one axis only/differing key order/differing key sets; every layout recipe; '
        'optionally a history step (subsample with a seed, transform v-1) or an injected representation with stored '
        'zeros / reversed indices in CSR or CSC; hand-made 0 x n and n x 0 tables) x one call of '
        '{sum, min, max, nonzero, nonzero_counts, reduce(+,-,max), get_table_density, nnz, compute_counts_per_sample_stats, '
        '_summarize_table in its 4 modes, table-ids, head, to_dataframe dense/sparse, metadata_to_dataframe, _export_metadata} '
        'x every axis / flag, shapes and number kinds of returned arrays compared as well (18 % of the tables 1 x n / n x 1 / 1 x 1); generators (nonzero, iter, iter_data, iter_pairwise) consumed with a layout-flipping read between successive items; plus, in both tiers, the four commands through the real click group in process (every forwarded option varied); '
        'non-trivial = at least 2x2, non-square or asymmetric matrix with zero and non-zero cells; distinct by case hash')
TRUSTED = ['hand-written model coq/Model/Summary.v tied to biom/table.py, biom/util.py and biom/cli/*.py by this correspondence run',
           'scipy conversions as Sparse.swap_segs (segment view); Table.filter inside head is property C08',
           'text formatting (%d, %1.3f, locale grouping, str(table), pandas to_csv) is not modelled: reports are parsed back and '
           'compared at printed precision; std. dev. is the square root (taken by the harness) of the modelled variance',
           'pandas column type inference (ints shown as floats in a padded column) is outside the model: cells compared as numbers']
from . import regen as _regen
from . import regen_sum as _regen_sum
from . import core as _core
_regenerate_helpers = _regen.hook(TRUSTED, ['helpers'])   # py2v: regenerate coq/Gen/HelpersGen.v from the source first
# py2v_sum: regenerate coq/Gen/SummaryGen.v (biom/util.py compute_counts_per_sample_stats) as well
_SUM_TRUSTED = []
# and coq/Gen/SummaryTableGen.v (biom/table.py Table.is_empty, Table.get_table_density)
# and coq/Gen/SummaryReportGen.v (biom/cli/table_summarizer.py _summarize_table: which figure under which label, in which order)
_regenerate_summary = _regen_sum.hook(_SUM_TRUSTED, ['summary', 'density', 'report'],
                                      'coq/Model/Summary.v (r_stats, r_empty, r_density, r_report)',
                                      'coq/Proofs/GenBridgeSummaryProofs.v, GenBridgeSummaryTableProofs.v, GenBridgeSummaryReportProofs.v',
                                      vocab='coq/Gen/SumPrelude.v, coq/Gen/SumTablePrelude.v, coq/Gen/SumReportPrelude.v')


def regenerate():
    """both translators run, also when the first one refuses its source"""
    first = None
    try:
        _regenerate_helpers()
    except _core.Broken as e:
        first = e
    try:
        _regenerate_summary()
    finally:
        TRUSTED.extend(_SUM_TRUSTED)
    if first is not None:
        raise first


ASSUMPTIONS = ['matrix values are multiples of 1/64 with sums below 2^53 (sums exact in binary64 and in Z)',
               'ids and metadata keys contain no tab, newline, "; " or ": "']

AX3 = {'observation': 0, 'sample': 1, 'whole': 2}
AX = {'observation': 0, 'sample': 1}
FUNCS = {'add': (0, lambda x, y: x + y), 'sub': (1, lambda x, y: x - y), 'max': (2, lambda x, y: max(x, y))}
OPS = {'gen': 15, 'sum': 0, 'min': 1, 'max': 2, 'nonzero': 3, 'nzcounts': 4, 'reduce': 5, 'density': 6, 'stats': 7, 'report': 8,
       'ids': 9, 'head': 10, 'df': 11, 'sdf': 12, 'mddf': 13, 'nnz': 14, 'export': 13,
       'cli_report': 8, 'cli_ids': 9, 'cli_head': 10, 'cli_export': 13}
LABELS = [('Num samples: ', 1), ('Num observations: ', 2), ('Total count: ', 3),
          ('Table density (fraction of non-zero values): ', 4), (' Min: ', 5), (' Max: ', 6), (' Median: ', 7),
          (' Mean: ', 8), (' Std. dev.: ', 9), (' Sample Metadata Categories: ', 10),
          (' Observation Metadata Categories: ', 11)]
TITLES = {(False, False): ['Counts/sample summary:', 'Counts/sample detail:'],
          (False, True): ['Counts/sample summary:', 'Counts/sample detail:'],
          (True, False): ['Observations/sample summary:', 'Observations/sample detail:'],
          (True, True): ['Sample/observations summary:', 'Observations/sample detail:']}


# ---------------------------------------------------------------- building the table under test
def _inject(t, how):
    """replace the matrix by one with the same content whose stored entries carry explicit zeros and / or
    reversed index order, in CSR or CSC (a representation no history leaves any more since the repairs of
    subsample and of the constructor, kept to validate the model on it)"""
    d = t.matrix_data
    fmt = 'csc' if 'csc' in how else 'csr'
    D = np.asarray(d.todense(), dtype=float).reshape(d.shape)
    A = D if fmt == 'csr' else D.T
    indptr, indices, data = [0], [], []
    for i in range(A.shape[0]):
        idx = [j for j in range(A.shape[1]) if A[i, j] != 0]
        if 'zeros' in how:
            zs = [j for j in range(A.shape[1]) if A[i, j] == 0]
            idx = sorted(idx + zs[:1 + (i % 2)])
        if 'unsorted' in how:
            idx = idx[::-1]
        indices += idx
        data += [A[i, j] for j in idx]
        indptr.append(len(indices))
    cls = csr_matrix if fmt == 'csr' else csc_matrix
    m = cls((np.array(data, dtype=float), np.array(indices, dtype=np.int32), np.array(indptr, dtype=np.int32)),
            shape=d.shape)
    t._data = m
    return t


def make(c):
    t = T.build(c['spec'])
    for step in c.get('pre') or []:
        if step[0] == 'subsample':
            t = t.subsample(step[1], seed=step[2])
        elif step[0] == 'dec':
            t = t.transform(lambda v, i, m: v - 1, axis=step[1], inplace=False)
        elif step[0] == 'transpose':
            t = t.transpose()
        else:
            raise ValueError(step)
    if c.get('inject'):
        t = _inject(t, c['inject'])
    return t


def _md_list(t, axis):
    md = t.metadata(axis=axis)
    return None if md is None else [[(str(k), T.plain(v)) for k, v in m.items()] for m in md]


def content(c):
    """reference content of the table under test, never through the summary code: the spec itself, or after a
    history step scipy's densification of the table the step produced"""
    if not c.get('pre'):
        s = c['spec']
        M = np.array(s['mat'], dtype=float).reshape(len(s['oids']), len(s['sids']))

        def md(m):
            if m is None or all(not x for x in m):
                return None
            return [list((x or {}).items()) for x in m]
        return {'oids': list(s['oids']), 'sids': list(s['sids']), 'M': M, 'omd': md(s.get('omd')), 'smd': md(s.get('smd'))}
    t = make(dict(c, inject=None))
    d = t.matrix_data
    return {'oids': [str(i) for i in t.ids(axis='observation')], 'sids': [str(i) for i in t.ids()],
            'M': np.asarray(d.todense(), dtype=float).reshape(d.shape),
            'omd': _md_list(t, 'observation'), 'smd': _md_list(t, 'sample')}


# ---------------------------------------------------------------- parsing printed output back
def _milli(txt):
    """'12.346' -> 12346 ; 'nan' -> None (three printed decimals as an integer, never float text vs float text)"""
    txt = txt.strip()
    sep = locale.localeconv().get('thousands_sep') or ''
    if sep:
        txt = txt.replace(sep, '')
    dp = locale.localeconv().get('decimal_point') or '.'
    txt = txt.replace(dp, '.')
    if txt.lower() in ('nan', '-nan'):
        return None
    f = Fraction(txt) * 1000
    if f.denominator != 1:
        raise ValueError('more than three decimals: %r' % txt)
    return int(f)


def _fmt_milli(x):
    """what %1.3f prints for the double x, as thousandths"""
    if x is None or (isinstance(x, float) and math.isnan(x)):
        return None
    return _milli('%1.3f' % x)


def parse_report(text, q, o):
    lines = text.split('\n')
    out, detail, titles = [], [], []
    i = 0
    while i < len(lines):
        ln = lines[i]
        i += 1
        if ln == '':
            continue
        if ln in ('Counts/sample summary:', 'Observations/sample summary:', 'Sample/observations summary:'):
            titles.append(ln)
            continue
        if ln in ('Counts/sample detail:', 'Observations/sample detail:'):
            titles.append(ln)
            break
        for pre, code in LABELS:
            if ln.startswith(pre):
                v = ln[len(pre):]
                if code in (1, 2):
                    out.append([code, ['i', int(v.replace(locale.localeconv().get('thousands_sep') or '\0', ''))]])
                elif code == 3:
                    out.append([code, ['m', _milli(v)] if (locale.localeconv().get('decimal_point') or '.') in v
                                else ['i', int(v.replace(locale.localeconv().get('thousands_sep') or '\0', ''))]])
                elif code in (10, 11):
                    out.append([code, ['k', None if v == 'None provided' else v.split('; ')]])
                else:
                    out.append([code, ['m', _milli(v)]])
                break
        else:
            raise ValueError('unparsed report line %r' % ln)
    for ln in lines[i:]:
        if ln == '':
            continue
        k, v = ln.rsplit(': ', 1)
        detail.append([k, _milli(v)])
    return {'lines': out, 'detail': detail, 'titles': titles}


def parse_tsv_table(text):
    """str(table): comment line, header line, one line per observation"""
    ls = text.rstrip('\n').split('\n')
    hdr = ls[1].split('\t')
    rows = [ln.split('\t') for ln in ls[2:]]
    return [hdr[1:], [[r[0], [float(x) for x in r[1:]]] for r in rows]]


def loose(x):
    """cell of a written TSV / of a DataFrame compared through text: missing -> None, numbers as numbers"""
    if x is None:
        return None
    if isinstance(x, (bool, np.bool_)):
        return 'True' if x else 'False'
    if isinstance(x, (int, float, np.integer, np.floating)):
        x = float(x)
        return None if math.isnan(x) else x
    if isinstance(x, (list, tuple, np.ndarray)):
        return str(list(x))
    s = str(x)
    if s == '':
        return None
    try:
        f = float(s)
        return None if math.isnan(f) else f
    except ValueError:
        return s


def cell(x):
    """cell of a DataFrame taken as a python value"""
    if x is None:
        return None
    if isinstance(x, np.generic):
        x = x.item()
    if isinstance(x, float) and math.isnan(x):
        return None
    if isinstance(x, (list, tuple, np.ndarray)):
        return [cell(v) for v in x]
    return x


def parse_md_tsv(text):
    rows = list(csv.reader(io.StringIO(text), delimiter='\t'))
    return ['ok', rows[0][1:], [[r[0], [loose(x) for x in r[1:]]] for r in rows[1:]]]


# ---------------------------------------------------------------- implementation
def run_impl(c):
    try:
        return _run_impl(c)
    except Exception as e:  # pragma: no cover - harness bug or crash in the library
        return ['crash', type(e).__name__, str(e)[:200]]


def _err(e):
    return ['err', T.err_code(e)]


def _write(t, d):
    p = os.path.join(d, 'in.biom')
    with open(p, 'w') as fh:
        fh.write(t.to_json('verif'))
    return p


class _Res:
    def __init__(self, output, exception):
        self.output, self.exception = output, exception
        self.exit_code = 0 if exception is None else 1


def _invoke(args):
    """the real `biom` click group, in process: biom.cli.cli.main(args, standalone_mode=False).  The group's close
    callback reopens fd 1 and the wrapper it leaves behind closes it when collected: the standard descriptors are
    saved and restored around the call; what the command echoes is captured through sys.stdout."""
    from biom.cli import cli
    buf = io.StringIO()
    err = None
    saved = [os.dup(k) for k in (0, 1, 2)]
    try:
        try:
            with contextlib.redirect_stdout(buf):
                cli.main(args=list(args), standalone_mode=False)
        except BaseException as e:          # click may raise SystemExit / Abort / UsageError
            err = e if isinstance(e, Exception) else RuntimeError(repr(e))
    finally:
        for k, fd in enumerate(saved):
            os.dup2(fd, k)
            os.close(fd)
    return _Res(buf.getvalue(), err)


def _shaped(x, v):
    """value observable + the SHAPE and dtype kind of what the method returned (a 0-d array is not a 1-element vector)"""
    if x is None:
        return {'v': v, 'shape': None, 'kind': None}
    a = np.asarray(x)
    return {'v': v, 'shape': [int(n) for n in a.shape], 'kind': 'i' if a.dtype.kind in 'iu' else a.dtype.kind}


FLIPS = {
    'col': lambda t: t.data(t.ids()[0], axis='sample'),
    'row': lambda t: t.data(t.ids(axis='observation')[-1], axis='observation'),
    'minS': lambda t: t.min('sample'),
    'maxO': lambda t: t.max('observation'),
    'stats': lambda t: compute_counts_per_sample_stats(t),
    'iterS': lambda t: [v.sum() for v in t.iter_data(axis='sample')],
    'iterO': lambda t: [v.sum() for v in t.iter_data(axis='observation', dense=False)],
    'nzS': lambda t: t.nonzero_counts('sample'),
    'nzO': lambda t: t.nonzero_counts('observation'),
    'nnz': lambda t: t.nnz,
    'nonzero': lambda t: list(t.nonzero()),
}


def _gen_of(c, t):
    w = c['which']
    if w == 'nonzero':
        return t.nonzero(), lambda x: [str(x[0]), str(x[1])]
    if w == 'iter':
        return t.iter(axis=c['axis'], dense=c['dense']), lambda x: [_vec(x[0]), str(x[1])]
    if w == 'iter_data':
        return t.iter_data(axis=c['axis'], dense=c['dense']), lambda x: [_vec(x)]
    if w == 'pairwise':
        return (t.iter_pairwise(axis=c['axis'], dense=c['dense'], tri=c['tri'], diag=c['diag']),
                lambda x: [str(x[0][1]), str(x[1][1]), _vec(x[0][0]), _vec(x[1][0])])
    raise ValueError(w)


def _vec(v):
    if hasattr(v, 'toarray'):
        v = v.toarray()
    return np.asarray(v, dtype=float).ravel().tolist()


def _consume(c, t, flips):
    g, conv = _gen_of(c, t)
    out = []
    n = 0
    for item in g:
        out.append(conv(item))          # converted at once: the item must not depend on what happens next
        if flips:
            try:
                FLIPS[flips[n % len(flips)]](t)     # a read-only query that leaves the matrix in another layout
            except (ValueError, IndexError):        # min/max of an all-zero vector, data() on an empty table
                pass
            n += 1
    return out


def _run_gen(c, t):
    """a generator-returning accessor consumed with a layout-flipping read between successive items; what comes out
    must be what the same generator gives when taken as a list up front"""
    try:
        inter = _consume(c, t, c['flips'])
    except Exception as e:
        return {'items': _err(e), 'same_as_upfront': None}
    try:
        up = _consume(c, make(c), [])
    except Exception as e:
        up = _err(e)
    return {'items': ['ok', inter], 'same_as_upfront': canon(up) == canon(inter)}


_STD_SEEN = {}


def _see_std(c, rep):
    """remember the printed std. dev. of this case (used by decode for printing ties only)"""
    for code, fig in rep['lines']:
        if code == 9:
            _STD_SEEN[jhash(c)] = fig[1]
    return rep


def _run_impl(c):
    t = make(c)
    k = c['kind']
    if k == 'sum':
        v = t.sum(c['axis'])
        return _shaped(v, np.asarray(v, dtype=float).ravel().tolist())
    if k in ('min', 'max'):
        try:
            v = getattr(t, k)(c['axis'])
        except Exception as e:
            return _shaped(None, _err(e))
        if c['axis'] == 'whole':
            return _shaped(v, ['ok', None if np.isinf(v) else float(v)])
        return _shaped(v, ['ok', np.asarray(v, dtype=float).ravel().tolist()])
    if k == 'nonzero':
        return [[str(o), str(s)] for o, s in t.nonzero()]
    if k == 'gen':
        return _run_gen(c, t)
    if k == 'nzcounts':
        v = t.nonzero_counts(c['axis'], binary=c['binary'])
        return _shaped(v, np.asarray(v, dtype=float).ravel().tolist())
    if k == 'reduce':
        try:
            v = t.reduce(FUNCS[c['f']][1], c['axis'])
        except Exception as e:
            return _shaped(None, _err(e))
        return _shaped(v, ['ok', np.asarray(v, dtype=float).ravel().tolist()])
    if k == 'density':
        return float(t.get_table_density())
    if k == 'nnz':
        return int(t.nnz)
    if k == 'stats':
        mn, mx, med, avg, counts = compute_counts_per_sample_stats(t, c['binary'])
        return [float(mn), float(mx), float(med), float(avg), [[str(i), float(v)] for i, v in counts.items()]]
    if k == 'report':
        from biom.cli.table_summarizer import _summarize_table
        return _see_std(c, parse_report(_summarize_table(t, c['q'], c['o']), c['q'], c['o']))
    if k == 'ids':
        from biom.cli.table_ids import summarize_table as table_ids
        with tempfile.TemporaryDirectory() as d:
            p = _write(t, d)
            buf = io.StringIO()
            with contextlib.redirect_stdout(buf):
                table_ids.callback(input_fp=p, observations=c['obs'])
        return buf.getvalue().split('\n')[:-1]
    if k == 'head':
        from biom.cli.table_head import head
        with tempfile.TemporaryDirectory() as d:
            p = _write(t, d)
            buf = io.StringIO()
            try:
                with contextlib.redirect_stdout(buf):
                    head.callback(input_fp=p, output_fp=None, n_obs=c['n'], n_samp=c['m'])
            except Exception as e:
                return _err(e)
        return ['ok'] + parse_tsv_table(buf.getvalue())
    if k == 'df':
        df = t.to_dataframe(dense=True)
        return [[str(i) for i in df.index], [str(i) for i in df.columns], np.asarray(df.values, dtype=float).reshape(t.shape).tolist()]
    if k == 'sdf':
        df = t.to_dataframe()
        a = df.to_numpy(dtype=float).reshape(t.shape)
        return [[str(i) for i in df.index], [str(i) for i in df.columns], [[cell(v) for v in row] for row in a.tolist()]]
    if k == 'mddf':
        try:
            df = t.metadata_to_dataframe(c['axis'])
        except Exception as e:
            return _err(e)
        return ['ok', [str(x) for x in df.columns], [[str(i), [cell(v) for v in row]] for i, row in zip(df.index, df.values.tolist())]]
    if k == 'export':
        from biom.cli.metadata_exporter import _export_metadata
        with tempfile.TemporaryDirectory() as d:
            out = os.path.join(d, 'md.tsv')
            buf = io.StringIO()
            try:
                with contextlib.redirect_stdout(buf):
                    _export_metadata(t, c['axis'], 'in.biom', out)
            except Exception as e:
                return _err(e)
            if not os.path.exists(out):
                return ['nomd', 'does not contain %s metadata' % c['axis'] in buf.getvalue()]
            return parse_md_tsv(open(out, newline='').read())
    if k.startswith('cli_'):
        with tempfile.TemporaryDirectory() as d:
            p = _write(t, d)
            out = os.path.join(d, 'out.txt')
            if k == 'cli_report':
                r = _invoke(['summarize-table', '-i', p] + (['--qualitative'] if c['q'] else [])
                            + (['--observations'] if c['o'] else []) + (['-o', out] if c.get('out') else []))
                if r.exit_code != 0:
                    return _err(r.exception)
                text = open(out).read() if c.get('out') else r.output.rstrip('\n')
                if c.get('out') and r.output.strip():
                    return ['crash', 'stdout', 'summarize-table -o also printed %r' % r.output[:80]]
                return _see_std(c, parse_report(text, c['q'], c['o']))
            if k == 'cli_ids':
                r = _invoke(['table-ids', '-i', p] + (['--observations'] if c['obs'] else []))
                if r.exit_code != 0:
                    return _err(r.exception)
                return r.output.split('\n')[:-1]
            if k == 'cli_head':
                args = ['head', '-i', p]
                if c['n'] != 5 or not c.get('defaults'):
                    args += [c.get('nflag', '-n'), str(c['n'])]
                if c['m'] != 5 or not c.get('defaults'):
                    args += [c.get('mflag', '-m'), str(c['m'])]
                r = _invoke(args + (['-o', out] if c.get('out') else []))
                if r.exit_code != 0:
                    return _err(r.exception)
                return ['ok'] + parse_tsv_table(open(out).read() if c.get('out') else r.output)
            if k == 'cli_export':
                outs = {'sample': os.path.join(d, 'smd.tsv'), 'observation': os.path.join(d, 'omd.tsv')}
                axes = ['sample', 'observation'] if c.get('both') else [c['axis']]
                args = ['export-metadata', '-i', p]
                for ax in axes:
                    args += [c.get('sflag', '-m') if ax == 'sample' else '--observation-metadata-fp', outs[ax]]
                r = _invoke(args)
                if r.exit_code != 0:
                    return _err(r.exception)
                other = 'observation' if c['axis'] == 'sample' else 'sample'
                if not c.get('both') and os.path.exists(outs[other]):
                    return ['crash', 'file', 'export-metadata wrote the %s file that was not asked for' % other]
                if not os.path.exists(outs[c['axis']]):
                    return ['nomd', 'does not contain %s metadata' % c['axis'] in r.output]
                return parse_md_tsv(open(outs[c['axis']], newline='').read())
    raise ValueError(k)


# ---------------------------------------------------------------- wire
def _universe(c):
    return T.spec_universe(c['spec'])


def _coder(c):
    return T.Coder(_universe(c))


def _md_tree(md):
    if md is None:
        return []
    return [[[[enc_str(k), T.md_tree(v)] for k, v in entry] for entry in md]]


def encode(c):
    cd = _coder(c)
    t = make(c)
    if c['kind'].startswith('cli_'):
        # the command sees the table as written to and read back from a file
        t = Table(np.asarray(t.matrix_data.todense(), dtype=float).reshape(t.shape), t.ids(axis='observation'), t.ids(),
                  t.metadata(axis='observation'), t.metadata())
    d = t.matrix_data
    fmt = {'csr': 0, 'csc': 1}[d.format]
    major = d.shape[0] if fmt == 0 else d.shape[1]
    minor = d.shape[1] if fmt == 0 else d.shape[0]
    rt = [[cd.id(str(i)) for i in t.ids(axis='observation')], [cd.id(str(i)) for i in t.ids()], fmt,
          [major, minor, [int(x) for x in d.indptr], [int(x) for x in d.indices], [cd.val(float(v)) for v in d.data]],
          _md_tree(_md_list(t, 'observation')), _md_tree(_md_list(t, 'sample'))]
    k = c['kind']
    op = OPS[k]
    if k in ('sum', 'min', 'max'):
        return [op, rt, AX3[c['axis']]]
    if k == 'gen':
        return [3, rt] if c['which'] == 'nonzero' else [15, rt, AX[c['axis']]]
    if k == 'nzcounts':
        return [op, rt, AX3[c['axis']], int(c['binary'])]
    if k == 'reduce':
        return [op, rt, FUNCS[c['f']][0], AX[c['axis']]]
    if k == 'stats':
        return [op, rt, int(c['binary'])]
    if k in ('report', 'cli_report'):
        return [op, rt, int(c['q']), int(c['o'])]
    if k in ('ids', 'cli_ids'):
        return [op, rt, int(c['obs'])]
    if k in ('head', 'cli_head'):
        return [op, rt, c['n'], c['m']]
    if k in ('mddf', 'export', 'cli_export'):
        return [op, rt, AX[c['axis']]]
    return [op, rt]


def _q(n, d, scale=1):
    """exact rational -> the double the implementation computes with one correctly rounded division"""
    if d == 0:
        return None
    return float(Fraction(n, d * scale))


def _label(tr):
    key = dec_str(tr[0])
    return key if len(tr) == 1 else '%s_%d' % (key, tr[1])


def _shaped_m(shape, kind, v):
    return {'v': v, 'shape': shape, 'kind': kind}


def decode(tree, c):
    cd = _coder(c)
    k = c['kind']
    S = T.SCALE
    if k == 'sum':
        return _shaped_m([] if c['axis'] == 'whole' else [len(tree)], 'f', [cd.unval(v) for v in tree])
    if k in ('min', 'max'):
        if tree[0] == -1:
            return _shaped_m(None, None, ['err', tree[1]])
        if c['axis'] == 'whole':
            return _shaped_m([], 'f', ['ok', None if not tree[1] else cd.unval(tree[1][0])])
        return _shaped_m([len(tree[1])], 'f', ['ok', [cd.unval(v) for v in tree[1]]])
    if k == 'gen':
        if c['which'] == 'nonzero':
            items = [[cd.unid(o), cd.unid(s)] for o, s in tree]
        else:
            t = make(c)
            ids = [str(i) for i in t.ids(axis=c['axis'])]
            n = len(t.ids(axis='observation' if c['axis'] == 'sample' else 'sample'))
            vecs = [[cd.unval(v) for v in row] for row in tree] if n else [[] for _ in ids]
            if c['which'] == 'iter':
                items = [[v, i] for v, i in zip(vecs, ids)]
            elif c['which'] == 'iter_data':
                items = [[v] for v in vecs]
            else:
                d = 0 if c['diag'] else 1
                items = []
                for i in range(len(ids)):
                    js = list(range(i + d, len(ids))) if c['tri'] else list(range(i)) + list(range(i + d, len(ids)))
                    items += [[ids[i], ids[j], vecs[i], vecs[j]] for j in js]
        return {'items': ['ok', items], 'same_as_upfront': True}
    if k == 'nonzero':
        return [[cd.unid(o), cd.unid(s)] for o, s in tree]
    if k == 'nzcounts':
        return _shaped_m([len(tree)], 'i' if c['binary'] else 'f', [float(v) if c['binary'] else cd.unval(v) for v in tree])
    if k == 'reduce':
        if tree[0] == -1:
            return _shaped_m(None, None, ['err', tree[1]])
        return _shaped_m([len(tree[1])], 'f', ['ok', [cd.unval(v) for v in tree[1]]])
    if k == 'density':
        return _q(tree[0], tree[1])
    if k == 'nnz':
        return tree
    if k == 'stats':
        s = 1 if c['binary'] else S
        mn, mx, med, avg, counts = tree
        return [mn / s, mx / s, _q(med[0], med[1], s), _q(avg[0], avg[1], s), [[cd.unid(i), v / s] for i, v in counts]]
    if k in ('report', 'cli_report'):
        s = 1 if c['q'] else S
        lines = []
        for code, fig in tree[0]:
            if code in (1, 2):
                lines.append([code, ['i', fig[1]]])
            elif code == 3:
                v = Fraction(fig[1], s)
                lines.append([code, ['i', int(v)] if v.denominator == 1 else ['m', _fmt_milli(float(v))]])
            elif code == 4:
                lines.append([code, ['m', _fmt_milli(_q(fig[1], fig[2]))]])
            elif code in (5, 6):
                lines.append([code, ['m', _fmt_milli(fig[1] / s)]])
            elif code in (7, 8):
                lines.append([code, ['m', _fmt_milli(_q(fig[1], fig[2], s))]])
            elif code == 9:
                var = None if fig[2] == 0 else Fraction(fig[1], fig[2] * s * s)
                mine = None if var is None else _fmt_milli(math.sqrt(var))
                # the square root is irrational or falls on a printing tie (e.g. exactly 0.4125): numpy's last bit decides
                # which way %1.3f goes.  Either rounding of the exact value is the figure at printed precision.
                theirs = _STD_SEEN.get(jhash(c))
                if mine is not None and theirs is not None and theirs != mine and \
                        abs(theirs - 1000 * math.sqrt(var)) <= 0.5 + 1e-6:
                    mine = theirs
                lines.append([code, ['m', mine]])
            else:
                lines.append([code, ['k', None if fig[0] == 2 else [dec_str(x) for x in fig[1]]]])
        detail = [[cd.unid(i), _fmt_milli(v / s)] for i, v in tree[1]]
        return {'lines': lines, 'detail': detail, 'titles': TITLES[(bool(c['q']), bool(c['o']))]}
    if k in ('ids', 'cli_ids'):
        return [cd.unid(i) for i in tree]
    if k in ('head', 'cli_head'):
        if tree[0] == -1:
            return ['err', tree[1]]
        sids, rows = tree[1]
        return ['ok', [cd.unid(i) for i in sids], [[cd.unid(o), [cd.unval(v) for v in vals]] for o, vals in rows]]
    if k == 'df':
        return [[cd.unid(i) for i in tree[0]], [cd.unid(i) for i in tree[1]],
                [[cd.unval(v) for v in row] for row in tree[2]] if tree[1] else [[] for _ in tree[0]]]
    if k == 'sdf':
        t = make(c)
        return [[str(i) for i in t.ids(axis='observation')], [str(i) for i in t.ids()],
                [[None if not x else cd.unval(x[0]) for x in row] for row in tree]]
    if k in ('mddf', 'export', 'cli_export'):
        if tree[0] == -1:
            if k != 'mddf' and tree[1] == 4:
                return ['nomd', True]
            return ['err', tree[1]]
        cols, rows = tree[1]
        conv = cell if k == 'mddf' else loose
        return ['ok', [_label(x) for x in cols], [[cd.unid(i), [conv(T.md_untree(v)) for v in cells]] for i, cells in rows]]
    raise ValueError(k)


# ---------------------------------------------------------------- oracle (numpy on the dense matrix, from the property text)
def _stored_zeros(c):
    return bool(c.get('inject')) and 'zeros' in c['inject']


def _close_milli(got, want):
    """printed thousandths `got` is what rounding `want` to three decimals gives (tolerance: a tie)"""
    if got is None or want is None:
        return got is None and want is None
    return abs(got - want * 1000) <= 0.5 + 1e-6


def _counts(M, q, o):
    A = M.T if o else M              # --observations: the transposed table
    return [(float((A[:, j] != 0).sum()) if q else float(A[:, j].sum())) for j in range(A.shape[1])]


def _md_keys_first(md):
    return None if md is None else [k for k, _ in md[0]]


def _expected_md(ids, md):
    """(label -> value) per id, read directly off the metadata"""
    out = []
    for i, entry in zip(ids, md):
        d = {}
        for k, v in entry:
            if isinstance(v, (list, tuple)):
                for n, x in enumerate(v):
                    d['%s_%d' % (k, n)] = x
            else:
                d[k] = v
        out.append((i, d))
    return out


def _homogeneous(md):
    sig = [[(k, isinstance(v, (list, tuple))) for k, v in e] for e in md]
    return all(sorted(s) == sorted(sig[0]) for s in sig)


def _same_key_order(md):
    return all([k for k, _ in e] == [k for k, _ in md[0]] for e in md)


def oracle(c, obs):
    if isinstance(obs, list) and obs and obs[0] == 'crash':
        return ['implementation crashed: %s' % obs[1:]]
    k = c['kind']
    R = content(c)
    M, oids, sids = R['M'], R['oids'], R['sids']
    nr, nc = M.shape
    fails = []
    if isinstance(obs, dict) and 'shape' in obs and 'v' in obs:
        # array-valued summaries: the shape and number kind of what was returned, then the values
        ok = not (isinstance(obs['v'], list) and obs['v'] and obs['v'][0] == 'err')
        if ok:
            ax = c['axis']
            want_shape = ([1] if k == 'nzcounts' else []) if ax == 'whole' else [nr if ax == 'observation' else nc]
            want_kind = 'i' if (k == 'nzcounts' and c['binary']) else 'f'
            if obs['shape'] != want_shape or obs['kind'] != want_kind:
                fails.append('%s(%s) returned an array of shape %s kind %s, one figure per id is shape %s kind %s'
                             % (k, ax, obs['shape'], obs['kind'], want_shape, want_kind))
        obs = obs['v']
    if k == 'sum':
        want = {'whole': [M.sum()], 'sample': M.sum(axis=0).tolist(), 'observation': M.sum(axis=1).tolist()}[c['axis']]
        if canon(obs) != canon([float(x) for x in want]):
            fails.append('sum(%s) = %s, the matrix gives %s' % (c['axis'], obs, want))
    elif k in ('min', 'max'):
        if _stored_zeros(c):
            return fails            # outside the domain: no history leaves stored zeros (kept for the model only)
        f = np.min if k == 'min' else np.max
        vecs = [M[i, :] for i in range(nr)] if c['axis'] == 'observation' else [M[:, j] for j in range(nc)]
        if any(not (v != 0).any() for v in vecs):
            if obs[0] == 'ok':      # the property speaks of vectors with a non-zero entry only; a figure must not be invented
                fails.append('%s(%s) returned %s although a vector has no non-zero entry' % (k, c['axis'], obs[1]))
            return fails
        per = [float(f(v[v != 0])) for v in vecs]
        want = ['ok', (float(f(per)) if per else None) if c['axis'] == 'whole' else per]
        if canon(obs) != canon(want):
            fails.append('%s(%s) = %s, the non-zero values give %s' % (k, c['axis'], obs, want))
    elif k == 'nonzero':
        if _stored_zeros(c):
            return fails
        want = sorted([oids[i], sids[j]] for i in range(nr) for j in range(nc) if M[i, j] != 0)
        if sorted(obs) != want:
            fails.append('nonzero() lists %s, the non-zero cells are %s' % (obs, want))
    elif k == 'gen':
        if obs['items'][0] != 'ok':
            return ['%s consumed between reads failed: %s' % (c['which'], obs['items'])]
        items = obs['items'][1]
        if obs['same_as_upfront'] is not True:
            fails.append('%s consumed with reads %s between the items differs from the list taken up front' % (c['which'], c['flips']))
        if c['which'] == 'nonzero':
            if not _stored_zeros(c):
                want = sorted([oids[i], sids[j]] for i in range(nr) for j in range(nc) if M[i, j] != 0)
                if sorted(items) != want:
                    fails.append('nonzero() consumed between reads lists %s, the non-zero cells are %s' % (items, want))
        else:
            ids = oids if c['axis'] == 'observation' else sids
            vecs = [M[i, :].tolist() for i in range(nr)] if c['axis'] == 'observation' else [M[:, j].tolist() for j in range(nc)]
            if c['which'] == 'iter':
                want = [[v, i] for v, i in zip(vecs, ids)]
            elif c['which'] == 'iter_data':
                want = [[v] for v in vecs]
            else:
                d = 0 if c['diag'] else 1
                want = [[ids[i], ids[j], vecs[i], vecs[j]] for i in range(len(ids))
                        for j in (list(range(i + d, len(ids))) if c['tri'] else list(range(i)) + list(range(i + d, len(ids))))]
            if canon(items) != canon(want):
                fails.append('%s(%s) consumed between reads gave %s, the matrix gives %s' % (c['which'], c['axis'], items, want))
    elif k == 'nzcounts':
        f = (lambda v: float((v != 0).sum())) if c['binary'] else (lambda v: float(v.sum()))
        want = {'observation': [f(M[i, :]) for i in range(nr)], 'sample': [f(M[:, j]) for j in range(nc)], 'whole': [f(M)]}[c['axis']]
        if canon(obs) != canon(want):
            fails.append('nonzero_counts(%s, binary=%s) = %s, the matrix gives %s' % (c['axis'], c['binary'], obs, want))
    elif k == 'reduce':
        if nr == 0 or nc == 0:
            if obs[0] != 'err':
                fails.append('reduce on an empty table was not refused')
            return fails
        import functools
        g = FUNCS[c['f']][1]
        vecs = [M[i, :] for i in range(nr)] if c['axis'] == 'observation' else [M[:, j] for j in range(nc)]
        want = ['ok', [float(functools.reduce(g, v.tolist())) for v in vecs]]
        if canon(obs) != canon(want):
            fails.append('reduce(%s, %s) = %s, the vectors give %s' % (c['f'], c['axis'], obs, want))
    elif k == 'density':
        want = 0.0 if nr * nc == 0 else float((M != 0).sum()) / (nr * nc)
        if obs != want:
            fails.append('density = %r, the matrix gives %r' % (obs, want))
    elif k == 'nnz':
        if obs != int((M != 0).sum()):
            fails.append('nnz = %r, the matrix has %d non-zero cells' % (obs, int((M != 0).sum())))
    elif k == 'stats':
        cn = _counts(M, c['binary'], False)
        if cn:
            s = sorted(cn)
            n = len(s)
            med = s[n // 2] if n % 2 else (s[n // 2 - 1] + s[n // 2]) / 2
            want = [min(cn), max(cn), med, float(Fraction(sum(Fraction(x) for x in cn), n))]
        else:
            want = [0, 0, 0, 0]
        want.append([[i, v] for i, v in zip(sids, cn)])
        if canon(obs) != canon(want):
            fails.append('compute_counts_per_sample_stats(binary=%s) = %s, the matrix gives %s' % (c['binary'], obs, want))
    elif k in ('report', 'cli_report'):
        if isinstance(obs, list):
            return ['summarize-table failed: %s' % obs]
        q, o = c['q'], c['o']
        cn = _counts(M, q, o)
        ids = oids if o else sids
        fig = dict((code, f) for code, f in obs['lines'])
        if fig.get(1) != ['i', nc] or fig.get(2) != ['i', nr]:
            fails.append('Num samples / Num observations printed %s / %s for a %d x %d table' % (fig.get(1), fig.get(2), nr, nc))
        if not q:
            tot = Fraction(sum(Fraction(x) for x in cn))
            t3 = fig.get(3)
            if not t3 or (t3[0] == 'i' and Fraction(t3[1]) != tot) or (t3[0] == 'm' and not _close_milli(t3[1], float(tot))):
                fails.append('Total count printed %s, the matrix sums to %s' % (t3, float(tot)))
            dens = 0.0 if nr * nc == 0 else float((M != 0).sum()) / (nr * nc)
            if not fig.get(4) or not _close_milli(fig[4][1], dens):
                fails.append('Table density printed %s, the matrix gives %r' % (fig.get(4), dens))
        elif 3 in fig or 4 in fig:
            fails.append('qualitative report prints a total count / density')
        if cn:
            s = sorted(cn)
            n = len(s)
            med = s[n // 2] if n % 2 else (s[n // 2 - 1] + s[n // 2]) / 2
            want = {5: min(cn), 6: max(cn), 7: med, 8: float(Fraction(sum(Fraction(x) for x in cn), n)), 9: float(np.std(np.array(cn)))}
        else:
            want = {5: 0.0, 6: 0.0, 7: 0.0, 8: 0.0, 9: None}
        for code, w in want.items():
            if code not in fig or not _close_milli(fig[code][1], w):
                fails.append('report line %d printed %s, the matrix gives %r' % (code, fig.get(code), w))
        if fig.get(10) != ['k', _md_keys_first(R['smd'])] or fig.get(11) != ['k', _md_keys_first(R['omd'])]:
            fails.append('metadata categories printed %s / %s, the table has %s / %s'
                         % (fig.get(10), fig.get(11), _md_keys_first(R['smd']), _md_keys_first(R['omd'])))
        if sorted(x[0] for x in obs['detail']) != sorted(ids):
            fails.append('detail lists the ids %s, expected %s' % ([x[0] for x in obs['detail']], ids))
        else:
            w = dict(zip(ids, cn))
            for i, v in obs['detail']:
                if not _close_milli(v, w[i]):
                    fails.append('detail line %s printed %s, the matrix gives %r' % (i, v, w[i]))
            if [x[1] for x in obs['detail']] != sorted(x[1] for x in obs['detail']):
                fails.append('detail lines are not in ascending order')
        if obs['titles'] != TITLES[(bool(q), bool(o))]:
            fails.append('section titles %s' % obs['titles'])
    elif k in ('ids', 'cli_ids'):
        if obs != (oids if c['obs'] else sids):
            fails.append('table-ids printed %s' % obs)
    elif k in ('head', 'cli_head'):
        n, m = c['n'], c['m']
        if n <= 0 or m <= 0 or nr * nc == 0:
            if obs[0] != 'err':
                fails.append('head -n %d -m %d on a %dx%d table was not refused' % (n, m, nr, nc))
            return fails
        want = ['ok', sids[:m], [[oids[i], M[i, :m].tolist()] for i in range(min(n, nr))]]
        if canon(obs) != canon(want):
            fails.append('head -n %d -m %d printed %s, the leading block is %s' % (n, m, obs, want))
    elif k in ('df', 'sdf'):
        if k == 'sdf' and _stored_zeros(c):
            return fails
        want = [oids, sids, M.tolist() if nc else [[] for _ in oids]]
        if canon(obs) != canon(want):
            bad = [(oids[i], sids[j]) for i in range(nr) for j in range(nc)
                   if len(obs) == 3 and len(obs[2]) == nr and len(obs[2][i]) == nc and obs[2][i][j] != M[i, j]][:3]
            fails.append('to_dataframe(dense=%s) differs from the matrix (ids or cells, e.g. %s)' % (k == 'df', bad))
    elif k in ('mddf', 'export', 'cli_export'):
        md = R['omd'] if c['axis'] == 'observation' else R['smd']
        ids = oids if c['axis'] == 'observation' else sids
        conv = cell if k == 'mddf' else loose
        if md is None:
            if obs[0] not in ('nomd', 'err') or (obs[0] == 'err' and obs[1] != 4) or (obs[0] == 'nomd' and not obs[1]):
                fails.append('no %s metadata, but the export gave %s' % (c['axis'], obs))
            return fails
        if obs[0] != 'ok':
            fails.append('metadata export failed (%s) although the axis has metadata' % obs)
            return fails
        cols = obs[1]
        if [r[0] for r in obs[2]] != ids:
            fails.append('metadata export lists the ids %s' % [r[0] for r in obs[2]])
            return fails
        wide = {k for k, ws in _widths(md).items() if any(x > 0 for x in ws)}      # keys some id holds a list under
        for (i, entry), (_, cells) in zip(zip(ids, md), obs[2]):
            if len(cells) != len(cols):
                fails.append('metadata export: row %s has %d cells for %d columns' % (i, len(cells), len(cols)))
                continue
            row = dict(zip(cols, cells))
            want = {}
            for key, v in entry:
                if isinstance(v, (list, tuple)):
                    if key in wide:
                        for n, x in enumerate(v):
                            want['%s_%d' % (key, n)] = x
                    else:
                        want[key] = v          # only empty lists under this key: one plain column
                elif key in wide:
                    if v is not None:
                        want[key + '_0'] = v   # a scalar among lists: shown as a one-item list
                else:
                    want[key] = v
            for lab, v in want.items():
                if lab not in row or canon(row[lab]) != canon(conv(v)):
                    fails.append('metadata export: id %s column %s shows %r, the metadata holds %r' % (i, lab, row.get(lab), v))
            for lab in cols:
                if lab not in want and row.get(lab) is not None:
                    fails.append('metadata export: id %s column %s shows %r, the metadata has no such entry' % (i, lab, row.get(lab)))
    return fails[:6]


# ---------------------------------------------------------------- generation
def _md_variant(rng, n, kind):
    if kind == 'order':          # same keys, dict order differs between ids
        out = []
        for i in range(n):
            items = [('p', rng.randint(0, 9)), ('q', 'v%d' % i), ('r', rng.choice([0.5, 1.25, -2.0]))]
            if i and rng.random() < 0.6:
                rng.shuffle(items)
            out.append(dict(items))
        return out
    if kind == 'sets':           # differing key sets / list lengths / list vs scalar
        out = []
        for i in range(n):
            d = {}
            if rng.random() < 0.8:
                d['p'] = rng.randint(0, 9)
            if rng.random() < 0.6:
                d['tax'] = ['k__%s' % rng.choice('AB'), 'p__%s' % rng.choice('CD'), 'c__E'][:rng.randint(1, 3)]
            if rng.random() < 0.3:
                d['q'] = rng.choice([None, 7, 'x', [1, 2]])
            out.append(d or {'p': 1})
        return out
    raise ValueError(kind)


def gen_spec(rng, mdkind=None, values=None):
    # boundary sizes on purpose (18 %): a single observation and / or a single sample -- numpy squeezes such axes away
    b = rng.random()
    lim = dict(max_r=1, max_c=5) if b < 0.07 else dict(max_r=4, max_c=1) if b < 0.14 else \
        dict(max_r=1, max_c=1) if b < 0.18 else dict(max_r=4, max_c=5)
    for _ in range(20):
        spec = T.rand_spec(rng, values=values or rng.choice(['counts', 'counts', 'signed', 'dyadic', 'dyadic', 'small']),
                           md=mdkind if mdkind in (None, 'none', 'text', 'num', 'tax', 'group', 'obs', 'samp') else 'none',
                           ttype=rng.choice([None, 'OTU table']), **lim)
        if b < 0.18 or len(spec['oids']) != len(spec['sids']) or rng.random() < 0.15:
            break
    if mdkind in ('order', 'sets'):
        spec['omd'] = _md_variant(rng, len(spec['oids']), mdkind)
        spec['smd'] = _md_variant(rng, len(spec['sids']), rng.choice(['order', 'sets']))
    return spec


def empty_spec(rng):
    if rng.random() < 0.5:
        return {'oids': [], 'sids': ['s%d' % i for i in range(rng.randint(1, 3))], 'mat': [], 'omd': None, 'smd': None,
                'type': None, 'layout': [rng.choice(['dense', 'csr'])]}
    n = rng.randint(1, 3)
    return {'oids': ['o%d' % i for i in range(n)], 'sids': [], 'mat': [[] for _ in range(n)], 'omd': None, 'smd': None,
            'type': None, 'layout': [rng.choice(['dense', 'csr'])]}


KINDS = ['gen', 'gen', 'gen', 'sum', 'sum', 'min', 'max', 'min', 'max', 'nonzero', 'nonzero', 'nzcounts', 'nzcounts', 'reduce', 'density', 'nnz',
         'stats', 'stats', 'report', 'report', 'report', 'ids', 'head', 'df', 'sdf', 'mddf', 'mddf', 'export']


def gen_case(rng, kind=None):
    k = kind or rng.choice(KINDS)
    base = k[4:] if k.startswith('cli_') else k
    if base in ('mddf', 'export'):
        spec = gen_spec(rng, mdkind=rng.choice(['text', 'num', 'tax', 'group', 'obs', 'samp', 'order', 'sets', 'none']))
    elif rng.random() < 0.04:
        spec = empty_spec(rng)
    else:
        spec = gen_spec(rng, mdkind=rng.choice([None, 'none']) if base == 'report' else 'none' if rng.random() < 0.7 else None)
    c = {'kind': k, 'spec': spec}
    r, n = len(spec['oids']), len(spec['sids'])
    x = rng.random()
    if r and n and not k.startswith('cli_'):
        if x < 0.25:
            c['inject'] = rng.choice(['csr_zeros', 'csc_zeros', 'csr_unsorted', 'csc_unsorted', 'csr_zeros_unsorted', 'csc_zeros_unsorted'])
        elif x < 0.33 and all(float(v) == int(v) and v >= 0 for row in spec['mat'] for v in row):
            tot = [sum(row[j] for row in spec['mat']) for j in range(n)]
            c['pre'] = [['subsample', int(max(1, min(t for t in tot if t > 0) if any(tot) else 1)), rng.randint(0, 99)]]
            if not any(t >= c['pre'][0][1] for t in tot):
                del c['pre']
        elif x < 0.38:
            c['pre'] = [['dec', rng.choice(['sample', 'observation'])]]
        elif x < 0.42:
            c['pre'] = [['transpose']]
    if base == 'gen':
        c['which'] = rng.choice(['nonzero', 'nonzero', 'nonzero', 'iter', 'iter_data', 'pairwise'])
        if c['which'] == 'pairwise' and not (r and n):
            c['which'] = 'nonzero'       # data() refuses an empty table
        c['axis'] = rng.choice(['sample', 'observation'])
        c['dense'] = rng.random() < 0.6
        c['tri'] = rng.random() < 0.6
        c['diag'] = rng.random() < 0.4
        colwise = ['col', 'minS', 'stats', 'iterS', 'nzS']
        rowwise = ['row', 'maxO', 'iterO', 'nzO', 'nonzero']
        c['flips'] = [rng.choice(colwise), rng.choice(rowwise + ['nnz'])] if rng.random() < 0.7 else \
            [rng.choice(colwise + rowwise + ['nnz']) for _ in range(rng.randint(1, 3))]
        if rng.random() < 0.5:
            c['flips'].reverse()
        if 'zeros' in (c.get('inject') or ''):
            # nnz eliminates zeros in place, in the very arrays a running nonzero() reads: only a representation with
            # stored zeros (injected, no history leaves one) can show that
            c['flips'] = [f if f != 'nnz' else 'row' for f in c['flips']]
    if base in ('sum', 'min', 'max'):
        c['axis'] = rng.choice(['whole', 'sample', 'observation'])
    elif base == 'nzcounts':
        c['axis'] = rng.choice(['whole', 'sample', 'observation'])
        c['binary'] = rng.random() < 0.5
    elif base == 'reduce':
        c['axis'] = rng.choice(['sample', 'observation'])
        c['f'] = rng.choice(sorted(FUNCS))
    elif base == 'stats':
        c['binary'] = rng.random() < 0.5
    elif base == 'report':
        c['q'] = rng.random() < 0.4
        c['o'] = rng.random() < 0.5
    elif base == 'ids':
        c['obs'] = rng.random() < 0.5
    elif base == 'head':
        c['n'] = rng.choice([1, 1, 2, 3, 5, 0, -1])
        c['m'] = rng.choice([1, 2, 2, 3, 5, 7, 0])
    elif base in ('mddf', 'export'):
        c['axis'] = rng.choice(['sample', 'observation'])
    if k.startswith('cli_'):
        # every option the click wrappers forward, in its short and long spelling
        if k in ('cli_report', 'cli_head'):
            c['out'] = rng.random() < 0.4
        if k == 'cli_head':
            c['nflag'] = rng.choice(['-n', '--n-obs'])
            c['mflag'] = rng.choice(['-m', '--n-samp'])
            if rng.random() < 0.25:          # leave an option out: the default (5) must apply
                c['defaults'] = True
                if rng.random() < 0.5:
                    c['n'] = 5
                else:
                    c['m'] = 5
        if k == 'cli_export':
            c['both'] = rng.random() < 0.4
            c['sflag'] = rng.choice(['-m', '--sample-metadata-fp'])
    return c


def gen(rng, tier):
    n = 4000 if tier == 'quick' else 50000
    for _ in range(n):
        yield gen_case(rng)
    # the real commands through the click group (wrappers included), in both tiers
    for _ in range(800 if tier == 'quick' else 4000):
        yield gen_case(rng, rng.choice(['cli_report', 'cli_report', 'cli_ids', 'cli_head', 'cli_head', 'cli_export', 'cli_export']))


def nontrivial(c):
    s = c['spec']
    r, n = len(s['oids']), len(s['sids'])
    if r < 2 or n < 2:
        return False
    M = np.array(s['mat'], dtype=float)
    return bool((M != 0).any() and (M == 0).any() and (r != n or not np.array_equal(M, M.T)))


def classify(c):
    s = c['spec']
    tags = ['kind:' + c['kind'], 'layout0:' + str(s['layout'][0] if s['layout'] else 'dense'),
            'dims:%dx%d' % (len(s['oids']), len(s['sids'])), 'inject:' + str(c.get('inject')),
            'pre:' + (c['pre'][0][0] if c.get('pre') else 'none'),
            'md:' + ('both' if s.get('omd') and s.get('smd') else 'obs' if s.get('omd') else 'samp' if s.get('smd') else 'none')]
    for f in ('which', 'axis', 'binary', 'f', 'q', 'o', 'out', 'both', 'defaults', 'nflag', 'mflag', 'sflag'):
        if f in c:
            tags.append('%s:%s:%s' % (c['kind'], f, c[f]))
    try:
        tags.append('repr:' + T.layout_info(make(c)))
    except Exception:
        tags.append('repr:unbuildable')
    vals = {float(v) for row in s['mat'] for v in row}
    tags.append('values:' + ('fractional' if any(v != int(v) for v in vals) else 'negative' if any(v < 0 for v in vals) else 'counts'))
    return tags


def shrink(c):
    s = c['spec']
    r, k = len(s['oids']), len(s['sids'])
    if c.get('pre'):
        yield dict(c, pre=None)
    if c.get('inject'):
        yield dict(c, inject=None)
    for i in range(r):
        if r > 1:
            yield dict(c, spec=dict(s, oids=s['oids'][:i] + s['oids'][i + 1:], mat=s['mat'][:i] + s['mat'][i + 1:],
                                    omd=None if s['omd'] is None else s['omd'][:i] + s['omd'][i + 1:], layout=['csr']))
    for j in range(k):
        if k > 1:
            yield dict(c, spec=dict(s, sids=s['sids'][:j] + s['sids'][j + 1:], mat=[row[:j] + row[j + 1:] for row in s['mat']],
                                    smd=None if s['smd'] is None else s['smd'][:j] + s['smd'][j + 1:], layout=['csr']))
    if s['layout'] and len(s['layout']) > 1:
        yield dict(c, spec=dict(s, layout=s['layout'][:-1]))
    if (s.get('omd') or s.get('smd')) and c['kind'] not in ('mddf', 'export', 'cli_export'):
        yield dict(c, spec=dict(s, omd=None, smd=None))


# ---------------------------------------------------------------- known findings
def _f20(c, impl, model, fails):
    """to_dataframe() (sparse) shows NaN where the matrix holds zero (pandas fill value) -- and nothing else is wrong:
    labels right, every non-zero cell right, every zero cell NaN or 0"""
    if c['kind'] != 'sdf' or not fails or not (isinstance(impl, list) and len(impl) == 3):
        return False
    R = content(c)
    M = R['M']
    if impl[0] != R['oids'] or impl[1] != R['sids'] or len(impl[2]) != M.shape[0]:
        return False
    seen_nan = False
    for i, row in enumerate(impl[2]):
        if len(row) != M.shape[1]:
            return False
        for j, v in enumerate(row):
            if M[i, j] != 0:
                if v is None or float(v) != float(M[i, j]):
                    return False
            elif v is None:
                seen_nan = True
            elif float(v) != 0.0:
                return False
    return seen_nan


def _widths(md):
    w = {}
    for e in md:
        for k, v in e:
            w.setdefault(k, set()).add(len(v) if isinstance(v, (list, tuple)) else -1)
    return w


SIGNATURES = {'F20': _f20}
