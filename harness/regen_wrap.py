"""regenerate() hook for the wrapper-object-mode translator tools/py2v_wrap (sibling of harness/regen.py,
regen_dyn.py, regen_eq.py, regen_merge.py): re-translate the listed targets from the source tree under
test (BIOM_REPO) at the start of a check and record the run in the evidence.  A refusal is a broken tie.
    from . import regen_wrap as _regen_wrap
    _wrap = _regen_wrap.hook(TRUSTED, ['transform'], 'coq/Model/Transform.v', 'coq/Proofs/GenBridgeWrapProofs.v')
combine(first, second) runs two hooks of one property and keeps the evidence lines of both."""
import os
import re

from . import core


def hook(trusted, targets, model, bridges, vocab='coq/Gen/WrapPrelude.v'):
    base = list(trusted)

    def regenerate():
        rc, out = core.sh([os.path.join(core.ROOT, 'tools', 'regen_wrap.sh')] + list(targets), timeout=300)
        del trusted[:]
        trusted.extend(base)
        refused = [ln.split('REFUSED', 1)[1].strip() for ln in out.split('\n') if 'REFUSED' in ln]
        for m in re.finditer(r'py2v_wrap: (\S+) -> (\S+) (written|unchanged) \(source sha256 ([0-9a-f]+)\)', out):
            trusted.append('%s regenerated from %s by tools/py2v_wrap on this run (%s; sha256 of source %s); tied to the '
                           'hand-written model %s by the *_is_source_partial theorems (%s); trusted: the translator, its '
                           'signature files tools/py2v_wrap/sigs/*.json and the vocabulary %s'
                           % (m.group(2), m.group(1), m.group(3), m.group(4), model, bridges, vocab))
        if rc != 0:
            trusted.append('translator py2v_wrap REFUSED a source on this run (%s); the generated file is stale'
                           % '; '.join(refused))
            raise core.Broken('translator rejected %s' % ('; '.join(refused) or 'rc=%d' % rc), out[-3000:])
    return regenerate


def combine(trusted, first, second):
    """both translators run; each hook resets TRUSTED to its base first, so the lines of the first are kept by hand"""
    def regenerate():
        err = None
        try:
            first()
        except Exception as e:          # a refusal: still run the other translator, then report
            err = e
        kept = [x for x in trusted if 'tools/py2v on this run' in x or 'translator REFUSED' in x]
        try:
            second()
        finally:
            trusted.extend(kept)
        if err is not None:
            raise err
    return regenerate
