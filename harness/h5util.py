"""Shared by the C01 / C04 property modules: case generation for HDF5 writing, building the real
table in the layout a history left behind, extracting the state the writer sees, reading a
written file with RAW h5py into a plain tree, snapshots of loaded tables, wire coding for the
Coq model (coq/Model/Hdf5.v through coq/Run/WireH5.v)."""
import atexit
import datetime
import os
import shutil
import struct
import tempfile

import h5py
import numpy as np
from scipy.sparse import csc_matrix, csr_matrix

from . import tables

VOCAB = tables.TYPES[1:]
PLACEHOLDER = 'No Table ID'
RESERVED = ('taxonomy', 'Taxonomy', 'KEGG_Pathways', 'collapsed_ids')

_TMP = None


def tmpdir():
    """per-process scratch directory, removed at exit"""
    global _TMP
    if _TMP is None or not os.path.isdir(_TMP):
        _TMP = tempfile.mkdtemp(prefix='biomv-h5-%d-' % os.getpid())
        atexit.register(shutil.rmtree, _TMP, True)
    return _TMP


_N = [0]


def tmpfile(suffix='.biom'):
    _N[0] += 1
    return os.path.join(tmpdir(), 'f%d%s' % (_N[0], suffix))


def fbits(v):
    return struct.unpack('<q', struct.pack('<d', float(v)))[0]


def unbits(k):
    return struct.unpack('<d', struct.pack('<q', k))[0]


def big(z):
    """wire form of a 64 bit pattern: [hi, lo] with z = hi * 2**32 + lo"""
    return [z >> 32, z & 0xffffffff]


def unbig(t):
    return t[0] * 4294967296 + t[1]


def cps(s):
    return [ord(ch) for ch in s]


def uncps(l):
    return ''.join(chr(c) for c in l)


def btext(b):
    """bytes -> exact, readable JSON string"""
    b = bytes(b)
    try:
        return 'u:' + b.decode('utf-8')
    except UnicodeDecodeError:
        return 'x:' + b.hex()


# ---------------------------------------------------------------- generation
EXTRA_VALUES = [0.1, 2.0 ** -30, -2.5e-7, 1.0 / 3.0, 1e-300, 1.7976931348623157e308, 2.0 ** 40 + 1, -7.0, 5e-324]
ID_TEXT = ['a', 'b', 'x y', 'ü', '样', 'p;q', "it's", 'a/b', '', ' lead', 'trail ', ' ', '\t']
CAT_SLASH = ['a/b', 'x/y/z', '/lead', 'trail/', 'u//v', 'é/ü']


def rand_md(rng, n, axis, forced=None):
    kind = forced or rng.choice(['none', 'none', 'text', 'int', 'float', 'bool', 'tax', 'collapsed', 'slash', 'multi', 'multi', 'empty', 'empty'])
    if kind == 'none' or n == 0:
        return None, 'none'
    cats = []          # (name, generator of a value for id i)
    def text(i):
        return rng.choice(ID_TEXT) + ('%d' % i if rng.random() < 0.5 else '')
    def lst(i):
        # entries may carry surrounding blanks / tabs or consist of white space only: all of it is content
        return [rng.choice(['%s__%s' % (rng.choice('kpcofgs'), rng.choice(['A', 'Bé', 'C c', '样'])),
                            ' p__Firmicutes', 'c__Clostridia ', '\tx', ' ', '\u3000', ' o 1 ', 'a;b'])
                for _ in range(rng.randint(1, 4))]
    def add(k):
        if k == 'text':
            cats.append((rng.choice(['k', 'Description', 'body site', 'ключ']), text))
        elif k == 'int':
            cats.append((rng.choice(['n', 'depth']), lambda i: rng.choice([-3, 0, 1, 7, 2 ** 40, -2 ** 62])))
        elif k == 'float':
            cats.append((rng.choice(['f', 'pH']), lambda i: rng.choice([0.5, -2.0, 1e-7, 1.0 / 3.0, 6.02e23, 0.0, -0.0, float('inf'), float('nan'), 5e-324])))
        elif k == 'bool':
            cats.append(('flag', lambda i: bool(rng.getrandbits(1))))
        elif k == 'tax':
            cats.append((rng.choice(['taxonomy', 'taxonomy', 'Taxonomy', 'KEGG_Pathways']), lst))
        elif k == 'collapsed':
            cats.append(('collapsed_ids', lst))
        elif k == 'slash':
            nm = rng.choice(CAT_SLASH)
            cats.append((nm, rng.choice([text, lambda i: rng.randint(0, 9)])))
    if kind == 'empty':
        # the empty text is text: a category that is '' for EVERY id of the axis (an unfilled column), alone or next to a
        # second all-empty one, or '' for all ids but one (the control)
        shape = rng.choice(['all', 'all', 'two', 'all-but-one'])
        j = rng.randrange(n)
        cats.append((rng.choice(['Description', 'notes', 'a/b']), (lambda i: 'x' if i == j else '') if shape == 'all-but-one' else (lambda i: '')))
        if shape == 'two':
            cats.append(('comment', lambda i: ''))
    elif kind == 'multi':
        for k in rng.sample(['text', 'int', 'float', 'bool', 'tax', 'collapsed', 'slash'], rng.randint(2, 4)):
            add(k)
    else:
        add(kind)
    names = []
    cats = [c for c in cats if not (c[0] in names or names.append(c[0]))]
    rows = []
    for i in range(n):
        items = [(nm, g(i)) for nm, g in cats]
        if i and rng.random() < 0.3:
            rng.shuffle(items)          # same categories, another insertion order
        rows.append(dict(items))
    return rows, kind


def rand_date(rng):
    d = datetime.datetime(rng.randint(1990, 2040), rng.randint(1, 12), rng.randint(1, 28), rng.randint(0, 23),
                          rng.randint(0, 59), rng.randint(0, 59), rng.choice([0, 0, 1, 617320, 999999]))
    if rng.random() < 0.1:
        d = d.replace(tzinfo=datetime.timezone(datetime.timedelta(hours=rng.choice([0, 2, -7]))))
    return d.isoformat()


def rand_case(rng, max_dim, empty_axis=False, all_zero=False, writer=None):
    min_r = min_c = 1
    if empty_axis:
        min_r, min_c = rng.choice([(0, 1), (1, 0), (0, 0)])
    spec = tables.rand_spec(rng, min_r=min_r, max_r=0 if (empty_axis and min_r == 0) else max_dim,
                            min_c=min_c, max_c=0 if (empty_axis and min_c == 0) else max_dim,
                            md='none', density=0.0 if all_zero else None)
    r, c = len(spec['oids']), len(spec['sids'])
    if rng.random() < 0.12:
        # ids with leading / trailing white space (they stay distinct: the original ids carry none)
        deco = lambda i: rng.choice([' %s', '%s ', '\t%s', '%s\u3000', ' %s  ']) % i
        spec['oids'] = [deco(i) if rng.random() < 0.5 else i for i in spec['oids']]
        spec['sids'] = [deco(i) if rng.random() < 0.5 else i for i in spec['sids']]
        if len(set(spec['oids'])) < r or len(set(spec['sids'])) < c:
            spec['oids'], spec['sids'] = [i.strip() for i in spec['oids']], [i.strip() for i in spec['sids']]
    if rng.random() < 0.25:
        spec['mat'] = [[(rng.choice(EXTRA_VALUES) if v else 0.0) for v in row] for row in spec['mat']]
    spec['omd'], ok = rand_md(rng, r, 'observation')
    spec['smd'], sk = rand_md(rng, c, 'sample')
    spec['id'] = rng.choice([None, None, None, 'tid', 'table é 7', '', ' padded id ', '0', 'None', 'none', 'null', 'NULL', 'nan',
                             'No Table ID', 'no table id', ' ', 'False', 'undefined', '-'])
    gm = lambda: rng.choice([None, None, None, {'tree': ['newick', '((a,b),c);']},
                             {'graph': ['text', 'payload ü 样'], 'tree': ['newick', '(x:0.1,y:2);']},
                             {'notes': [' t ', '  two lines\nwith blanks around \n'], 'empty': ['text', '']}])
    spec['ogmd'], spec['sgmd'] = gm(), gm()
    if rng.random() < 0.3:
        spec['layout'] = list(spec['layout']) + rng.choice([['poke_zero'], ['poke_reverse'], ['poke_zero', 'poke_reverse'],
                                                             ['colaccess', 'poke_zero', 'poke_reverse']])
    case = {'kind': 'table', 'spec': spec, 'genby': rng.choice(['gen by', 'biom-format-verif 0.1', 'gén "x", \\y', 'g', ' spaced out ', '']),
            'date': rand_date(rng), 'compress': bool(rng.getrandbits(1)),
            'h5_axis': rng.choice(['sample', 'sample', 'observation']),
            'writer': writer or rng.choice(['to_hdf5', 'to_hdf5', 'biom_open', 'save_table'])}
    if rng.random() < 0.3:
        case['np_md'] = True          # the caller's numbers are numpy scalars (what pandas / a loaded table hold)
    for ax in ('omd', 'smd'):
        if spec.get(ax) and 'md_edit' not in case and rng.random() < 0.15:
            before = spec[ax]
            if len(before[0]) > 1 and rng.random() < 0.5:
                cat = rng.choice(sorted(before[0]))
                case['md_edit'] = {'axis': ax, 'mode': 'drop_category', 'category': cat, 'before': before}
                spec[ax] = [{k: v for k, v in m.items() if k != cat} for m in before]
            else:
                case['md_edit'] = {'axis': ax, 'mode': 'clear_all', 'before': before}
                spec[ax] = None          # every mapping emptied: no id carries a category any more
    case['own_genby'] = rng.choice([None, None, 'an older tool 0.9', 'QIIME 1.9', ' '])
    case['own_date'] = rng.choice([None, None, ['datetime', '2011-12-13T14:15:16.171819'], ['text', '2011-12-13T14:15:16'],
                                   ['text', '24 Aug 2015, 10:15'], ['text', 'yesterday']])
    case['date_arg'] = rng.random() >= 0.25       # without creation_date= the writer stamps the current time
    if case['writer'] in ('to_hdf5', 'save_table') and rng.random() < 0.25:
        case['userblock'] = rng.choice([512, 1024])
    if rng.random() < 0.3:
        case['prelude'] = True        # history across calls: an earlier to_hdf5 with custom format_fs for these categories
    if rng.random() < 0.3 and not any(isinstance(x, list) or x in ('transpose2', 'copy') for x in spec['layout'][1:]):
        case['ids_as'] = rng.choice(ID_CONTAINERS)      # how the caller handed the ids to the constructor
    if rng.random() < 0.4:
        case['gen2'] = True           # history: write, load, write the loaded table again, load
        if rng.random() < 0.4:        # ... with group metadata added to the loaded table in between
            case['gen2_add'] = {ax: dict(rng.choice([[('rev', ['text', 'v2'])], [('tree', ['newick', '(p:1,q:2);'])],
                                                     [('rev', ['', 'ab']), ('more', ['text', 'xyz'])], [('e', ['text', ''])]]))
                                for ax in rng.choice([['observation'], ['sample'], ['observation', 'sample']])}
    return case


# ---------------------------------------------------------------- the real table
POKES = ('poke_zero', 'poke_reverse')


def _poke_cells(spec):
    """the first zero cell of every row: built with a placeholder value, zeroed afterwards"""
    return [(i, row.index(0.0)) for i, row in enumerate(spec['mat']) if 0.0 in row]


def np_md(md):
    """the same metadata with every number as the numpy scalar of its kind"""
    def conv(v):
        if isinstance(v, bool):
            return np.bool_(v)
        if isinstance(v, int):
            return np.int64(v)
        if isinstance(v, float):
            return np.float64(v)
        return v
    return None if md is None else [None if m is None else {k: conv(v) for k, v in m.items()} for m in md]


ID_CONTAINERS = ['object', 'index', 'series', 'tuple', 'npstr']


def ids_as(kind, ids):
    """the same ids in another container a caller may hand to the constructor"""
    if kind == 'object':
        return np.array(list(ids), dtype=object)
    if kind in ('index', 'series'):
        import pandas as pd
        return pd.Index(list(ids), dtype=object) if kind == 'index' else pd.Series(list(ids), dtype=object)
    if kind == 'tuple':
        return tuple(ids)
    if kind == 'npstr':
        return [np.str_(x) for x in ids]
    return list(ids)


def _build_direct(spec, lay, kind):
    """constructor call with the ids in the given container; only layout steps that keep the table object
    (sort_order / copy / transpose make a new table whose ids are a fresh fixed-width array)"""
    from biom import Table
    M = np.array(spec['mat'], dtype=float).reshape(len(spec['oids']), len(spec['sids']))
    first = lay[0] if isinstance(lay[0], str) and lay[0] in tables.INITIAL else 'dense'
    kw = {'input_is_dense': True} if first == 'lists' and M.size else {}
    t = Table(tables._initial(first, M), ids_as(kind, spec['oids']), ids_as(kind, spec['sids']),
              tables._cp(spec.get('omd')), tables._cp(spec.get('smd')), type=spec.get('type'), **kw)
    for step in lay[1:]:
        if step == 'colaccess' and t.shape[0] and t.shape[1]:
            t.data(t.ids()[0], axis='sample')
        elif step == 'rowaccess' and t.shape[0] and t.shape[1]:
            t.data(t.ids(axis='observation')[0], axis='observation')
        elif step == 'nnz':
            t.nnz
    return t


def build_table(case):
    """tables.build replays the public-API layout recipe; two further steps edit the held matrix in
    place through the public `matrix_data` property (the live scipy object), which is the one
    public route left to explicitly stored zeros since the constructor and subsample eliminate
    them, and to unsorted indices in CSC:
      poke_zero    : cells built with a placeholder value are set to 0.0 in `matrix_data.data`
      poke_reverse : indices and data of every row/column segment are reversed in place"""
    spec = case['spec']
    lay = list(spec.get('layout') or ['dense'])
    pokes = [x for x in lay if x in POKES]
    lay = [x for x in lay if x not in POKES] or ['dense']
    if not spec['oids'] or not spec['sids']:
        # vector access is refused on an empty table
        lay = [x for x in lay if x not in ('colaccess', 'rowaccess')] or ['dense']
    cells = _poke_cells(spec) if 'poke_zero' in pokes else []
    mat = [list(row) for row in spec['mat']]
    for i, j in cells:
        mat[i][j] = 1.0
    bspec = dict(spec, mat=mat, layout=lay)
    edit = case.get('md_edit')
    if edit:
        bspec[edit['axis']] = edit['before']          # built with this metadata, edited below through the accessor
    if case.get('np_md'):
        bspec['omd'], bspec['smd'] = np_md(bspec.get('omd')), np_md(bspec.get('smd'))
    t = _build_direct(bspec, lay, case['ids_as']) if case.get('ids_as') else tables.build(bspec)
    d = t.matrix_data
    if cells:
        for i, j in cells:
            a, b = (i, j) if d.format == 'csr' else (j, i)
            for p in range(d.indptr[a], d.indptr[a + 1]):
                if d.indices[p] == b:
                    d.data[p] = 0.0
    if 'poke_reverse' in pokes:
        for a in range(len(d.indptr) - 1):
            s, e = d.indptr[a], d.indptr[a + 1]
            d.indices[s:e] = d.indices[s:e][::-1].copy()
            d.data[s:e] = d.data[s:e][::-1].copy()
    if edit:
        # history: the caller edits the LIVE mappings Table.metadata() hands out (public API); the table then holds
        # a tuple of emptied / reduced mappings, not None
        live = t.metadata(axis='observation' if edit['axis'] == 'omd' else 'sample')
        for i, m in enumerate(live):
            if edit['mode'] == 'clear_all' or (edit['mode'] == 'clear_some' and i in edit['ids']):
                m.clear()
            elif edit['mode'] == 'drop_category':
                del m[edit['category']]
    t.table_id = spec.get('id')
    t.type = spec.get('type')
    # what the table itself records about its origin (constructor arguments generated_by= / create_date=, or what a
    # loader left there); to_hdf5 is ASKED what to write through its own arguments
    if case.get('own_genby') is not None:
        t.generated_by = case['own_genby']
    od = case.get('own_date')
    if od is not None:
        t.create_date = datetime.datetime.fromisoformat(od[1]) if od[0] == 'datetime' else od[1]

    def gmd(g):
        return None if not g else {k: tuple(v) for k, v in g.items()}
    t._observation_group_metadata = gmd(spec.get('ogmd'))
    t._sample_group_metadata = gmd(spec.get('sgmd'))
    return t


def state_of(t):
    """the representation the writer is about to see (read without touching it)"""
    d = t.matrix_data
    if d.format not in ('csr', 'csc'):
        raise ValueError('unexpected held format %s' % d.format)
    mj = d.shape[0] if d.format == 'csr' else d.shape[1]
    mn = d.shape[1] if d.format == 'csr' else d.shape[0]
    return {'fmt': d.format, 'major': int(mj), 'minor': int(mn), 'indptr': [int(x) for x in d.indptr],
            'indices': [int(x) for x in d.indices], 'data': [fbits(x) for x in d.data]}


def layout_tag(st):
    unsorted = False
    for i in range(st['major']):
        seg = st['indices'][st['indptr'][i]:st['indptr'][i + 1]]
        if seg != sorted(seg):
            unsorted = True
    return 'layout:%s/%s/%s' % (st['fmt'], 'unsorted' if unsorted else 'sorted',
                                'zeros' if 0 in st['data'] else 'nozeros')


def write_prelude(case):
    """history across calls: BEFORE the case's own write, an unrelated scratch table is written with custom
    `format_fs` for every category name the case uses (and the usual suspects).  Nothing of it may leak into
    the case's default write."""
    from biom import Table
    from biom.table import H5PY_VLEN_STR
    s = case.get('spec') or {}
    names = {'taxonomy', 'Taxonomy', 'KEGG_Pathways', 'collapsed_ids', 'barcode', 'BarcodeSequence'}
    for ax in ('omd', 'smd'):
        for m in (s.get(ax) or []):
            names.update((m or {}).keys())

    def loud(grp, header, md, compression):
        grp.create_dataset('metadata/%s' % header.replace('/', '@@SLASH@@'), shape=(len(md),), dtype=H5PY_VLEN_STR,
                           data=[('custom:%s' % (m[header],)).upper().encode('utf8') for m in md], compression=compression)
    names = sorted(names)
    scratch = Table(np.array([[1.0, 0.0], [2.0, 3.0]]), ['x1', 'x2'], ['y1', 'y2'],
                    [{k: 'acgt' for k in names}, {k: 'ttga' for k in names}], [{k: 'v' for k in names}, {k: 'w' for k in names}])
    path = tmpfile()
    try:
        with h5py.File(path, 'w') as f:
            scratch.to_hdf5(f, 'prelude', format_fs={k: loud for k in names})
    finally:
        if os.path.exists(path):
            os.remove(path)


NOW = '<now>'


def dated(case):
    """is the writer given a creation_date= argument (else it stamps the current time)"""
    return case.get('date_arg', True) and case.get('writer') not in ('convert', 'convert_cli')


def write_table(t, case, path, genby=None):
    """the case's write; `genby` overrides the generated-by argument (later generations use another one)"""
    if case.get('prelude'):
        write_prelude(case)
    genby = case['genby'] if genby is None else genby
    kw = {'compress': case['compress']}
    if dated(case):
        kw['creation_date'] = datetime.datetime.fromisoformat(case['date'])
    w = case.get('writer', 'to_hdf5')
    ub = {'userblock_size': case['userblock']} if case.get('userblock') else {}      # an HDF5 file may start with a user block
    if w == 'to_hdf5':
        with h5py.File(path, 'w', **ub) as f:
            t.to_hdf5(f, genby, **kw)
    elif w == 'biom_open':
        from biom.util import biom_open
        with biom_open(path, 'w') as f:
            t.to_hdf5(f, genby, **kw)
    elif w == 'save_table':
        from biom.parse import save_table
        if ub:
            with h5py.File(path, 'w', **ub) as f:
                save_table(t, f, generated_by=genby, **kw)
        else:
            save_table(t, path, generated_by=genby, **kw)
    elif w == 'convert':
        from biom.cli.table_converter import _convert
        _convert(t, path, to_hdf5=True, table_type=case['spec'].get('type'))
    else:
        raise ValueError(w)


def now_or(value):
    """a creation date stamped by the writer itself: ['datetime', '<now>'] if it is a datetime close to the
    current time, the value unchanged otherwise (so that anything else is seen)"""
    if isinstance(value, list) and len(value) == 2 and value[0] == 'datetime':
        try:
            d = datetime.datetime.fromisoformat(value[1])
            if d.tzinfo is None and abs((datetime.datetime.now() - d).total_seconds()) < 3600:
                return ['datetime', NOW]
        except ValueError:
            pass
    return value


# ---------------------------------------------------------------- raw h5py view of a file
def _kind(dt):
    if dt == np.float64:
        return 'f64'
    if dt == np.int32:
        return 'i32'
    if dt == np.int64:
        return 'i64'
    if dt == np.bool_:
        return 'bool'
    si = h5py.check_string_dtype(dt)
    if si is not None and si.length is None:
        return 'vstr'
    return 'other:%s' % dt


def _payload(kind, arr):
    flat = np.asarray(arr).reshape(-1)
    if kind == 'f64':
        return [fbits(x) for x in flat]
    if kind in ('i32', 'i64'):
        return [int(x) for x in flat]
    if kind == 'bool':
        return [int(bool(x)) for x in flat]
    if kind == 'vstr':
        return [btext(x if isinstance(x, bytes) else str(x).encode('utf-8')) for x in flat]
    return [repr(x) for x in flat]


def _attr(attrs, k):
    a = attrs.get_id(k)
    kind = _kind(a.dtype)
    v = attrs[k]
    if kind == 'vstr' and a.shape == ():
        return ['str', btext(v if isinstance(v, bytes) else v.encode('utf-8'))]
    if kind == 'i64' and a.shape == ():
        return ['int', int(v)]
    if kind == 'i64' and len(a.shape) == 1:
        return ['ints', [int(x) for x in v]]
    return ['other', kind, list(a.shape)]


def raw_tree(path, mask_date=False):
    out = {'attrs': {}, 'groups': [], 'dsets': {}}
    comp = set()
    with h5py.File(path, 'r') as f:
        for k in f.attrs:
            out['attrs'][k] = _attr(f.attrs, k)

        def visit(name, obj):
            if isinstance(obj, h5py.Group):
                out['groups'].append(name)
                if len(obj.attrs):
                    out['groups'].append('%s has attributes' % name)
            else:
                kind = _kind(obj.dtype)
                out['dsets'][name] = {'kind': kind, 'shape': [int(x) for x in obj.shape],
                                      'data': _payload(kind, obj[()]),
                                      'attrs': {k: _attr(obj.attrs, k) for k in obj.attrs}}
                comp.add(obj.compression or 'none')
        f.visititems(visit)
    out['groups'].sort()
    if mask_date and 'creation-date' in out['attrs']:
        v = out['attrs']['creation-date']
        if v[0] == 'str' and now_or(['datetime', v[1][2:]]) == ['datetime', NOW]:
            out['attrs']['creation-date'] = ['str', 'u:' + NOW]
    return out, sorted(comp)


# ---------------------------------------------------------------- snapshots of loaded tables
def md_value(x):
    if x is None:
        return ['none']
    if isinstance(x, (bool, np.bool_)):
        return ['b', int(bool(x))]
    if isinstance(x, (int, np.integer)):
        return ['i', int(x)]
    if isinstance(x, (float, np.floating)):
        return ['f', fbits(x)]
    if isinstance(x, bytes):
        return ['bytes', btext(x)]
    if isinstance(x, str):
        return ['s', x]
    if isinstance(x, (list, tuple)) and all(isinstance(v, str) for v in x):
        return ['l', list(x)]
    return ['other', repr(x)[:80]]


def md_rows(md):
    if md is None:
        return None
    return [{str(k): md_value(v) for k, v in dict(m).items()} if m is not None else None for m in md]


def text_value(x):
    """a text field by type and value (bytes must not pass for text)"""
    if x is None or isinstance(x, str):
        return x
    if isinstance(x, bytes):
        return ['bytes', btext(x)]
    return ['other', repr(x)[:80]]


def date_value(cd):
    """creation date by type and value: a datetime must come back as a datetime"""
    if isinstance(cd, datetime.datetime):
        return ['datetime', cd.isoformat()]
    if isinstance(cd, str):
        return ['text', cd]
    return ['other', repr(cd)]


def model_date(text):
    """the model carries the ISO text; datetime.fromisoformat (trusted) decides what the reader makes of it"""
    try:
        return ['datetime', datetime.datetime.fromisoformat(text).isoformat()]
    except ValueError:
        return ['text', text]


def loaded_snapshot(t):
    d = t.matrix_data.copy()
    dense = np.asarray(d.todense(), dtype=float).reshape(d.shape)
    cd = t.create_date

    def gm(g):
        if not g:
            return None
        return {str(k): md_value(v) for k, v in g.items()}
    return {'oids': [str(i) for i in t.ids(axis='observation')], 'sids': [str(i) for i in t.ids()],
            'mat': [[fbits(v) for v in row] for row in dense.tolist()] if dense.shape[0] and dense.shape[1]
            else [[] for _ in range(dense.shape[0])],
            'omd': md_rows(t.metadata(axis='observation')), 'smd': md_rows(t.metadata()),
            'type': text_value(t.type), 'id': text_value(t.table_id), 'genby': text_value(t.generated_by),
            'date': date_value(cd),
            'ogmd': gm(t.group_metadata(axis='observation')), 'sgmd': gm(t.group_metadata())}


def source_content(case):
    """what the property says a loaded table must show, straight from the case (no model)"""
    s = case['spec']
    r, c = len(s['oids']), len(s['sids'])

    def md(m):
        if m is None or all(not x for x in m):
            return None
        return [{k: md_value(v) for k, v in x.items()} for x in m]

    def gm(g):
        return None if not g else {k: ['s', v[1]] for k, v in g.items()}
    return {'oids': list(s['oids']), 'sids': list(s['sids']),
            'mat': [[fbits(v) for v in row] for row in s['mat']] if c else [[] for _ in range(r)],
            'omd': md(s.get('omd')), 'smd': md(s.get('smd')), 'type': s.get('type') or None,
            'id': s.get('id') or PLACEHOLDER, 'genby': case['genby'], 'date': ['datetime', case['date'] if dated(case) else NOW],
            'ogmd': gm(s.get('ogmd')), 'sgmd': gm(s.get('sgmd'))}


# ---------------------------------------------------------------- wire: case -> model tree
def enc_mdval(v):
    if v is None:
        return [0]
    if isinstance(v, (bool, np.bool_)):
        return [4, int(bool(v))]
    if isinstance(v, (int, np.integer)):
        return [2, big(int(v))]
    if isinstance(v, (float, np.floating)):
        return [3, big(fbits(v))]
    if isinstance(v, str):
        return [1, cps(v)]
    if isinstance(v, (list, tuple)):
        return [5, [cps(x) for x in v]]
    raise TypeError(type(v))


def enc_md(md):
    # what the Table holds: None when absent or when no ID carries a category
    if md is None or all(not m for m in md):
        return []
    return [[[[cps(k), enc_mdval(v)] for k, v in (m or {}).items()] for m in md]]


def enc_opt(s):
    return [] if s is None else [cps(s)]


def enc_gmd(g):
    # (data type, payload) pairs as the constructor documents them; a bare text (what a loaded table holds) as [key, text]
    return [] if not g else [[cps(k), cps(v)] if isinstance(v, str) else [cps(k), cps(v[0]), cps(v[1])] for k, v in g.items()]


def enc_state(case, st):
    s = case['spec']
    return [[cps(i) for i in s['oids']], [cps(i) for i in s['sids']], 0 if st['fmt'] == 'csr' else 1,
            [st['major'], st['minor'], st['indptr'], st['indices'], [big(v) for v in st['data']]],
            enc_md(s.get('omd')), enc_md(s.get('smd')), enc_opt(s.get('type')), enc_opt(s.get('id')),
            enc_gmd(s.get('ogmd')), enc_gmd(s.get('sgmd'))]


def spec_of_table(t):
    """the writer's view of a REAL table (one that was loaded, say): same fields as a case spec, values as the
    table holds them (numpy scalars, bare-text group metadata)"""
    def md(ax):
        m = t.metadata(axis=ax)
        return None if m is None else [dict(x) if x is not None else {} for x in m]
    return {'oids': [str(i) for i in t.ids(axis='observation')], 'sids': [str(i) for i in t.ids()],
            'omd': md('observation'), 'smd': md('sample'), 'type': t.type, 'id': t.table_id,
            'ogmd': t.group_metadata(axis='observation'), 'sgmd': t.group_metadata()}


def enc_table_state(t):
    """model input for writing the real table t as it stands now"""
    return enc_state({'spec': spec_of_table(t)}, state_of(t))


# ---------------------------------------------------------------- wire: model tree -> observables
KINDS = ['f64', 'i32', 'i64', 'bool', 'vstr']


def dec_h5(t):
    out = {'attrs': {}, 'groups': [], 'dsets': {}}

    def aval(a):
        if a[0] == 0:
            return ['str', btext(a[1])]
        if a[0] == 1:
            return ['int', a[1]]
        return ['ints', a[1]]
    for k, v in t[0]:
        out['attrs'][bytes(k).decode('utf-8')] = aval(v)
    for p in t[1]:
        out['groups'].append('/'.join(bytes(x).decode('utf-8', 'replace') for x in p))
    out['groups'].sort()
    for p, kind, shape, num, strs, attrs in t[2]:
        name = '/'.join(bytes(x).decode('utf-8', 'replace') for x in p)
        k = KINDS[kind]
        out['dsets'][name] = {'kind': k, 'shape': shape, 'data': [btext(x) for x in strs] if k == 'vstr' else [unbig(x) for x in num],
                              'attrs': {bytes(a).decode('utf-8'): ['str', btext(b)] for a, b in attrs}}
    return out


def dec_mdval(t):
    k = t[0]
    if k == 0:
        return ['none']
    if k == 1:
        return ['s', uncps(t[1])]
    if k == 2:
        return ['i', unbig(t[1])]
    if k == 3:
        return ['f', unbig(t[1])]
    if k == 4:
        return ['b', t[1]]
    return ['l', [uncps(x) for x in t[1]]]


def dec_loaded(t):
    def md(m):
        return None if not m else [{uncps(k): dec_mdval(v) for k, v in row} for row in m[0]]

    def gm(g):
        return None if not g else {uncps(k): ['s', uncps(v)] for k, v in g}
    return {'oids': [uncps(x) for x in t[0]], 'sids': [uncps(x) for x in t[1]], 'mat': [[unbig(v) for v in row] for row in t[2]],
            'omd': md(t[3]), 'smd': md(t[4]), 'type': uncps(t[5][0]) if t[5] else None, 'id': uncps(t[6]),
            'genby': uncps(t[7]), 'date': model_date(uncps(t[8])), 'ogmd': gm(t[9]), 'sgmd': gm(t[10])}


def dec_result(t, f):
    if len(t) == 2 and t[0] == -1:
        return ['err', t[1]]
    return f(t[1])


def classify_case(case, st=None):
    if case.get('kind', 'table') != 'table':
        return ['kind:' + case['kind']]
    s = case['spec']
    tags = ['dims:%dx%d' % (min(len(s['oids']), 7), min(len(s['sids']), 7)),
            'compress:%s' % case.get('compress'), 'writer:%s' % case.get('writer'), 'type:%s' % ('none' if not s.get('type') else 'vocab')]
    nz = sum(1 for row in s['mat'] for v in row if v)
    tot = len(s['oids']) * len(s['sids'])
    tags.append('density:%s' % ('empty-axis' if tot == 0 else 'zero' if nz == 0 else 'full' if nz == tot else 'mixed'))
    ids = ''.join(s['oids'] + s['sids'])
    tags.append('ids:%s' % ('astral' if any(ord(ch) > 0xffff for ch in ids) else 'bmp-nonascii' if any(ord(ch) > 127 for ch in ids)
                            else 'punct' if any(ch in ' /;\'"|()' for ch in ids) else 'ascii'))
    for ax in ('omd', 'smd'):
        m = s.get(ax)
        if not m:
            tags.append('md:none')
            continue
        for k, v in (m[0] or {}).items():
            tags.append('md:%s%s' % ('list' if isinstance(v, list) else type(v).__name__, '+slash' if '/' in k else ''))
    lay = s.get('layout') or ['dense']
    tags.append('recipe:%s' % (lay[0] if isinstance(lay[0], str) else lay[0][0]))
    return tags


# ---------------------------------------------------------------- the property's domain, in python
def _is_text(s):
    return isinstance(s, str) and all(0 < ord(ch) < 0x110000 and not 0xd800 <= ord(ch) < 0xe000 for ch in s)


def _column_ok(name, col):
    if name in RESERVED:
        return all(isinstance(v, (list, tuple)) and len(v) > 0 and all(_is_text(x) and x for x in v) for v in col)
    def kind(v):
        return ('b' if isinstance(v, (bool, np.bool_)) else 'i' if isinstance(v, (int, np.integer)) else
                'f' if isinstance(v, (float, np.floating)) else 's' if isinstance(v, str) else 'other')
    kinds = {kind(v) for v in col}
    return (kinds == {'s'} and all(_is_text(v) for v in col)) or kinds in ({'i'}, {'f'}, {'b'})


def _md_ok(md, n):
    if md is None or all(not m for m in md):
        return True
    if len(md) != n or not md[0]:
        return False
    keys = list(md[0])
    for k in keys:
        if not _is_text(k) or k.replace('/', '@@SLASH@@').replace('@@SLASH@@', '/') != k:
            return False
    if any(set(m) != set(keys) for m in md):
        return False
    return all(_column_ok(k, [m[k] for m in md]) for k in keys)


def in_domain(case):
    """the domain of the C01 / C04 property text (ids distinct text, homogeneous metadata, names that survive
    the escape, ...), written independently of the Coq predicate in_domainb it is compared with"""
    s = case['spec']
    ids_ok = all(_is_text(i) for i in s['oids'] + s['sids']) and len(set(s['oids'])) == len(s['oids']) \
        and len(set(s['sids'])) == len(s['sids'])
    gm_ok = all(_is_text(k) and '/' not in k and _is_text(v[0]) and _is_text(v[1])
                for g in (s.get('ogmd'), s.get('sgmd')) if g for k, v in g.items())
    opt_ok = (s.get('type') is None or (_is_text(s['type']) and s['type'] != '')) and (s.get('id') is None or _is_text(s['id']))
    opt_ok = opt_ok and _is_text(case.get('genby', '')) and (case.get('writer') == 'convert' or _is_text(case.get('date', '')))
    return bool(ids_ok and gm_ok and opt_ok and _md_ok(s.get('omd'), len(s['oids'])) and _md_ok(s.get('smd'), len(s['sids'])))
