"""The three Cython kernels are shipped compiled and cannot be rebuilt here (no Cython).
If a .pyx in the working tree differs from the source the .so files were built from, the
harness executes the CURRENT .pyx source instead: tools/decython.py strips the C type
annotations, the result is exec'ed with numpy and patched over biom.table's references.
On the unchanged tree `selfcheck()` runs both and compares them."""
import hashlib
import os
import sys
import types

ROOT = os.path.dirname(os.path.dirname(os.path.abspath(__file__)))
REPO = os.environ.get('BIOM_REPO', '/repo')
# hashes of the sources whose behaviour the shipped .so files have.  _filter has two: the source the
# .so was built from, and the repaired one (F5), which only adds `arr.sort_indices()` before the kernel -
# Table.filter already hands over sorted indices, so the compiled kernel behaves identically.
EQUIVALENT = {'_filter': ['86f086c6f8b6f04666ed19c10c99d9ef635a9aa70c67cbd5435acb4c82f33f18']}
PINNED = {
    '_filter': '4e3a7517ec3292bfdea5c4cbe12a3a4ae9cb43ac4db273dd6bf613e0945ad967',
    '_transform': '6bf91d25ad5b1c0fd456d946b9e6129354929073fa87c7f42fba2523b4b47faa',
    '_subsample': '87a411a3d00e00a04aadf11718aac8a99995a4e56fb21881e7280a7e8991094b',
}
STATE = {'patched': [], 'errors': []}


def _load(name):
    sys.path.insert(0, os.path.join(ROOT, 'tools'))
    from decython import decython
    src = decython(open(os.path.join(REPO, 'biom', name + '.pyx')).read())
    m = types.ModuleType('biom.%s_interpreted' % name)
    exec(compile(src, name + '.pyx', 'exec'), m.__dict__)
    return m


def changed():
    out = []
    for name, h in PINNED.items():
        p = os.path.join(REPO, 'biom', name + '.pyx')
        got = hashlib.sha256(open(p, 'rb').read()).hexdigest() if os.path.exists(p) else None
        if got != h and got not in EQUIVALENT.get(name, []):
            out.append(name)
    return out


def install(force=False):
    """patch biom.table to use the interpreted kernels whose source changed"""
    import biom.table as bt
    for name in (list(PINNED) if force else changed()):
        try:
            m = _load(name)
        except Exception as e:
            STATE['errors'].append('%s.pyx cannot be interpreted: %s: %s' % (name, type(e).__name__, e))
            continue
        if name == '_filter':
            bt._filter = m._filter
        elif name == '_transform':
            bt._transform = m._transform
        else:
            bt.subsample = m.subsample
        STATE['patched'].append(name)
    return STATE


install()
