"""An independent reader of BIOM 2.1 HDF5 files, written from
doc/documentation/format_versions/biom-2.1.rst with raw h5py only (nothing of biom is
imported).  `decode(path)` returns what the specification lets a reader recover plus the list
of places where the file departs from the specification.  This is the oracle of C04.

Reading of the rst used here
  * attributes: id (string), type (string; controlled vocabulary, the empty string is accepted
    for "no type" since the attribute is required but a table need not have a type; a value outside the
    vocabulary is reported under 'notes', not under 'problems'),
    format-url (string), format-version (two ints, (2, 1)), generated-by (string),
    creation-date (string, ISO 8601), shape (two ints), nnz (int)
  * the eight groups, the eight datasets with their element types
  * the rst gives (M+1,) for observation/matrix/indptr ("compressed row offsets") and (N+1,) for
    sample/matrix/indptr ("compressed column offsets") with N observations and M samples; row
    offsets have rows+1 = N+1 entries, column offsets M+1; the semantics is followed and the
    two sizes printed in the rst are treated as swapped
  * an ids dataset of length 0 carries no element, so its element type is not constrained
  * metadata datasets have one entry per ID (first dimension), the special categories
    (taxonomy, KEGG_Pathways, collapsed_ids) are (N, ?) string datasets
  * group-metadata datasets hold a single string and carry a data_type attribute
"""
import datetime
import struct

import h5py
import numpy as np

VOCABULARY = ["OTU table", "Pathway table", "Function table", "Ortholog table", "Gene table",
              "Metabolite table", "Taxon table"]
GROUPS = ['observation', 'observation/matrix', 'observation/metadata', 'observation/group-metadata',
          'sample', 'sample/matrix', 'sample/metadata', 'sample/group-metadata']
SPECIAL = ['taxonomy', 'KEGG_Pathways', 'collapsed_ids']


def _bits(v):
    return struct.unpack('<q', struct.pack('<d', float(v)))[0]


def _is_str(dt):
    return h5py.check_string_dtype(dt) is not None or dt.kind == 'S'


def _text(x, problems=None, where=''):
    """HDF5 variable-length strings written by h5py are UTF-8; anything else is reported"""
    if not isinstance(x, bytes):
        return str(x)
    try:
        return x.decode('utf-8')
    except UnicodeDecodeError:
        if problems is not None:
            problems.append('%s: string %r is not UTF-8' % (where, x))
        return x.decode('utf-8', 'backslashreplace')


def _matrix(f, axis, n_major, n_minor, nnz, problems):
    """decode one compressed matrix group into a dense  n_major x n_minor  list of bit patterns"""
    g = '%s/matrix/' % axis
    for name, dt in (('data', np.float64), ('indices', np.int32), ('indptr', np.int32)):
        if g + name not in f or not isinstance(f[g + name], h5py.Dataset):
            problems.append('%s%s: required dataset missing' % (g, name))
            return None
        if f[g + name].dtype != dt:
            problems.append('%s%s: element type %s, specified %s' % (g, name, f[g + name].dtype, np.dtype(dt)))
        if len(f[g + name].shape) != 1:
            problems.append('%s%s: not one-dimensional' % (g, name))
            return None
    data, indices, indptr = f[g + 'data'][()], f[g + 'indices'][()], f[g + 'indptr'][()]
    ok = True
    if len(data) != nnz:
        problems.append('%sdata: %d values, nnz says %d' % (g, len(data), nnz)); ok = False
    if len(indices) != len(data):
        problems.append('%sindices: %d entries for %d values' % (g, len(indices), len(data))); ok = False
    if len(indptr) != n_major + 1:
        problems.append('%sindptr: %d offsets for %d %s' % (g, len(indptr), n_major,
                                                             'rows' if axis == 'observation' else 'columns')); ok = False
    if not ok:
        return None
    if indptr[0] != 0:
        problems.append('%sindptr: first offset is %d' % (g, indptr[0])); ok = False
    if any(indptr[i] > indptr[i + 1] for i in range(len(indptr) - 1)):
        problems.append('%sindptr: offsets decrease' % g); ok = False
    if indptr[-1] != len(data):
        problems.append('%sindptr: last offset %d, %d values stored' % (g, indptr[-1], len(data))); ok = False
    if any(j < 0 or j >= n_minor for j in indices):
        problems.append('%sindices: entry outside 0..%d' % (g, n_minor - 1)); ok = False
    if any(v == 0 for v in data):
        problems.append('%sdata: a zero is stored' % g)
    if not ok:
        return None
    dense = [[0] * n_minor for _ in range(n_major)]
    for i in range(n_major):
        seen = set()
        for p in range(indptr[i], indptr[i + 1]):
            j = int(indices[p])
            if j in seen:
                problems.append('%s: index %d twice in %s %d' % (g, j, 'row' if axis == 'observation' else 'column', i))
            seen.add(j)
            dense[i][j] = _bits(data[p])
    return dense


def decode(path):
    problems = []
    out = {'problems': problems, 'notes': [], 'shape': None, 'nnz': None, 'csr': None, 'csc': None,
           'ids': {}, 'md_entries': {}, 'attrs': {}}
    with h5py.File(path, 'r') as f:
        a = f.attrs
        for name in ('id', 'type', 'format-url', 'generated-by', 'creation-date'):
            if name not in a:
                problems.append('attribute %s missing' % name)
            elif not _is_str(a.get_id(name).dtype) or a.get_id(name).shape != ():
                problems.append('attribute %s is not a string' % name)
            else:
                out['attrs'][name] = _text(a[name])
        if 'type' in out['attrs'] and out['attrs']['type'] not in VOCABULARY + ['']:
            # for information only: the library writes whatever type the table carries (it never validates it),
            # so this reflects the table handed to the writer, not the writer (docs/C04.md, "Observation")
            out['notes'].append('attribute type %r is not in the controlled vocabulary' % out['attrs']['type'])
        if 'creation-date' in out['attrs']:
            try:
                datetime.datetime.fromisoformat(out['attrs']['creation-date'])
            except ValueError:
                problems.append('attribute creation-date %r is not ISO 8601' % out['attrs']['creation-date'])
        if 'format-version' not in a:
            problems.append('attribute format-version missing')
        else:
            v = np.asarray(a['format-version'])
            if v.dtype.kind not in 'iu' or v.shape != (2,):
                problems.append('attribute format-version is not two ints')
            elif [int(x) for x in v] != [2, 1]:
                problems.append('attribute format-version is %s' % list(v))
        if 'shape' not in a:
            problems.append('attribute shape missing')
        else:
            v = np.asarray(a['shape'])
            if v.dtype.kind not in 'iu' or v.shape != (2,) or min(int(x) for x in v) < 0:
                problems.append('attribute shape is not two non-negative ints')
            else:
                out['shape'] = [int(v[0]), int(v[1])]
        if 'nnz' not in a:
            problems.append('attribute nnz missing')
        else:
            v = np.asarray(a['nnz'])
            if v.dtype.kind not in 'iu' or v.shape != ():
                problems.append('attribute nnz is not an int')
            else:
                out['nnz'] = int(v)
        for g in GROUPS:
            if g not in f or not isinstance(f[g], h5py.Group):
                problems.append('group %s missing' % g)
        if out['shape'] is None or out['nnz'] is None or any(p.startswith('group') for p in problems):
            return out
        n, m = out['shape']
        for axis, count in (('observation', n), ('sample', m)):
            name = '%s/ids' % axis
            if name not in f or not isinstance(f[name], h5py.Dataset):
                problems.append('%s: required dataset missing' % name)
                continue
            d = f[name]
            if d.shape != (count,):
                problems.append('%s: shape %s for %d ids' % (name, d.shape, count))
                continue
            if count and not _is_str(d.dtype):
                problems.append('%s: element type %s is not a string type' % (name, d.dtype))
                continue
            out['ids'][axis] = [_text(x, problems, name) for x in d[()]] if count else []
            entries = {}
            for cat, ds in f['%s/metadata' % axis].items():
                if not isinstance(ds, h5py.Dataset):
                    problems.append('%s/metadata/%s is not a dataset' % (axis, cat))
                    continue
                if len(ds.shape) == 0 or ds.shape[0] != count:
                    problems.append('%s/metadata/%s: shape %s for %d ids' % (axis, cat, ds.shape, count))
                if cat in SPECIAL and (len(ds.shape) != 2 or not _is_str(ds.dtype)):
                    problems.append('%s/metadata/%s: special category is not an (N, ?) string dataset' % (axis, cat))
                entries[cat] = list(ds.shape)
            out['md_entries'][axis] = entries
            for cat, ds in f['%s/group-metadata' % axis].items():
                if not isinstance(ds, h5py.Dataset) or not _is_str(ds.dtype) or ds.size != 1:
                    problems.append('%s/group-metadata/%s is not a single string' % (axis, cat))
                elif 'data_type' not in ds.attrs:
                    problems.append('%s/group-metadata/%s has no data_type attribute' % (axis, cat))
        csr = _matrix(f, 'observation', n, m, out['nnz'], problems)      # N rows of column indices
        cscT = _matrix(f, 'sample', m, n, out['nnz'], problems)          # M columns of row indices
        out['csr'] = csr
        if cscT is not None:
            out['csc'] = [[cscT[j][i] for j in range(m)] for i in range(n)]
    return out
