"""C02: the BIOM 1.0 JSON writer emits well-formed JSON that reads back exactly.

A case is a table spec (tables.rand_spec: content + layout recipe) with values that need more
than six decimals or lie below 1e-6, strings over quote / backslash / control / non-BMP
characters in IDs, metadata, table id, type and generated_by, nested / null / numpy-scalar
metadata, a creation date, plus a few strings for the text layer (what dumps writes, what the
JSON scanner reads from a raw literal).  The real table is written by Table.to_json (returned
string and direct_io stream), the text is parsed with the stdlib json module (independent of
biom) and compared with the model's JSON tree, then read back through load_table(path), a gzip
path, parse_table(handle), parse_table(list of lines) and Table.from_json(dict)."""
import datetime
import gzip
import io
import json
import os
import struct
import tempfile

import numpy as np

import biom
from biom import Table, load_table, parse_table
from biom.table import dumps as biom_dumps

from . import tables

ID = 'C02'
RULE = ('tables.rand_spec tables (1-5 x 1-5, every layout recipe: dense/CSR/CSC/COO/lists/stored zeros/unsorted '
        'indices, then sort_order, transpose twice, row/column access, nnz, copy) whose values are drawn from counts, '
        'dyadic, signed, >6-decimal, sub-1e-6, subnormal and huge doubles; IDs, metadata keys/values, table id, type, '
        'generated_by drawn from an alphabet with quote, backslash, every control character, DEL, Latin-1, BMP '
        'edges, non-BMP; metadata kinds none/text/num/tax/nested/null/numpy scalars/tuples; naive creation dates; '
        'six tables per run with an axis of 257-300 IDs (1 x 300, 2 x 258, 300 x 2, 258 x 1, ...), sparse; '
        'every document written plain and gzip-compressed under names that do not follow the compression (x.biom, '
        'x.json, x.json.gz, x.gz, x.GZ, x, x.txt); '
        'plus a contract test of repr(float)/float() on 20000 doubles (random bit patterns, subnormals, powers of '
        'two +-1ulp); non-trivial = a table with at least one non-zero cell; distinct by case hash')
TRUSTED = ['hand-written models coq/Model/Json.v and coq/Model/JsonText.v tied to biom/table.py (to_json, from_json, '
           'constructor, dumps) by this correspondence run: the text of the returned string character for character, '
           'the JSON tree, key order of both writers, read-back table, dumps text of every string, scanner result on raw '
           'literals, and what the Coq reader makes of the text (= what the stdlib parser makes of it)',
           'stdlib json module (parser used as the independent oracle for well-formedness and content)',
           'CPython repr(float)/float(): number text is an oracle with the contract of fmt_contract (non-empty, only '
           '0-9 + - . e, not an integer literal, float(repr(x)) == x), validated here on 20000 doubles as a test, not proved',
           'json.dumps of metadata values: oracle with the contract md_contract (reads back as the value), validated by '
           'running the Coq reader on every written document',
           'extraction (ExtrOcamlBasic only) + ocaml/driver_tail.ml, cross-checked against vm_compute on a sample']
ASSUMPTIONS = ['matrix values are finite doubles (repr of inf/nan is not JSON); -0.0 is identified with 0.0',
               'strings are sequences of Unicode scalar values (no lone surrogates)',
               'datetime.fromisoformat(d.isoformat()) == d (stdlib)',
               'metadata is compared through its JSON image (tuples -> lists, numpy scalars -> numbers, keys -> text)']

from . import regen_json as _regen_json
# py2v_json: regenerate coq/Gen/JsonGen.v (Table.to_json, both variants) from the source first
regenerate = _regen_json.hook(TRUSTED, [], 'coq/Model/JsonText.v', 'coq/Proofs/GenBridgeJsonProofs.v')

PIECES = ['"', '\\', '\\\\', '\\"', '/', '\b', '\f', '\n', '\r', '\t', '\x00', '\x01', '\x0b', '\x1f', '\x7f',
          '\x80', 'é', 'ñ', ' ', '퟿', '', '￿', '\U00010000', '\U0001d11e', '\U0010ffff',
          '\U0001f600', 'a', 'Z', ' ', '\\u0041', '\\n', '{', '}', '[', ']', ',', ':', "'", '%s', '%d', 'null', '",']
VALUE_KINDS = ['counts', 'small', 'signed', 'dyadic', 'big', 'tiny', 'precise', 'huge', 'mixed']
TINY = [1e-7, 5e-324, 2.5e-9, -3e-12, 9.999999e-7, 4.9406564584124654e-324, 2.2250738585072014e-308]
PRECISE = [1.23456789, 0.1 + 0.2, 1 / 3, 2 ** -40, 123456.7890123, -0.30000000000000004, 1.0000001, 1e-6 + 1e-13]
HUGE = [1e22, 1.7976931348623157e308, float(2 ** 53 + 2), -1e300, 1e16, 123456789012345680.0]


# ---------------------------------------------------------------- float coding
def fhex(x):
    return {'$f': float(x).hex()}


def bits(x):
    return struct.unpack('<q', struct.pack('<d', float(x)))[0]


class FCoder:
    """doubles <-> opaque integer codes (0.0 and -0.0 -> 0): the tree layer never computes with a value"""

    def __init__(self, floats):
        vals = sorted({bits(x) for x in floats if x != 0})
        self.code = {b: i + 1 for i, b in enumerate(vals)}
        self.back = {i + 1: struct.unpack('<d', struct.pack('<q', b))[0] for i, b in enumerate(vals)}
        self.back[0] = 0.0

    def enc(self, x):
        return 0 if x == 0 else self.code[bits(x)]

    def dec(self, k):
        return self.back.get(k, float('nan'))


def floats_in(x, acc):
    if isinstance(x, float):
        acc.append(x)
    elif isinstance(x, dict):
        for v in x.values():
            floats_in(v, acc)
    elif isinstance(x, (list, tuple)):
        for v in x:
            floats_in(v, acc)


# ---------------------------------------------------------------- metadata realisation / image
def realise(x):
    """turn the JSON-able tags of a case into the python objects a caller would use"""
    if isinstance(x, dict):
        if '$np' in x:
            k = x['$np']
            if k == 'array':
                return np.array(x['v'])
            return getattr(np, k)(x['v'])
        if '$tuple' in x:
            return tuple(realise(v) for v in x['$tuple'])
        return {k: realise(v) for k, v in x.items()}
    if isinstance(x, list):
        return [realise(v) for v in x]
    return x


def image(x):
    """the JSON image of a metadata value of a case"""
    if isinstance(x, dict):
        if '$np' in x:
            v = x['v']
            if x['$np'] == 'array':
                return list(v)
            return float(getattr(np, x['$np'])(v)) if x['$np'].startswith('float') else int(v)
        if '$tuple' in x:
            return [image(v) for v in x['$tuple']]
        return {str(k): image(v) for k, v in x.items()}
    if isinstance(x, list):
        return [image(v) for v in x]
    return x


def held_md(md):
    """what the constructor keeps (table.py:495-513, 660-686): nothing if every entry is empty,
    otherwise one dict per ID"""
    if md is None or all(not m for m in md):
        return None
    return [image(m) if m else {} for m in md]


def canon_md(md):
    if md is None or all(not m for m in md):
        return None
    return [tag(m) if m else {} for m in md]


def tag(x):
    """exact, JSON-able form of a parsed JSON value (floats by their hex text)"""
    if isinstance(x, bool) or x is None or isinstance(x, (int, str)):
        return x
    if isinstance(x, float):
        return fhex(x)
    if isinstance(x, (list, tuple)):
        return [tag(v) for v in x]
    if isinstance(x, dict):
        return {str(k): tag(v) for k, v in x.items()}
    if isinstance(x, np.generic):
        return tag(x.item())
    if isinstance(x, np.ndarray):
        return tag(x.tolist())
    raise TypeError(type(x))


def case_date(c):
    d = c['date']
    tz = None if d[7] is None else datetime.timezone(datetime.timedelta(minutes=d[7]))
    return datetime.datetime(d[0], d[1], d[2], d[3], d[4], d[5], d[6], tzinfo=tz)


# ---------------------------------------------------------------- the implementation
def build_table(c):
    spec = dict(c['spec'])
    spec['omd'] = None if spec['omd'] is None else [None if m is None else realise(m) for m in spec['omd']]
    spec['smd'] = None if spec['smd'] is None else [None if m is None else realise(m) for m in spec['smd']]
    t = tables.build(spec)
    t.table_id = c['table_id']
    if c.get('stored_zero') and t.shape[0] and t.shape[1]:
        # the constructor eliminates caller-supplied zeros; put explicit zeros back the way
        # subsample / transform leave them behind (same content, different representation)
        t._data = tables._initial('csr_zero', np.asarray(t.matrix_data.todense(), dtype=float))
    return t


def snap(t):
    d = t.matrix_data.copy()
    dense = np.asarray(d.todense(), dtype=float).reshape(d.shape)

    def md(ax):
        m = t.metadata(axis=ax)
        return None if m is None else canon_md([tables.plain(dict(x)) if x is not None else None for x in m])
    cd = getattr(t, 'create_date', None)
    return {'oids': [str(i) for i in t.ids(axis='observation')], 'sids': [str(i) for i in t.ids()],
            'mat': [[fhex(v) for v in row] for row in dense.tolist()] if d.shape[0] and d.shape[1]
            else [[] for _ in range(d.shape[0])],
            'omd': md('observation'), 'smd': md('sample'), 'type': t.type,
            'generated_by': t.generated_by, 'date': cd.isoformat() if cd is not None else None}


def attempt(f):
    try:
        return snap(f())
    except Exception as e:  # noqa
        return ['err', tables.err_code(e)]


FILE_NAMES = ['x.biom', 'x.json', 'x.json.gz', 'x.gz', 'x.GZ', 'x', 'x.txt']
ALL_FORMS = [[comp, n] for comp in ('plain', 'gzip') for n in FILE_NAMES]


def file_forms(c):
    """(compression, file name) pairs under which the text is written and loaded: all 14 unless the case picks some"""
    return [tuple(x) for x in c.get('files', ALL_FORMS)]


LAYOUTS = {}
STATS = {}


def case_strings(c):
    out = []
    s = c['spec']
    out += list(s['oids']) + list(s['sids'])
    for x in (c['table_id'], s['type'], c['generated_by']):
        if isinstance(x, str):
            out.append(x)

    def walk(x):
        if isinstance(x, str):
            out.append(x)
        elif isinstance(x, dict):
            for k, v in x.items():
                if not str(k).startswith('$'):
                    out.append(str(k))
                walk(v)
        elif isinstance(x, list):
            for v in x:
                walk(v)
    walk(s['omd'])
    walk(s['smd'])
    seen, res = set(), []
    for x in out:
        if x not in seen:
            seen.add(x)
            res.append(x)
    return res[:40]


def scan(r):
    if r[:1] != '"':
        return None
    try:
        v, end = json.decoder.scanstring(r, 1)
        return [v, r[end:]]
    except ValueError:
        return None


def number_contract(c):
    """repr(float) / float() / json on a deterministic sample of doubles: a test of the number oracle"""
    import random
    rng = random.Random(c['seed'])
    xs = []
    n = c['n']
    while len(xs) < n * 6 // 10:
        b = rng.getrandbits(64)
        x = struct.unpack('<d', struct.pack('<Q', b))[0]
        if x == x and abs(x) != float('inf'):
            xs.append(x)
    while len(xs) < n * 7 // 10:                       # subnormals
        xs.append(struct.unpack('<d', struct.pack('<Q', rng.getrandbits(52) | (rng.getrandbits(1) << 63)))[0])
    e = -1074
    while len(xs) < n * 9 // 10:                       # powers of two and their neighbours
        p = 2.0 ** e
        xs += [p, np.nextafter(p, 0.0).item(), np.nextafter(p, np.inf).item(), -p]
        e += 1
        if e > 1023:
            e = -1074
    while len(xs) < n:                                 # decimal-looking values
        xs.append(round(rng.uniform(-1e6, 1e6), rng.randint(0, 12)) * 10.0 ** rng.randint(-12, 12))
    xs = xs[:n]
    bad = []
    for x in xs:
        r = repr(float(np.float64(x)))
        ok = (float(r) == x and bits(float(r)) == bits(x) and set(r) <= set('0123456789.e+-')
              and ('.' in r or 'e' in r))
        if ok:
            j = json.loads('[%d,%d,%s]' % (3, 4, r))
            ok = j[0] == 3 and j[1] == 4 and isinstance(j[2], float) and bits(j[2]) == bits(x)
        if not ok:
            bad.append(x.hex())
    STATS['number-contract:subnormal'] = sum(1 for x in xs if x != 0 and abs(x) < 2.2250738585072014e-308)
    STATS['number-contract:doubles'] = len(xs)
    return {'numbers': n, 'bad': bad[:5]}


def run_impl(c):
    if c.get('kind') == 'numbers':
        return number_contract(c)
    obs = {'dumps': [biom_dumps(s) for s in case_strings(c)], 'lex': [scan(r) for r in c['raws']]}
    try:
        t = build_table(c)
    except Exception as e:  # noqa
        return ['build-failed', type(e).__name__, str(e)[:100]]
    LAYOUTS[json.dumps(c, sort_keys=True)] = tables.layout_info(t)
    before = snap(t)
    dt = case_date(c)
    gb = c['generated_by']
    txt = t.to_json(gb, creation_date=dt)
    buf = io.StringIO()
    t.to_json(gb, direct_io=buf, creation_date=dt)
    dtxt = buf.getvalue()
    obs['source_unchanged'] = snap(t) == before
    obs['text'] = txt
    try:
        pairs = json.loads(txt, object_pairs_hook=lambda p: ('obj', p))
        dpairs = json.loads(dtxt, object_pairs_hook=lambda p: ('obj', p))
    except ValueError:
        obs['wellformed'] = False
        return obs
    obs['wellformed'] = True

    def plainify(x):
        if isinstance(x, tuple) and len(x) == 2 and x[0] == 'obj':
            return {k: plainify(v) for k, v in x[1]}
        if isinstance(x, list):
            return [plainify(v) for v in x]
        return x
    doc, ddoc = plainify(pairs), plainify(dpairs)
    obs['doc'] = tag(doc)
    obs['reparse'] = obs['doc']          # the model side is what the Coq reader makes of the model's text
    obs['keys'] = [k for k, _ in pairs[1]]
    obs['dkeys'] = [k for k, _ in dpairs[1]]
    obs['ddoc_same'] = tag(ddoc) == obs['doc']
    obs['read'] = attempt(lambda: Table.from_json(json.loads(txt)))
    obs['dread'] = attempt(lambda: Table.from_json(json.loads(dtxt)))
    d = tempfile.mkdtemp(prefix='c02-', dir=os.environ.get('TMPDIR', '/tmp'))
    paths = []
    try:
        p = os.path.join(d, 't.biom')
        with open(p, 'w') as fh:
            fh.write(txt)
        cuts = sorted(set(min(len(txt), k) for k in c['split']))
        lines = [txt[a:b] for a, b in zip([0] + cuts, cuts + [len(txt)])]

        def with_handle():
            with open(p) as fh:
                return parse_table(fh)
        for name, f in (('parse_table(handle)', with_handle), ('parse_table(lines)', lambda: parse_table(lines)),
                        ('parse_table(str)', lambda: parse_table(txt))):
            r = attempt(f)
            paths.append([name, 'same' if r == obs['read'] else r])
        # load_table sniffs the content: the file name varies independently of the compression
        for comp, fname in file_forms(c):
            q = os.path.join(d, fname)
            if comp == 'gzip':
                with gzip.open(q, 'wt') as fh:
                    fh.write(txt)
            else:
                with open(q, 'w') as fh:
                    fh.write(txt)
            r = attempt(lambda: load_table(q))
            os.unlink(q)
            paths.append(['load_table(%s, %s)' % (comp, fname), 'same' if r == obs['read'] else r])
    finally:
        for f in os.listdir(d):
            os.unlink(os.path.join(d, f))
        os.rmdir(d)
    obs['paths'] = paths
    return obs


# ---------------------------------------------------------------- wire
def cps(s):
    return [ord(ch) for ch in s]


def uncps(t):
    return ''.join(chr(k) for k in t)


def enc_json(x, fc):
    if x is None:
        return [0]
    if isinstance(x, bool):
        return [1, int(x)]
    if isinstance(x, int):
        return [2, x]
    if isinstance(x, float):
        return [3, fc.enc(x)]
    if isinstance(x, str):
        return [4, cps(x)]
    if isinstance(x, (list, tuple)):
        return [5, [enc_json(v, fc) for v in x]]
    if isinstance(x, dict):
        return [6, [[cps(str(k)), enc_json(v, fc)] for k, v in x.items()]]
    raise TypeError(type(x))


def dec_json(t, fc):
    k = t[0]
    if k == 0:
        return None
    if k == 1:
        return bool(t[1])
    if k == 2:
        return t[1]
    if k == 3:
        return fhex(fc.dec(t[1]))
    if k == 4:
        return uncps(t[1])
    if k == 5:
        return [dec_json(v, fc) for v in t[1]]
    return {uncps(a): dec_json(b, fc) for a, b in t[1]}


def coder_of(c):
    acc = []
    s = c['spec']
    for row in s['mat']:
        acc += [float(v) for v in row]
    floats_in(held_md(s['omd']), acc)
    floats_in(held_md(s['smd']), acc)
    return FCoder(acc)


def encode(c):
    if c.get('kind') == 'numbers':
        return [[[], [], [], [], [], [0], [0], [0]], [], [], [], [], []]
    fc = coder_of(c)
    s = c['spec']

    def md(m):
        h = held_md(m)
        return [] if h is None else [[enc_json(x, fc) for x in h]]
    nr, nc = len(s['oids']), len(s['sids'])
    mat = [[fc.enc(float(v)) for v in row] for row in s['mat']] if nr and nc else [[] for _ in range(nr)]
    jt = [[cps(i) for i in s['oids']], [cps(i) for i in s['sids']], mat, md(s['omd']), md(s['smd']),
          enc_json(s['type'], fc), enc_json(c['generated_by'], fc), enc_json(case_date(c).isoformat(), fc)]
    floats = []
    for row in s['mat']:
        floats += [float(v) for v in row]
    floats_in(held_md(s['omd']), floats)
    floats_in(held_md(s['smd']), floats)
    ftbl, seen = [[0, cps('0.0')]], set()
    for x in floats:
        k = fc.enc(x)
        if k and k not in seen:
            seen.add(k)
            ftbl.append([k, cps(repr(float(x)))])
    mtbl = [[[0], cps('null')]]
    for m in (s['omd'], s['smd']):
        h = held_md(m)
        if h is not None:
            for real, img in zip(m, h):
                mtbl.append([enc_json(img, fc), cps(biom_dumps(realise(real) if real else {}))])
    return [jt, cps(str(c['table_id'])), [cps(x) for x in case_strings(c)], [cps(r) for r in c['raws']], ftbl, mtbl]


def dec_table(tr, fc):
    def md(m):
        if not m:
            return None
        return canon_md([dec_json(x, fc) for x in m[0]])
    ty, gb, dt = dec_json(tr[5], fc), dec_json(tr[6], fc), dec_json(tr[7], fc)
    return {'oids': [uncps(i) for i in tr[0]], 'sids': [uncps(i) for i in tr[1]],
            'mat': [[fhex(fc.dec(k)) for k in row] for row in tr[2]],
            'omd': md(tr[3]), 'smd': md(tr[4]), 'type': ty, 'generated_by': gb, 'date': dt}


def dec_result(t, fc):
    if t[0] == -1:
        return ['err', t[1]]
    return dec_table(t[1], fc)


def decode(tree, c):
    if c.get('kind') == 'numbers':
        return {'numbers': c['n'], 'bad': []}
    fc = coder_of(c)
    doc, keys, dkeys, closes, read, dread, dmp, lex, text, reparse = tree
    obs = {'dumps': [uncps(x) for x in dmp],
           'lex': [None if not x else [uncps(x[0][0]), uncps(x[0][1])] for x in lex]}
    obs['source_unchanged'] = True
    obs['text'] = uncps(text)
    if not closes:
        obs['wellformed'] = False
        return obs
    obs['wellformed'] = True
    obs['doc'] = dec_json(doc, fc)
    obs['reparse'] = dec_json(reparse[0], fc) if reparse else None
    obs['keys'] = [uncps(k) for k in keys]
    obs['dkeys'] = [uncps(k) for k in dkeys]
    obs['ddoc_same'] = True
    obs['read'] = dec_result(read, fc)
    obs['dread'] = dec_result(dread, fc)
    obs['paths'] = [[n, 'same'] for n in ('parse_table(handle)', 'parse_table(lines)', 'parse_table(str)')] + \
        [['load_table(%s, %s)' % cf, 'same'] for cf in file_forms(c)]
    return obs


# ---------------------------------------------------------------- generation
def rand_string(rng, base=''):
    n = rng.choice([1, 1, 2, 3, 5])
    return base + ''.join(rng.choice(PIECES) for _ in range(n))


def rand_value(rng, kind):
    if kind == 'tiny':
        return rng.choice(TINY)
    if kind == 'precise':
        return rng.choice(PRECISE)
    if kind == 'huge':
        return rng.choice(HUGE)
    if kind == 'mixed':
        return rand_value(rng, rng.choice(['counts', 'tiny', 'precise', 'huge', 'signed', 'dyadic']))
    return tables.rand_value(rng, kind)


def rand_md_value(rng, depth=0):
    r = rng.random()
    if r < 0.2:
        return rand_string(rng)
    if r < 0.3:
        return rng.randint(-10 ** 12, 10 ** 12)
    if r < 0.4:
        return rng.choice([0.5, 1.25, 1e-9, 1.23456789, 1e22, -2.5])
    if r < 0.47:
        return None
    if r < 0.54:
        return bool(rng.getrandbits(1))
    if r < 0.62:
        return {'$np': rng.choice(['int64', 'int32', 'float64']), 'v': rng.choice([3, -7, 0, 12])}
    if r < 0.66:
        return {'$np': 'float32', 'v': rng.choice([0.5, 0.25, 3.0])}
    if r < 0.70:
        return {'$np': 'array', 'v': [rng.randint(0, 5) for _ in range(rng.randint(0, 3))]}
    if r < 0.76 and depth < 2:
        return {'$tuple': [rand_md_value(rng, depth + 1) for _ in range(rng.randint(0, 3))]}
    if depth < 2 and r < 0.9:
        return [rand_md_value(rng, depth + 1) for _ in range(rng.randint(0, 3))]
    if depth < 2:
        return {rand_string(rng, 'k'): rand_md_value(rng, depth + 1) for _ in range(rng.randint(0, 2))}
    return 'leaf'


def rand_md(rng, n, kind):
    if kind == 'none':
        return None
    if kind == 'empty':
        return [{} for _ in range(n)]
    if kind == 'partial':
        return [({'k': rand_md_value(rng)} if rng.random() < 0.5 else (None if rng.random() < 0.5 else {}))
                for _ in range(n)]
    if kind == 'nested':
        return [{rand_string(rng, 'k%d' % j): rand_md_value(rng) for j in range(rng.randint(1, 3))} for _ in range(n)]
    return [tables.rand_md(rng, kind, i) for i in range(n)]


def gen_case(rng):
    kind = rng.choice(VALUE_KINDS)
    spec = tables.rand_spec(rng, max_r=5, max_c=5, values='counts', ttype=None)
    r, c = len(spec['oids']), len(spec['sids'])
    dens = rng.choice([0.0, 0.2, 0.6, 0.6, 1.0])
    spec['mat'] = [[rand_value(rng, kind) if rng.random() < dens else 0.0 for _ in range(c)] for _ in range(r)]
    idk = rng.choice(['plain', 'plain', 'special', 'special', 'alphabet'])
    if idk == 'special':
        spec['oids'] = [rand_string(rng) + 'o%d' % i for i in range(r)]      # numpy drops trailing NULs of an ID
        spec['sids'] = [rand_string(rng) + 's%d' % i for i in range(c)]
    mk = rng.choice(['none', 'none', 'text', 'num', 'tax', 'nested', 'nested', 'partial', 'empty'])
    spec['omd'] = rand_md(rng, r, mk)
    spec['smd'] = rand_md(rng, c, rng.choice([mk, 'none', 'nested']))
    spec['type'] = rng.choice([None, 'OTU table', 'Taxon table', rand_string(rng, 'ty'), rand_string(rng)])
    y = rng.choice([1, 1999, 2020, 2026, 9999])
    date = [y, rng.randint(1, 12), rng.randint(1, 28), rng.randint(0, 23), rng.randint(0, 59), rng.randint(0, 59),
            rng.choice([0, 0, 7, 999999, rng.randint(0, 999999)]), None]
    raws = []
    for _ in range(3):
        body = ''.join(rng.choice(PIECES + ['\\u00e9', '\\ud834\\udd1e', '\\ud834', '\\udd1e', '\\uD834x', '\\u12',
                                            '\\x', '\\/', 'abc']) for _ in range(rng.randint(0, 4)))
        raws.append('"' + body + rng.choice(['"', '"', '"tail', '', '",']))
    return {'spec': spec, 'vkind': kind, 'idkind': idk, 'mdkind': mk,
            'table_id': rng.choice([None, 'tid', rand_string(rng, 'id')]),
            'generated_by': rng.choice(['gen', 'biom 2.1', rand_string(rng, 'g'), rand_string(rng)]),
            'files': ALL_FORMS if rng.random() < 0.15 else rng.sample(ALL_FORMS, 4),
            'stored_zero': rng.random() < 0.3, 'date': date, 'raws': raws, 'split': [rng.randint(0, 400) for _ in range(rng.randint(0, 3))]}


def gen_empty_axis(rng):
    """a table with an empty axis: outside the 1..N x 1..M domain of the property text, inside 'any table'"""
    c = gen_case(rng)
    s = c['spec']
    which = rng.choice(['obs', 'samp', 'both'])
    if which in ('obs', 'both'):
        s['oids'], s['omd'], s['mat'] = [], None, []
    if which in ('samp', 'both'):
        s['sids'], s['smd'], s['mat'] = [], None, [[] for _ in s['oids']]
    s['layout'] = [rng.choice(['dense', 'csr', 'csc'])]
    c['stored_zero'] = False
    return c


LARGE_SHAPES = [(1, 300), (2, 258), (300, 2), (258, 1), (3, 257), (257, 3), (2, 259), (259, 2), (260, 260)]


def gen_large(rng, r, c):
    """a long axis (beyond CPython's cached small integers, 256), sparse so that it stays cheap"""
    case = gen_case(rng)
    s = case['spec']
    s['oids'] = ['o%d' % i for i in range(r)]
    s['sids'] = ['s%d' % i for i in range(c)]
    s['mat'] = [[0.0] * c for _ in range(r)]
    for _ in range(rng.randint(1, 12)):
        s['mat'][rng.randrange(r)][rng.randrange(c)] = rand_value(rng, rng.choice(['counts', 'precise', 'tiny']))
    # the last vector of each axis holds a value, or not
    if rng.random() < 0.5:
        s['mat'][r - 1][c - 1] = 2.5
    mk = rng.choice(['none', 'group'])
    s['omd'] = None if mk == 'none' else [{'g': 'g%d' % (i % 3)} for i in range(r)]
    s['smd'] = None if rng.random() < 0.5 else [{'g': 'h%d' % (i % 2)} for i in range(c)]
    s['layout'] = [rng.choice(['dense', 'csr', 'csc'])]
    case.update(vkind='large', idkind='plain', mdkind=mk, stored_zero=False, raws=[],
                files=rng.sample(ALL_FORMS, 2))
    return case


def gen(rng, tier):
    yield {'kind': 'numbers', 'seed': rng.randint(0, 10 ** 9), 'n': 20000}
    shapes = LARGE_SHAPES[:4] + rng.sample(LARGE_SHAPES[4:], 2) if tier == 'quick' else LARGE_SHAPES * 3
    for r, c in shapes:
        yield gen_large(rng, r, c)
    n = 600 if tier == 'quick' else 6000
    for k in range(n):
        yield gen_empty_axis(rng) if k % 20 == 19 else gen_case(rng)


def nontrivial(c):
    if c.get('kind') == 'numbers':
        return True
    return any(v != 0 for row in c['spec']['mat'] for v in row)


def in_domain(c):
    s = c['spec']
    return len(s['oids']) >= 1 and len(s['sids']) >= 1


def classify(c):
    if c.get('kind') == 'numbers':
        return ['number-contract'] + ['%s=%d' % kv for kv in sorted(STATS.items())]
    s = c['spec']
    tags = ['file:%s:%s' % cf for cf in file_forms(c)] + ['values:' + c.get('vkind', '?'), 'ids:' + c.get('idkind', '?'), 'md:' + c.get('mdkind', '?'),
            'dims:%dx%d' % (len(s['oids']), len(s['sids'])) if max(len(s['oids']), len(s['sids'])) < 10 else 'dims:large', 'layout0:' + str((s.get('layout') or ['dense'])[0])]
    lay = LAYOUTS.get(json.dumps(c, sort_keys=True))
    if lay:
        tags.append('repr:' + lay)
    if not in_domain(c):
        tags.append('empty-axis')
    if max(len(s['oids']), len(s['sids'])) > 256:
        tags.append('long-axis(>256)')
    if all(v == 0 for row in s['mat'] for v in row):
        tags.append('all-zero')
    return tags


# ---------------------------------------------------------------- oracle (the property text)
def oracle(c, obs):
    if c.get('kind') == 'numbers':
        return ['repr/float does not round-trip %s' % obs['bad']] if obs.get('bad') else []
    if isinstance(obs, list):
        return ['harness could not build the table: %s' % obs]
    fails = []
    s = c['spec']
    # text layer: what dumps writes parses back (stdlib json) to the string
    for x, d in zip(case_strings(c), obs['dumps']):
        try:
            if json.loads(d) != x:
                fails.append('dumps(%r) reads back as %r' % (x, json.loads(d)))
        except ValueError:
            fails.append('dumps(%r) = %r is not JSON' % (x, d))
    if not obs.get('wellformed'):
        return fails + ['to_json output is not well-formed JSON']
    if not obs.get('source_unchanged'):
        fails.append('to_json modified the table')
    doc = obs['doc']
    want_keys = {'id', 'format', 'format_url', 'type', 'generated_by', 'date', 'rows', 'columns', 'matrix_type',
                 'matrix_element_type', 'shape', 'data'}
    if set(doc) != want_keys:
        fails.append('top-level keys %s' % sorted(doc))
        return fails[:3]
    nr, nc = len(s['oids']), len(s['sids'])
    if [r.get('id') for r in doc['rows']] != list(s['oids']) or [r.get('id') for r in doc['columns']] != list(s['sids']):
        fails.append('IDs in the document differ from the table')
    want_data = [[i, j, fhex(float(v))] for i, row in enumerate(s['mat']) for j, v in enumerate(row) if float(v) != 0]
    if doc['data'] != want_data:
        fails.append('data entries differ from the non-zero cells (row-major): %s vs %s' % (doc['data'][:3], want_data[:3]))
    if doc['shape'] != [nr, nc]:
        fails.append('shape %s' % doc['shape'])
    homd, hsmd = held_md(s['omd']), held_md(s['smd'])
    for name, recs, h in (('rows', doc['rows'], homd), ('columns', doc['columns'], hsmd)):
        want = [None] * len(recs) if h is None else [tag(x) for x in h]
        if [r.get('metadata') for r in recs] != want:
            fails.append('%s metadata in the document differ' % name)
    if doc['type'] != s['type'] or doc['generated_by'] != c['generated_by'] or doc['id'] != str(c['table_id']):
        fails.append('type / generated_by / id differ: %r %r %r' % (doc['type'], doc['generated_by'], doc['id']))
    if doc['date'] != case_date(c).isoformat():
        fails.append('date %r' % doc['date'])
    if not obs['ddoc_same']:
        fails.append('direct_io stream is a different document from the returned string')
    want = {'oids': list(s['oids']), 'sids': list(s['sids']),
            'mat': [[fhex(float(v)) for v in row] for row in s['mat']],
            'omd': canon_md(homd), 'smd': canon_md(hsmd), 'type': s['type'], 'generated_by': c['generated_by'],
            'date': case_date(c).isoformat()}
    for name, got in [('Table.from_json(dict)', obs['read']), ('from_json(direct_io doc)', obs['dread'])] + \
            [(n, obs['read'] if r == 'same' else r) for n, r in obs['paths']]:
        if got != want:
            if isinstance(got, list):
                fails.append('%s raised %s' % (name, got))
            else:
                diff = [k for k in want if got.get(k) != want[k]]
                fails.append('%s: read-back table differs in %s' % (name, diff))
    return fails[:4]


def shrink(c):
    if c.get('kind') == 'numbers':
        return
    s = c['spec']
    nr, nc = len(s['oids']), len(s['sids'])

    def with_spec(**kw):
        d = dict(c)
        d['spec'] = dict(s, **kw)
        return d
    if s.get('layout') not in ([], ['dense']):
        yield with_spec(layout=['dense'])
    if nr > 1:
        for i in range(nr):
            yield with_spec(oids=s['oids'][:i] + s['oids'][i + 1:], mat=s['mat'][:i] + s['mat'][i + 1:],
                            omd=None if s['omd'] is None else s['omd'][:i] + s['omd'][i + 1:], layout=['dense'])
    if nc > 1:
        for j in range(nc):
            yield with_spec(sids=s['sids'][:j] + s['sids'][j + 1:], mat=[r[:j] + r[j + 1:] for r in s['mat']],
                            smd=None if s['smd'] is None else s['smd'][:j] + s['smd'][j + 1:], layout=['dense'])
    if s['omd'] is not None:
        yield with_spec(omd=None)
    if s['smd'] is not None:
        yield with_spec(smd=None)
    if c['raws']:
        yield dict(c, raws=[])
    if any(not i.isalnum() for i in s['oids'] + s['sids']):
        yield with_spec(oids=['o%d' % i for i in range(nr)], sids=['s%d' % i for i in range(nc)])
    if s['type'] is not None:
        yield with_spec(type=None)
    if c['generated_by'] != 'g':
        yield dict(c, generated_by='g')
    if c['table_id'] is not None:
        yield dict(c, table_id=None)
    for i in range(nr):
        for j in range(nc):
            if s['mat'][i][j] != 0:
                m = [list(r) for r in s['mat']]
                m[i][j] = 0.0
                yield with_spec(mat=m)


SIGNATURES = {}
