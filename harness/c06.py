"""C06: reordering, transposing, copying and renaming keep every value with its IDs."""
import itertools
import re

import numpy as np

from biom.util import natsort

from . import tables as T
from .core import canon

ID = 'C06'
RULE = ('tables from tables.rand_spec (every table replayed through a layout recipe: CSR/CSC, unsorted indices, stored zeros, '
        'histories via sort_order/transpose/copy) x {sort_order with EVERY permutation of each axis up to length 3 (quick) / 4 (thorough) '
        'and random permutations beyond, order given as list/tuple/array; orders that are not permutations (unknown id, repeated id, '
        'sub-list, empty); sort with natsort on natsort-tricky ids (a10/a2, mixed case, numeric strings, decimals, leading zeros) and '
        'with other sorting functions; sort on id sets that tie up to digit formatting (S1/S01, 1/1.0) and on ids of the shape letters-digits-dot-letters next to siblings (P1.stool / P1b / P1.5 / P1.) after EVERY prior permutation of '
        'the axis, judged against an independent natural-order reference; permutation then the original order; transpose, transpose twice; copy; update_ids with renamings '
        'that lengthen/shorten/swap ids, partial with strict=False (incl. study-wide maps with unknown keys, at least as many entries as '
        'ids and retained ids longer than every new name), the empty mapping, unknown keys, non-injective and strict-incomplete '
        'mappings (must raise), inplace and not; align_to x {sample, observation, both, detect, unknown axis} on pairs with equal id '
        'sets in different orders on both / one / no axis}; non-trivial = the operated axis has >= 2 ids and the request is not the '
        'identity; distinct by case hash')
TRUSTED = ['hand-written model coq/Model/Reorder.v (+ transpose_t of Model/Table.v) tied to biom/table.py by this correspondence run',
           'biom.util.natsort is exercised by the run only: the model receives the order it produced, the oracle recomputes a natural '
           'order independently']
from . import regen_eq as _regen_eq
# py2v_eq: regenerate coq/Gen/UpdateIdsGen.v (Table.update_ids) from the source first
_regenerate_update_ids = _regen_eq.hook(TRUSTED, ['update_ids'], 'coq/Model/Reorder.v (update_ids)',
                                        'coq/Proofs/GenBridgeUpdateIdsProofs.v', 'coq/Gen/UpdPrelude.v')
from . import regen_ord as _regen_ord
# py2v_ord: then regenerate coq/Gen/ReorderGen.v (Table.sort_order / sort / copy / transpose / align_to); both run on every check
regenerate = _regen_ord.hook(TRUSTED, before=_regenerate_update_ids)
ASSUMPTIONS = ['default error profile (duplicate ids raise)',
               'metadata None and {} of an id are the same thing for the oracle (the constructor normalises; the model follows it exactly)']

AX = {'observation': 0, 'sample': 1}
MODES = {'observation': 0, 'sample': 1, 'both': 2, 'detect': 3, 'foo': 4}
SORTF = {
    'natsort': natsort,
    'reverse': lambda ids: sorted(ids, reverse=True),
    'plain': lambda ids: sorted(ids),
    'bylen': lambda ids: sorted(ids, key=lambda s: (len(s), s)),
}
TRICKY = [['P1.stool', 'P1b', 'P1.5', 'P1.', 'P1.x2', 'P2'], ['a10', 'a2', 'a1', 'A3', 'b', 'B1'], ['10', '2', '1', '01', '100'], ['s10', 's9', 's1', 'S10', 's01'],
          ['x1.5', 'x1.10', 'x1.9', 'x2'], ['a', 'B', 'c', 'D'], ['1a', '1b', '10a', '2a', 'a1b2', 'a1b10'],
          ['é2', 'é10', 'e3'], ['', '0', 'a']]


# id sets whose natural-order chunks tie (digit formatting only): ties are broken by the text
TIES = [['S1', 'S01', 'S10', 'S2'], ['1.0', '1', '2'], ['a01b', 'a1b', 'a1b2'], ['007', '7', '07', '70'],
        ['x1.50', 'x1.5', 'x01.5'], ['s2', 's02', 's002'], ['1', '01'], ['b1', 'B1', 'b01']]


# a number is digits with an optional decimal part; a dot that is NOT followed by a digit belongs to the text that follows
DOTS = [['P1.stool', 'P1b', 'P1.5', 'P1.'], ['P1.x2', 'P1.stool', 'P1x', 'P10'], ['a2.', 'a2.x', 'a2x', 'a2'],
        ['7.', '7', '7.a', '7a'], ['s3.gut', 's3_gut', 's3gut', 's3.1gut']]


# ---------------------------------------------------------------- implementation
def _seq(kind, ids):
    if kind == 'tuple':
        return tuple(ids)
    if kind == 'array':
        return np.array(list(ids), dtype=object) if not ids else np.array(list(ids))
    return list(ids)


def _byid_mismatch(t, s):
    """the by-id accessors (get_value_by_ids, data, metadata(id), index) must agree with the positional content"""
    for ax, key, mk in (('observation', 'oids', 'omd'), ('sample', 'sids', 'smd')):
        for k, i in enumerate(s[key]):
            if not t.exists(i, axis=ax) or t.index(i, axis=ax) != k:
                return 'index of %s %r' % (ax, i)
            m = t.metadata(i, axis=ax)
            if (None if m is None else T.plain(dict(m))) != (None if s[mk] is None else s[mk][k]):
                return 'metadata(%r, %s)' % (i, ax)
    for i, o in enumerate(s['oids']):
        for j, x in enumerate(s['sids']):
            if float(t.get_value_by_ids(o, x)) != s['mat'][i][j]:
                return 'get_value_by_ids(%r, %r)' % (o, x)
        if s['sids'] and [float(v) for v in t.data(o, axis='observation', dense=True)] != s['mat'][i]:
            return 'data(%r)' % o
    return None


def _ok(t):
    s = T.norm_snap(T.snapshot(t))
    bad = _byid_mismatch(t, s)
    if bad:
        return ['incoherent', bad]
    return ['ok', s]


def run_impl(c):
    try:
        return _run_impl(c)
    except Exception as e:  # pragma: no cover - harness bug
        return ['crash', type(e).__name__, str(e)[:200]]


def apply_pre(t, pre):
    """a prior history that used to leave metadata as a tuple of all-empty dicts (F40, repaired 16e406b1):
    the content it denotes is that of the spec (no metadata on the sample axis)"""
    if pre == 'add_empty_md':
        t.add_metadata({str(t.ids()[-1]): {}}, axis='sample')
    elif pre == 'sibling_renamed':
        for ax, other in (('observation', 'sample'), ('sample', 'observation')):
            ids = [str(i) for i in t.ids(axis=ax)]
            sub = t.filter([str(i) for i in t.ids(axis=other)][:1], axis=other, inplace=False)
            if len(ids) >= 2:
                sub.update_ids(dict(zip(ids, ids[1:] + ids[:1])), axis=ax, inplace=True)       # a rotation of existing labels
            sub.update_ids({i: 'sib_' + i for i in ids}, axis=ax, inplace=True)               # then fresh labels
            del sub
    elif pre == 'object_ids':
        # ids held as object-dtype arrays of str (what a pandas Index or an object array hands the constructor; copy,
        # transpose and sort_order keep the dtype): the same content
        from biom import Table
        t = Table(t.matrix_data, np.array([str(i) for i in t.ids(axis='observation')], dtype=object),
                  np.array([str(i) for i in t.ids()], dtype=object), t.metadata(axis='observation'), t.metadata(), type=t.type)
    elif pre == 'filter_to_empty_md':
        # the spec's last sample carries the only non-empty metadata and is filtered away in place
        t.filter(list(t.ids())[:-1], axis='sample', inplace=True)
    return t


def _pre_spec(c):
    """the spec of the table the operation under test really works on"""
    s = c['spec']
    if c.get('pre') == 'filter_to_empty_md':
        return dict(s, sids=s['sids'][:-1], mat=[row[:-1] for row in s['mat']], smd=None if s['smd'] is None else s['smd'][:-1])
    return s


def _run_impl(c):
    t = apply_pre(T.build(c['spec']), c.get('pre'))
    c = dict(c, spec=_pre_spec(c))
    k = c['kind']
    try:
        if k == 'sort_order':
            return _ok(t.sort_order(_seq(c.get('otype', 'list'), c['order']), axis=c['axis']))
        if k == 'sort':
            return _ok(t.sort(sort_f=SORTF[c['sortf']], axis=c['axis']))
        if k == 'sort_after':
            return _ok(t.sort_order(list(c['order']), axis=c['axis']).sort(sort_f=SORTF[c['sortf']], axis=c['axis']))
        if k == 'perm_inverse':
            orig = [str(i) for i in t.ids(axis=c['axis'])]
            return _ok(t.sort_order(list(c['order']), axis=c['axis']).sort_order(orig, axis=c['axis']))
        if k == 'align_to':
            return _ok(t.align_to(T.build(c['other']), axis=c['mode']))
        if k == 'transpose':
            return _ok(t.transpose())
        if k == 'transpose2':
            return _ok(t.transpose().transpose())
        if k == 'copy':
            return _ok(t.copy())
        if k == 'update_ids':
            before = T.norm_snap(T.snapshot(t))
            try:
                r = t.update_ids(dict((a, b) for a, b in c['id_map']), axis=c['axis'], strict=c['strict'], inplace=c['inplace'])
            except Exception as e:
                return ['err', T.err_code(e), T.norm_snap(T.snapshot(t)) == before]
            if c['inplace'] and r is not t:
                return ['crash', 'inplace update_ids did not return the receiver']
            return _ok(r)
    except Exception as e:
        return ['err', T.err_code(e)]
    raise ValueError(k)


# ---------------------------------------------------------------- model wire
def _coder(c):
    u = T.spec_universe(c['spec'])
    if 'other' in c:
        u += T.spec_universe(c['other'])
    u += list(c.get('order', []))
    for a, b in c.get('id_map', []):
        u += [a, b]
    return T.Coder(u)


def encode(c):
    c = dict(c, spec=_pre_spec(c))
    cd = _coder(c)
    tb = cd.table(T.spec_content(c['spec']))
    k = c['kind']
    if k == 'sort_order':
        return [0, tb, [cd.id(i) for i in c['order']], AX[c['axis']]]
    if k == 'sort':
        ids = c['spec']['oids'] if c['axis'] == 'observation' else c['spec']['sids']
        return [1, tb, [cd.id(str(i)) for i in SORTF[c['sortf']](list(ids))], AX[c['axis']]]
    if k == 'perm_inverse':
        return [7, tb, [cd.id(i) for i in c['order']], AX[c['axis']]]
    if k == 'sort_after':
        # the sorting function sees the ids in the order the prior history left them in
        return [8, tb, [cd.id(i) for i in c['order']], AX[c['axis']],
                [cd.id(str(i)) for i in SORTF[c['sortf']](list(c['order']))]]
    if k == 'align_to':
        return [2, tb, cd.table(T.spec_content(c['other'])), MODES[c['mode']]]
    if k == 'transpose':
        return [3, tb]
    if k == 'transpose2':
        return [4, tb]
    if k == 'copy':
        return [5, tb]
    if k == 'update_ids':
        return [6, tb, [[cd.id(a), cd.id(b)] for a, b in c['id_map']], AX[c['axis']], int(c['strict']), int(c['inplace'])]
    raise ValueError(k)


def decode(tree, c):
    c = dict(c, spec=_pre_spec(c))
    cd = _coder(c)
    if tree[0] == -1:
        return ['err', tree[1], True] if c['kind'] == 'update_ids' else ['err', tree[1]]
    s = cd.untable(tree[1])
    for k in ('omd', 'smd'):          # metadata of an axis without ids is None (constructor)
        if s[k] == []:
            s[k] = None
    return ['ok', T.norm_snap(s)]


# ---------------------------------------------------------------- oracle (from the property text, on dense references)
def _by_id(s):
    """content keyed by ids: {(o, s): value}, {o: md}, {s: md}"""
    cells = {}
    for i, o in enumerate(s['oids']):
        for j, x in enumerate(s['sids']):
            cells[(o, x)] = s['mat'][i][j] if s['mat'] and s['mat'][i] else 0
    # "no metadata" and "empty metadata" are the same thing for an id (the constructor turns an axis whose
    # entries are all empty into None)
    omd = {o: ({} if s['omd'] is None else (s['omd'][i] or {})) for i, o in enumerate(s['oids'])}
    smd = {x: ({} if s['smd'] is None else (s['smd'][j] or {})) for j, x in enumerate(s['sids'])}
    return cells, omd, smd


def _relabel_check(orig, res, fo, fs, what):
    """every (o, s) value and every id's metadata of [orig] is found in [res] under the renamings fo / fs,
    and [res] has no other id"""
    fails = []
    co, oo, so = _by_id(orig)
    cr, orr, sr = _by_id(res)
    if len(set(res['oids'])) != len(res['oids']) or len(set(res['sids'])) != len(res['sids']):
        fails.append('%s: duplicated id in the result' % what)
    if sorted(fo(o) for o in orig['oids']) != sorted(res['oids']) or sorted(fs(x) for x in orig['sids']) != sorted(res['sids']):
        fails.append('%s: ids gained or lost: %s x %s -> %s x %s' % (what, orig['oids'], orig['sids'], res['oids'], res['sids']))
        return fails
    for (o, x), v in co.items():
        if cr.get((fo(o), fs(x))) != v:
            fails.append('%s: value of (%r, %r) was %r, is %r' % (what, o, x, v, cr.get((fo(o), fs(x)))))
            break
    for o, m in oo.items():
        if orr.get(fo(o)) != m:
            fails.append('%s: metadata of observation %r was %r, is %r' % (what, o, m, orr.get(fo(o))))
            break
    for x, m in so.items():
        if sr.get(fs(x)) != m:
            fails.append('%s: metadata of sample %r was %r, is %r' % (what, x, m, sr.get(fs(x))))
            break
    return fails


def _nat_key(s):
    """independent natural-order key: maximal digit runs (with an optional decimal part) compare as numbers and
    before text; ties by the string itself"""
    out, i, n = [], 0, len(s)
    text = ''
    while i < n:
        if s[i] in '0123456789':
            j = i
            while j < n and s[j] in '0123456789':
                j += 1
            num = s[i:j]
            if j + 1 < n and s[j] == '.' and s[j + 1] in '0123456789':
                k = j + 1
                while k < n and s[k] in '0123456789':
                    k += 1
                num = s[i:k]
                j = k
            out.append((1, text))
            out.append((0, float(num) if '.' in num else int(num)))
            text = ''
            i = j
        else:
            text += s[i]
            i += 1
    out.append((1, text))
    return (out, s)


def _ident(x):
    return x


def oracle(c, obs):
    if obs and obs[0] == 'crash':
        return ['implementation crashed: %s' % obs[1:]]
    if obs and obs[0] == 'incoherent':
        return ['the result answers by id differently than by position: %s' % obs[1]]
    c = dict(c, spec=_pre_spec(c))
    k = c['kind']
    orig = canon(T.norm_snap(T.spec_content(c['spec'])))
    ax = c.get('axis')
    ids = None if ax is None else (orig['oids'] if ax == 'observation' else orig['sids'])
    key = 'oids' if ax == 'observation' else 'sids'
    okey = 'sids' if ax == 'observation' else 'oids'
    fails = []
    if k in ('sort_order', 'sort', 'perm_inverse', 'sort_after'):
        if k == 'sort_after' and sorted(c['order']) != sorted(ids):
            return [] if obs[0] == 'err' else ['sort_after: prior order is not a permutation but was accepted']
        if k in ('sort', 'sort_after'):
            # the natural order is a total order: it depends on the id SET only, not on the order a history left behind
            want = sorted(ids, key=_nat_key) if c['sortf'] == 'natsort' else [str(i) for i in SORTF[c['sortf']](list(ids))]
        elif k == 'perm_inverse':
            want = list(ids)
        else:
            want = list(c['order'])
        unknown = [i for i in want if i not in ids]
        if unknown or len(set(want)) != len(want):
            if obs[0] != 'err':
                fails.append('order %r with an unknown or repeated id was accepted' % (want,))
            return fails
        if sorted(want) != sorted(ids):
            # a selection: nothing is promised by the property beyond "no value moves"; the kept ids keep their data
            if obs[0] == 'ok':
                res = obs[1]
                sub = dict(orig)
                keep = [ids.index(i) for i in want]
                if ax == 'observation':
                    sub.update(oids=want, mat=[orig['mat'][i] for i in keep] if orig['sids'] else [[] for _ in keep],
                               omd=None if orig['omd'] is None or not keep else [orig['omd'][i] for i in keep])
                else:
                    sub.update(sids=want, mat=[[r[j] for j in keep] for r in orig['mat']] if keep else [[] for _ in orig['oids']],
                               smd=None if orig['smd'] is None or not keep else [orig['smd'][j] for j in keep])
                fails += _relabel_check(canon(sub), res, _ident, _ident, 'sort_order(selection)')
            return fails
        if obs[0] != 'ok':
            return ['%s with a permutation of the axis was refused: %s' % (k, obs)]
        res = obs[1]
        if res[key] != want:
            fails.append('%s: resulting order %r is not the requested %r' % (k, res[key], want))
        if res[okey] != orig[okey]:
            fails.append('%s: the other axis changed order: %r' % (k, res[okey]))
        fails += _relabel_check(orig, res, _ident, _ident, k)
        if k == 'perm_inverse' and {x: res[x] for x in ('oids', 'sids', 'mat', 'omd', 'smd')} != {x: orig[x] for x in ('oids', 'sids', 'mat', 'omd', 'smd')}:
            fails.append('permutation then its inverse did not restore the table')
        return fails
    if k in ('transpose', 'transpose2', 'copy'):
        if obs[0] != 'ok':
            return ['%s raised: %s' % (k, obs)]
        res = obs[1]
        if k == 'transpose':
            flipped = {'oids': res['sids'], 'sids': res['oids'], 'omd': res['smd'], 'smd': res['omd'],
                       'mat': [[res['mat'][j][i] for j in range(len(res['oids']))] for i in range(len(res['sids']))] if res['oids'] and res['sids'] else [[] for _ in res['sids']],
                       'type': None}
            if flipped['oids'] != orig['oids'] or flipped['sids'] != orig['sids']:
                fails.append('transpose: ids/order not swapped: %r x %r' % (res['oids'], res['sids']))
            fails += _relabel_check(orig, canon(T.norm_snap(flipped)), _ident, _ident, 'transpose')
        else:
            for x in ('oids', 'sids', 'mat', 'omd', 'smd') + (('type',) if k == 'copy' else ()):
                if res[x] != orig[x]:
                    fails.append('%s did not restore %s: %r != %r' % (k, x, res[x], orig[x]))
        return fails
    if k == 'update_ids':
        m = dict((a, b) for a, b in c['id_map'])
        missing = [i for i in ids if i not in m]
        new = [m.get(i, i) for i in ids]
        if (c['strict'] and missing) or len(set(new)) != len(new):
            if obs[0] != 'err' or obs[1] != 1:
                fails.append('update_ids %r strict=%s on %r must raise TableException, got %s' % (m, c['strict'], ids, obs[:2]))
            elif not obs[2]:
                fails.append('refused update_ids left the receiver changed')
            return fails
        if obs[0] != 'ok':
            return ['injective update_ids %r on %r was refused: %s' % (m, ids, obs)]
        res = obs[1]
        if res[key] != new:
            fails.append('update_ids: ids are %r, expected %r (order / truncation)' % (res[key], new))
        if res[okey] != orig[okey]:
            fails.append('update_ids: the other axis changed')
        f = lambda i: m.get(i, i)   # noqa: E731
        fails += _relabel_check(orig, res, f if ax == 'observation' else _ident, f if ax == 'sample' else _ident, 'update_ids')
        return fails
    if k == 'align_to':
        oth = canon(T.norm_snap(T.spec_content(c['other'])))
        al_o = set(orig['oids']) == set(oth['oids'])
        al_s = set(orig['sids']) == set(oth['sids'])
        mode = c['mode']
        okay = {'sample': al_s, 'observation': al_o, 'both': al_o and al_s, 'detect': al_o or al_s, 'foo': False}[mode]
        if not okay:
            if obs[0] != 'err':
                fails.append('align_to(%s) on non-alignable tables was accepted' % mode)
            return fails
        if obs[0] != 'ok':
            return ['align_to(%s) on alignable tables was refused: %s' % (mode, obs)]
        res = obs[1]
        do_o = mode in ('observation', 'both') or (mode == 'detect' and al_o)
        do_s = mode in ('sample', 'both') or (mode == 'detect' and al_s)
        if res['oids'] != (oth['oids'] if do_o else orig['oids']):
            fails.append('align_to(%s): observation order %r' % (mode, res['oids']))
        if res['sids'] != (oth['sids'] if do_s else orig['sids']):
            fails.append('align_to(%s): sample order %r' % (mode, res['sids']))
        fails += _relabel_check(orig, res, _ident, _ident, 'align_to')
        return fails
    raise ValueError(k)


# ---------------------------------------------------------------- generation
def _spec(rng, max_r=3, max_c=3, **kw):
    return T.rand_spec(rng, max_r=max_r, max_c=max_c, values=rng.choice(['counts', 'small', 'signed', 'dyadic']),
                       md=rng.choice(['none', 'group', 'text', 'tax', 'num', 'obs', 'samp']), **kw)


def _tricky_spec(rng):
    s = _spec(rng, max_r=4, max_c=4, alphabet='short')
    for key, n in (('oids', len(s['oids'])), ('sids', len(s['sids']))):
        pool = list(rng.choice(TRICKY))
        rng.shuffle(pool)
        if len(pool) >= n:
            s[key] = pool[:n]
    s['layout'] = [s['layout'][0]] + [x for x in s['layout'][1:] if not isinstance(x, list)]
    return s


def _renaming(rng, ids, others):
    """-> (kind, id_map pairs, strict)"""
    kind = rng.choice(['lengthen', 'shorten', 'swap', 'partial', 'empty', 'unknown_keys', 'noninjective', 'collide_unmapped',
                       'strict_missing', 'exotic', 'to_other_axis_name', 'studywide', 'studywide', 'partial_short'])
    n = len(ids)
    if kind == 'lengthen':
        return kind, [[i, i + '_' + 'L' * rng.randint(5, 40)] for i in ids], True
    if kind == 'shorten':
        return kind, [[i, chr(97 + k)] for k, i in enumerate(ids)], rng.random() < 0.7
    if kind == 'swap':
        p = list(ids)
        rng.shuffle(p)
        return kind, [[a, b] for a, b in zip(ids, p)], True
    if kind == 'partial':
        sub = [i for i in ids if rng.random() < 0.5]
        return kind, [[i, 'new_' + i + 'x' * rng.randint(0, 12)] for i in sub], False
    if kind == 'empty':
        return kind, [], False
    if kind == 'studywide':
        # a map made for a whole study: at least as many entries as the axis has ids, some for ids that are not in
        # the table, new names shorter than an id that is NOT mapped and has to be retained as it is
        sub = [i for i in ids[:-1] if rng.random() < 0.6]
        pairs = [[i, chr(65 + k)] for k, i in enumerate(sub)]
        ghosts = rng.randint(max(0, n - len(sub)), n + 2)
        pairs += [['ghost_%d' % g, chr(97 + g)] for g in range(ghosts)]
        rng.shuffle(pairs)
        return kind, pairs, False
    if kind == 'partial_short':
        sub = [i for i in ids if rng.random() < 0.5]
        return kind, [[i, chr(65 + k)] for k, i in enumerate(sub)], False
    if kind == 'unknown_keys':
        return kind, [[i, i + '.r'] for i in ids] + [['ghost', 'g2'], ['zz', ids[0]]], rng.random() < 0.5
    if kind == 'noninjective':
        if n < 2:
            return 'lengthen', [[i, i + '_long'] for i in ids], True
        a, b = rng.sample(ids, 2)
        return kind, [[i, 'same' if i in (a, b) else i + '_'] for i in ids], rng.random() < 0.5
    if kind == 'collide_unmapped':
        if n < 2:
            return 'empty', [], False
        a, b = rng.sample(ids, 2)
        return kind, [[a, b]], False
    if kind == 'strict_missing':
        return kind, [[i, i + '_s'] for i in ids[:-1]], True
    if kind == 'exotic':
        return kind, [[i, rng.choice(['ü', '样', 'a b', "q'"]) + str(k)] for k, i in enumerate(ids)], True
    return kind, [[i, others[k % len(others)] if others else i] for k, i in enumerate(ids)][:max(1, n)], False


def _other_for(rng, spec, how):
    """another table whose id sets relate to spec's as [how] says"""
    o = _spec(rng, max_r=4, max_c=4)
    oids, sids = list(spec['oids']), list(spec['sids'])
    rng.shuffle(oids)
    rng.shuffle(sids)
    if how in ('samp', 'none'):
        oids = rng.choice([oids[:-1], oids + ['extra_o'], ['other_%d' % i for i in range(len(oids))], oids[:-1] + ['repl_o']])
    if how in ('obs', 'none'):
        sids = rng.choice([sids[:-1], sids + ['extra_s'], ['other_%d' % i for i in range(len(sids))], sids[:-1] + ['repl_s']])
    if not oids or not sids:
        oids, sids = oids or ['only_o'], sids or ['only_s']
    r, k = len(oids), len(sids)
    o.update(oids=oids, sids=sids, mat=[[float((i * 3 + j) % 4) for j in range(k)] for i in range(r)],
             omd=None if o['omd'] is None else [{'g': 'g%d' % i} for i in range(r)],
             smd=None if o['smd'] is None else [{'g': 'h%d' % j} for j in range(k)])
    o['layout'] = [o['layout'][0]] + [x for x in o['layout'][1:] if not isinstance(x, list)]
    return o


def _ids(spec, axis):
    return spec['oids'] if axis == 'observation' else spec['sids']


def gen(rng, tier):
    # history through a SIBLING table: every 7th ordering case first derives another table from the receiver
    # (filter, not in place), renames that table's ids on the axis about to be ordered, in place, and drops it;
    # the receiver is not touched by any of this (two tables must never share an id lookup)
    for n_, c in enumerate(_gen(rng, tier)):
        if n_ % 7 == 3 and 'pre' not in c and c['kind'] in ('sort_order', 'sort', 'perm_inverse', 'align_to', 'sort_after'):
            c = dict(c, pre='sibling_renamed')
        yield c


def _gen(rng, tier):
    quick = tier == 'quick'
    maxlen = 3 if quick else 4
    # 1. every permutation of each axis of small random tables
    for _ in range(45 if quick else 130):
        spec = _spec(rng, max_r=maxlen, max_c=maxlen)
        for axis in ('observation', 'sample'):
            ids = _ids(spec, axis)
            for p in itertools.permutations(ids):
                yield {'kind': 'sort_order', 'spec': spec, 'axis': axis, 'order': list(p), 'otype': rng.choice(['list', 'list', 'tuple', 'array'])}
            if len(ids) >= 2:
                p = list(ids)
                rng.shuffle(p)
                yield {'kind': 'perm_inverse', 'spec': spec, 'axis': axis, 'order': p}
    n = 1 if quick else 10
    # 2. random permutations of longer axes, orders that are not permutations
    for _ in range(80 * n):
        spec = _spec(rng, max_r=7, max_c=7)
        axis = rng.choice(['observation', 'sample'])
        ids = list(_ids(spec, axis))
        r = rng.random()
        p = list(ids)
        rng.shuffle(p)
        if r < 0.55:
            yield {'kind': 'sort_order', 'spec': spec, 'axis': axis, 'order': p, 'otype': rng.choice(['list', 'tuple', 'array'])}
        elif r < 0.7:
            yield {'kind': 'perm_inverse', 'spec': spec, 'axis': axis, 'order': p}
        elif r < 0.8:
            yield {'kind': 'sort_order', 'spec': spec, 'axis': axis, 'order': p[:rng.randint(0, len(p))], 'otype': 'list'}
        elif r < 0.9:
            yield {'kind': 'sort_order', 'spec': spec, 'axis': axis, 'order': p + [rng.choice(p)], 'otype': 'list'}
        else:
            q = p + ['nope']
            rng.shuffle(q)
            yield {'kind': 'sort_order', 'spec': spec, 'axis': axis, 'order': q, 'otype': 'list'}
    # 2b. partly empty metadata (entries {} / None next to real ones) x sub-list orders, permutations, renamings,
    #     transpose, copy, align_to: a selection that keeps only ids with empty metadata ends up without metadata
    for _ in range(70 * n):
        spec = _spec(rng, max_r=4, max_c=4)
        for key, ids in (('omd', spec['oids']), ('smd', spec['sids'])):
            if rng.random() < 0.8:
                full = spec[key] or [{'g': 'g%d' % k} for k in range(len(ids))]
                spec[key] = [rng.choice([{}, None, m, m]) for m in full]
                if all(not m for m in spec[key]) and rng.random() < 0.5:
                    spec[key][0] = full[0]
        axis = rng.choice(['observation', 'sample'])
        ids = list(_ids(spec, axis))
        md = spec['omd'] if axis == 'observation' else spec['smd']
        empties = [i for k, i in enumerate(ids) if md is not None and not md[k]]
        r = rng.random()
        if r < 0.35 and empties:
            sub = list(empties)
            rng.shuffle(sub)
            yield {'kind': 'sort_order', 'spec': spec, 'axis': axis, 'order': sub[:rng.randint(1, len(sub))], 'otype': 'list'}
        elif r < 0.55:
            p = list(ids)
            rng.shuffle(p)
            yield {'kind': 'sort_order', 'spec': spec, 'axis': axis, 'order': p[:rng.randint(0, len(p))], 'otype': 'list'}
        elif r < 0.7:
            p = list(ids)
            rng.shuffle(p)
            yield {'kind': rng.choice(['sort_order', 'perm_inverse']), 'spec': spec, 'axis': axis, 'order': p, 'otype': 'list'}
        elif r < 0.8:
            yield {'kind': rng.choice(['transpose', 'transpose2', 'copy']), 'spec': spec}
        elif r < 0.9:
            kind, pairs, strict = _renaming(rng, ids, list(_ids(spec, 'sample' if axis == 'observation' else 'observation')))
            yield {'kind': 'update_ids', 'spec': spec, 'axis': axis, 'id_map': pairs, 'strict': strict,
                   'inplace': rng.random() < 0.5, 'rkind': kind}
        else:
            yield {'kind': 'align_to', 'spec': spec, 'other': _other_for(rng, spec, 'both'), 'mode': rng.choice(['both', 'detect']), 'how': 'both'}
    # 3. sort
    for _ in range(120 * n):
        spec = _tricky_spec(rng) if rng.random() < 0.7 else _spec(rng, max_r=5, max_c=5)
        yield {'kind': 'sort', 'spec': spec, 'axis': rng.choice(['observation', 'sample']),
               'sortf': rng.choice(['natsort', 'natsort', 'natsort', 'reverse', 'plain', 'bylen'])}
    # 3b. natural order on ids that differ in digit formatting only, after EVERY prior permutation of the axis
    for ties in (TIES + DOTS if not quick else rng.sample(TIES, 5) + [TIES[0]] + rng.sample(DOTS, 3) + [DOTS[0]]):
        for axis in ('observation', 'sample'):
            spec = _spec(rng, max_r=3, max_c=3, alphabet='short')
            nt = len(ties)
            if axis == 'observation':
                k = len(spec['sids'])
                spec.update(oids=list(ties), mat=[[float((3 * i + j) % 5) for j in range(k)] for i in range(nt)],
                            omd=None if spec['omd'] is None else [{'n': x} for x in ties])
            else:
                r = len(spec['oids'])
                spec.update(sids=list(ties), mat=[[float((3 * i + j) % 5) for j in range(nt)] for i in range(r)],
                            smd=None if spec['smd'] is None else [{'n': x} for x in ties])
            spec['layout'] = [rng.choice(T.INITIAL)] + [rng.choice(['colaccess', 'rowaccess', 'transpose2', 'copy'])]
            yield {'kind': 'sort', 'spec': spec, 'axis': axis, 'sortf': 'natsort'}
            for p in itertools.permutations(ties):
                yield {'kind': 'sort_after', 'spec': spec, 'axis': axis, 'order': list(p), 'sortf': 'natsort'}
    # 4. transpose / copy
    for _ in range(90 * n):
        yield {'kind': rng.choice(['transpose', 'transpose2', 'copy']), 'spec': _spec(rng, max_r=5, max_c=5)}
    # 5. update_ids
    for _ in range(260 * n):
        spec = _spec(rng, max_r=5, max_c=5)
        axis = rng.choice(['observation', 'sample'])
        kind, pairs, strict = _renaming(rng, list(_ids(spec, axis)), list(_ids(spec, 'sample' if axis == 'observation' else 'observation')))
        c_ = {'kind': 'update_ids', 'spec': spec, 'axis': axis, 'id_map': pairs, 'strict': strict,
              'inplace': rng.random() < 0.5, 'rkind': kind}
        if rng.random() < 0.3:
            c_['pre'] = 'object_ids'
        yield c_
    # 5b. partial renamings to SHORT new ids on tables whose ids are held as object arrays and as str arrays
    for pre in ('object_ids', None):
        for axis in ('observation', 'sample'):
            for inplace in (False, True):
                spec = {'oids': ['Bacteroides', 'Prevotella', 'Roseburia', 'Blautia'], 'sids': ['gut_sample_1', 'skin_sample_22', 'oral_3'],
                        'mat': [[1.0, 0.0, 2.0], [0.0, 3.0, 0.0], [4.0, 5.0, 0.0], [0.0, 0.0, 6.0]], 'omd': None, 'smd': None,
                        'type': None, 'layout': ['csr']}
                ids_ = spec['oids'] if axis == 'observation' else spec['sids']
                c_ = {'kind': 'update_ids', 'spec': spec, 'axis': axis, 'id_map': [[ids_[0], 'B1'], [ids_[-1], 'B2']], 'strict': False,
                      'inplace': inplace, 'rkind': 'partial_short'}
                if pre:
                    c_['pre'] = pre
                yield c_
    # 6. align_to
    for _ in range(45 * n):
        spec = _spec(rng, max_r=4, max_c=4)
        how = rng.choice(['both', 'both', 'samp', 'obs', 'none'])
        oth = _other_for(rng, spec, how)
        for mode in ('sample', 'observation', 'both', 'detect', 'foo'):
            yield {'kind': 'align_to', 'spec': spec, 'other': oth, 'mode': mode, 'how': how}


def nontrivial(c):
    k = c['kind']
    s = c['spec']
    if k in ('sort_order', 'perm_inverse', 'sort_after'):
        ids = _ids(s, c['axis'])
        return len(ids) >= 2 and list(c['order']) != list(ids)
    if k == 'sort':
        ids = list(_ids(s, c['axis']))
        return len(ids) >= 2 and [str(i) for i in SORTF[c['sortf']](ids)] != ids
    if k == 'update_ids':
        return len(_ids(s, c['axis'])) >= 2 and bool(c['id_map'])
    if k == 'align_to':
        return len(s['oids']) + len(s['sids']) >= 3 and (s['oids'] != c['other']['oids'] or s['sids'] != c['other']['sids'])
    return len(s['oids']) >= 2 and len(s['sids']) >= 2


def classify(c):
    tags = ['kind:' + c['kind'], 'layout0:' + str(c['spec']['layout'][0] if c['spec']['layout'] else 'dense')]
    try:
        tags.append('repr:' + T.layout_info(T.build(c['spec'])))
    except Exception:
        tags.append('repr:unbuildable')
    if c['kind'] == 'sort_order':
        ids = _ids(c['spec'], c['axis'])
        tags.append('perm-len:%d' % len(ids) if sorted(c['order']) == sorted(ids) else 'not-a-permutation')
        tags.append('otype:' + c.get('otype', 'list'))
    if c['kind'] in ('sort', 'sort_after'):
        tags.append('sortf:' + c['sortf'])
        ids = _ids(c['spec'], c['axis'])
        if len({str(_nat_key(i)[0]) for i in ids}) < len(ids):
            tags.append('natural-order-tie')
    if c['kind'] == 'update_ids':
        tags.append('renaming:%s/strict=%s/inplace=%s' % (c.get('rkind', '?'), c['strict'], c['inplace']))
    if c['kind'] == 'align_to':
        tags.append('align:%s/%s' % (c['mode'], c.get('how', '?')))
    tags.append('md:%s%s' % ('o' if c['spec'].get('omd') else '-', 's' if c['spec'].get('smd') else '-'))
    if any(m is not None and any(not x for x in m) for m in (c['spec'].get('omd'), c['spec'].get('smd'))):
        tags.append('md-partly-empty')
    return tags


def shrink(c):
    s = c['spec']
    if s['layout'] and len(s['layout']) > 1:
        yield dict(c, spec=dict(s, layout=s['layout'][:-1]))
    if s['layout'] and s['layout'] != ['csr']:
        yield dict(c, spec=dict(s, layout=['csr']))
    if s.get('omd') or s.get('smd'):
        yield dict(c, spec=dict(s, omd=None, smd=None))
    if s.get('type'):
        yield dict(c, spec=dict(s, type=None))
    if c['kind'] in ('transpose', 'transpose2', 'copy'):
        r, k = len(s['oids']), len(s['sids'])
        if r > 1:
            yield dict(c, spec=dict(s, oids=s['oids'][:-1], mat=s['mat'][:-1], omd=None if s['omd'] is None else s['omd'][:-1], layout=['csr']))
        if k > 1:
            yield dict(c, spec=dict(s, sids=s['sids'][:-1], mat=[row[:-1] for row in s['mat']],
                                    smd=None if s['smd'] is None else s['smd'][:-1], layout=['csr']))


SIGNATURES = {}
