"""C11: partition is an exact split; collapse conserves what it aggregates.
A case is one table spec, an axis, an operation (partition | collapse | one-to-many collapse), a
labelling from a finite family and the flags.  The labelling function is user code: the harness
evaluates it and hands the labels to the model (coq/Model/Partition.v); the dict forms are
interpreted by the model itself."""
import copy
import math
import zlib
from fractions import Fraction

import numpy as np

from . import tables as T

ID = 'C11'
RULE = ('one table 1..5 x 1..5 (values counts/small/signed/dyadic/big, every metadata kind, layout recipe; a quarter with '
        'falsy-looking ids 0, blank, False, None), both axes; '
        'partition: labelling by id hash (mod 1..4), by metadata value (entries may lack the key -> None), constant, '
        'falsy labels that are not None (0, False, 0.0, empty text, empty list) with ignore_none on and off, '
        'injective, list-valued, None for a residue class, labels equal as dict keys (1 / 1.0), dict id->label '
        '(incomplete, unknown ids), dict label->ids as list or tuple (overlapping groups, None key), rejected dicts; '
        'flags ignore_none x remove_empty; collapse one-to-one: the text-valued labellings, dict forms and metadata '
        'labellings, tables that already carry collapsed_ids metadata (written by hand, or by a first collapse: collapse '
        'of a collapsed table, first level with and without metadata, same and other axis), '
        'labellings that leave some ids without a label (None is a label like any other there), '
        'norm on/off, min_group_size 0..3, include_collapsed_metadata on/off, bad one_to_many_mode, plus a deterministic '
        'block of 80 collapses (6 x 6 table, both axes) with a too-small group before / after a larger kept one; one-to-many: '
        'generators yielding 0..3 (pathway, group) pairs per vector (duplicates, shared groups, short pathways '
        'raising IndexError), by metadata or by id, add/divide, strict on/off, md key, axes with and without metadata; '
        'non-trivial = a labelling with at least two labels or a group of at least two vectors; distinct by case hash')
TRUSTED = ['hand-written model coq/Model/Partition.v tied to biom/table.py:2401-2844 by this correspondence run',
           'remove_empty is the model of C08 (coq/Model/Filter.v remove_empty_whole)',
           'harness.tables.Coder: id codes respect python string order (sorted() of one-to-many groups = sort by code)',
           'extraction (ExtrOcamlBasic only) + ocaml/driver_tail.ml, cross-checked against vm_compute on a sample']
ASSUMPTIONS = ['the labelling function is deterministic and is evaluated by the harness on the same (id, metadata) pairs',
               'collapsed labels are text or None (a label becomes an id; the id None is rendered as the text None by the snapshot, '
               'no generated label is that text); list-valued labels only for partition',
               'metadata None and the empty dict are the same observation of "no metadata for this id"',
               "one-to-many 'divide' is compared exactly on the grid 1/(64*lcm(group counts)) (the implementation's "
               'float sums are snapped to that grid when they are within 1e-6 of it)',
               'tables have at least one id on both axes (collapse of a table with an empty axis is known finding F25)']

from . import regen_part as _regen_part
# py2v_part: regenerate coq/Gen/PartitionGen.v (Table.partition) and coq/Gen/CollapseGen.v (Table.collapse,
# one-to-one) from the source first
regenerate = _regen_part.hook(TRUSTED, ['partition', 'collapse'],
                              'coq/Model/Partition.v (partition_t; collapse_t, OneToOne)',
                              'coq/Proofs/GenBridgePartitionProofs.v, coq/Proofs/GenBridgeCollapseProofs.v',
                              vocab='coq/Gen/PartPrelude.v, coq/Gen/CollapsePrelude.v')

AXES = ['observation', 'sample']
FALSY = [0, '', [], None, False, 'x', 0.0, 1]
_INFO = {}


def _h(s, mod):
    return zlib.crc32(s.encode('utf-8')) % mod


# ---------------------------------------------------------------- the labelling family
def make_f(d):
    """python labelling (function or dict) from its JSON descriptor"""
    k = d['kind']
    if k == 'hash':
        return lambda i, m: 'g%d' % _h(i, d['mod'])
    if k == 'md':
        return lambda i, m: m.get(d['key'])      # m[key] on the defaultdict handed out would insert the key
    if k == 'const':
        return lambda i, m: d['label']
    if k == 'inj':
        return lambda i, m: 'L_' + i
    if k == 'list':
        return lambda i, m: ['k__x', 'p__%d' % _h(i, d['mod'])]
    if k == 'none_some':
        return lambda i, m: None if _h(i, d['mod']) == 0 else 'g%d' % _h(i, d['mod'])
    if k == 'eqkeys':
        return lambda i, m: [1, 1.0, 2, True][_h(i, 4)]
    if k == 'falsy':       # labels whose truth value is false but which are not None
        return lambda i, m: copy.deepcopy(FALSY[_h(i, d['mod'])])
    if k == 'idmap':
        return dict(d['map'])
    if k == 'grpmap':
        return {g: (tuple(ids) if d.get('tuple') else list(ids)) for g, ids in d['map']}
    if k == 'badmap':
        return dict((i, 3) for i, _ in d['map'])
    if k == 'emptymap':
        return {}
    raise ValueError(k)


def _hashable(x):
    return tuple(x) if isinstance(x, list) else x


def _axis_items(snap, axis):
    ids = snap['oids'] if axis == 'observation' else snap['sids']
    md = snap['omd'] if axis == 'observation' else snap['smd']
    return ids, md


def labels_for(d, ids, md):
    """the labels the implementation will see, per id (reference semantics of both dict forms)"""
    f = make_f(d)
    if isinstance(f, dict):
        if d['kind'] == 'grpmap':
            mp = {}
            for g, members in f.items():
                for i in members:
                    mp[i] = g
        else:
            mp = f
        return [mp.get(i) for i in ids]
    from collections import defaultdict
    out = []
    for n, i in enumerate(ids):
        m = None
        if md is not None:
            m = defaultdict(lambda: None)
            m.update(md[n] or {})
        out.append(_hashable(f(i, m)))
    return out


def o2m_yields(case, ids, md):
    """per id: the (pathway, group) pairs the generator yields before it stops, and whether it
    stops with an IndexError"""
    g = case['gen']
    out = []
    for n, i in enumerate(ids):
        if g['kind'] == 'byid':
            pairs = [tuple(p) for p in g['assign'].get(i, [])]
            out.append((pairs, bool(g['raises'].get(i))))
        else:
            pairs, bad = [], False
            for pw in ((md[n] or {}).get(g['key']) or []) if md is not None else []:
                if len(pw) <= g['level']:
                    bad = True
                    break
                pairs.append((pw, pw[g['level']]))
            out.append((pairs, bad))
    return out


def make_gen(case):
    g = case['gen']
    if g['kind'] == 'byid':
        def f(i, m):
            for pw, grp in g['assign'].get(i, []):
                yield (pw, grp)
            if g['raises'].get(i):
                raise IndexError('short pathway')
    else:
        def f(i, m):
            for pw in (m.get(g['key']) or []):
                yield (pw, pw[g['level']])
    return f


# ---------------------------------------------------------------- generation
FALSY_IDS = ['0', ' ', 'False', 'None', '0.0', '[]']        # valid non-empty ids that look falsy ('' is outside C01)


def _spec(rng, md=None, values=None):
    s = T.rand_spec(rng, max_r=5, max_c=5, md=md, values=values)
    if rng.random() < 0.25:
        pool = list(FALSY_IDS)
        rng.shuffle(pool)
        for key in ('oids', 'sids'):
            s[key] = [pool.pop() if pool and rng.random() < 0.4 else i for i in s[key]]
    return s


def _axis_ids(s, axis):
    return s['oids'] if axis == 'observation' else s['sids']


def gen_labelling(rng, s, axis, for_collapse):
    ids = _axis_ids(s, axis)
    mdk = 'omd' if axis == 'observation' else 'smd'
    kinds = ['hash', 'hash', 'const', 'inj', 'idmap', 'grpmap']
    if s[mdk] is not None and all(m and 'g' in m for m in s[mdk]):
        kinds += ['md', 'md']
    if not for_collapse:
        kinds += ['list', 'none_some', 'none_some', 'eqkeys', 'falsy', 'falsy'] + (['badmap', 'emptymap'] if rng.random() < 0.5 else [])
    else:
        kinds += ['none_some']
    partial = (not for_collapse) or rng.random() < 0.3      # some ids without a label (None)
    k = rng.choice(kinds)
    if k == 'falsy':
        return {'kind': 'falsy', 'mod': rng.randint(2, len(FALSY))}
    if k == 'md':
        if partial and rng.random() < 0.6:
            for m in s[mdk]:
                if rng.random() < 0.3:
                    m.pop('g')
            if all(not m for m in s[mdk]):
                s[mdk][0]['g'] = 'g1'
        return {'kind': 'md', 'key': 'g'}
    if k in ('hash', 'list', 'none_some'):
        return {'kind': k, 'mod': rng.randint(1, 4)}
    if k == 'const':
        return {'kind': 'const', 'label': rng.choice(['all', 'x y', 'é'])}
    if k in ('inj', 'eqkeys', 'emptymap'):
        return {'kind': k}
    labs = ['A', 'B', 'C', 'a b'][:rng.randint(1, 4)]
    if k in ('idmap', 'badmap'):
        mp = [[i, rng.choice(labs)] for i in ids if not partial or rng.random() < 0.8]
        if not for_collapse and rng.random() < 0.3:
            mp.insert(rng.randint(0, len(mp)), ['not-an-id', rng.choice(labs)])
        if not mp:
            mp = [[ids[0], labs[0]]]
        return {'kind': k, 'map': mp}
    # label -> ids
    groups = {}
    for i in ids:
        if not partial or rng.random() < 0.85:
            groups.setdefault(rng.choice(labs), []).append(i)
    mp = [[g, members] for g, members in groups.items()]
    if not for_collapse:
        if rng.random() < 0.3 and mp:          # an id listed in two groups: the later group wins
            mp.append(['Z', [rng.choice(ids)] + (['unknown-id'] if rng.random() < 0.5 else [])])
        if rng.random() < 0.2:
            mp.append([None, [rng.choice(ids)]])
    rng.shuffle(mp)
    if not mp:
        mp = [[labs[0], [ids[0]]]]
    return {'kind': 'grpmap', 'map': mp, 'tuple': rng.random() < 0.4}


def gen_partition(rng):
    axis = rng.choice(AXES)
    s = _spec(rng)
    return {'op': 'partition', 'spec': s, 'axis': axis, 'f': gen_labelling(rng, s, axis, False),
            'ignore_none': rng.random() < 0.4, 'remove_empty': rng.random() < 0.4}


def _fn_labelling(rng):
    k = rng.choice(['hash', 'hash', 'const', 'inj', 'none_some'])
    if k == 'const':
        return {'kind': 'const', 'label': rng.choice(['all', 'x y'])}
    return {'kind': k, 'mod': rng.randint(1, 3)} if k != 'inj' else {'kind': 'inj'}


def gen_collapse(rng):
    axis = rng.choice(AXES)
    s = _spec(rng)
    r = rng.random()
    if r < 0.12:
        # history: collapse of a collapsed table (second level must list the FIRST result's ids as members)
        pre = {'f': _fn_labelling(rng), 'include_md': rng.random() < 0.7, 'axis': axis if rng.random() < 0.8 else rng.choice(AXES)}
        if pre['f']['kind'] == 'none_some':
            pre['f'] = {'kind': 'hash', 'mod': 3}
        return {'op': 'collapse', 'spec': s, 'axis': axis, 'pre': pre, 'f': _fn_labelling(rng),
                'norm': rng.random() < 0.3, 'min_group_size': rng.choice([1, 1, 1, 2]),
                'include_md': rng.random() < 0.85, 'mode': 'add'}
    if r < 0.22:
        # a table that already carries collapsed_ids metadata on the axis (a collapsed table read from a file)
        mdk = 'omd' if axis == 'observation' else 'smd'
        s[mdk] = [{'collapsed_ids': ['m%d_%d' % (i, j) for j in range(rng.randint(1, 3))]} for i in range(len(_axis_ids(s, axis)))]
    return {'op': 'collapse', 'spec': s, 'axis': axis, 'f': gen_labelling(rng, s, axis, True),
            'norm': rng.random() < 0.5, 'min_group_size': rng.choice([1, 1, 1, 1, 1, 2, 2, 3, 0]),
            'include_md': rng.random() < 0.7, 'mode': 'add' if rng.random() < 0.95 else 'bogus'}


PATHS = [['k__A', 'p__x'], ['k__A', 'p__y'], ['k__B', 'p__x'], ['k__B', 'p__z', 'c__1'], ['k__C'], ['k__C', 'p__w']]


def gen_o2m(rng):
    axis = rng.choice(AXES)
    mdk = 'omd' if axis == 'observation' else 'smd'
    own = 'obs' if axis == 'observation' else 'samp'
    s = _spec(rng, md=rng.choice(['text', 'group', 'num', 'group', own, own, 'none' if rng.random() < 0.4 else 'text']),
              values=rng.choice(['counts', 'small', 'signed', 'dyadic']))
    ids = _axis_ids(s, axis)
    if rng.random() < 0.5 and s[mdk] is not None:
        level = rng.choice([1, 1, 0, 2])
        pool = [p for p in PATHS if len(p) > level or rng.random() < 0.25] or [PATHS[0]]
        for m in s[mdk]:
            if m is None:
                continue
            n = rng.choice([0, 1, 1, 2, 2, 3])
            m['pw'] = [list(rng.choice(pool)) for _ in range(n)]
        if all(not m for m in s[mdk]):
            s[mdk][0]['pw'] = [list(PATHS[0])]
        g = {'kind': 'bymd', 'key': 'pw', 'level': level}
    else:
        groups = ['G1', 'G10', 'G2', 'é'][:rng.randint(1, 4)]
        assign = {}
        for i in ids:
            n = rng.choice([0, 1, 1, 2, 2, 3])
            assign[i] = [[list(rng.choice(PATHS)), rng.choice(groups)] for _ in range(n)]
        g = {'kind': 'byid', 'assign': assign, 'raises': {i: rng.random() < 0.15 for i in ids}}
    return {'op': 'o2m', 'spec': s, 'axis': axis, 'gen': g,
            'mode': rng.choice(['add', 'add', 'divide', 'divide', 'divide', 'bogus'] if rng.random() < 0.2 else ['add', 'divide']),
            'strict': rng.random() < 0.3, 'md_key': rng.choice(['Path', 'Path', 'KEGG/Pathways']),
            'include_md': rng.random() < 0.8, 'norm': rng.random() < 0.05}


def size_order_block():
    """deterministic block: one-to-one collapses in which a too-small group (singleton / pair) is met BEFORE a
    larger kept group of a different size (and the reverse orders as control), min_group_size 2 and 3, norm on and
    off, both axes, both dict forms: the divisor of a kept vector must be ITS member count"""
    n = 6
    mat = [[float((3 * i + 5 * j) % 7 + (1 if (i + j) % 4 else 0)) for j in range(n)] for i in range(n)]
    mat[2][3] = 0.0
    mat[4][1] = -2.0
    seqs = ['ABBBBB', 'AABBBB', 'ABBCCC', 'ABCCCB', 'ABABBB', 'AABCCC',      # small group(s) first
            'BBBBBA', 'BBBBAA', 'CCCBBA', 'BCCCBA']                          # control: large group first
    for axis in AXES:
        spec = {'oids': ['v%d' % i for i in range(n)], 'sids': ['w%d' % j for j in range(n)], 'mat': mat,
                'omd': None, 'smd': None, 'type': 'OTU table', 'layout': ['csr' if axis == 'observation' else 'csc']}
        ids = spec['oids'] if axis == 'observation' else spec['sids']
        for k, seq in enumerate(seqs):
            for mgs in (2, 3):
                for norm in (True, False):
                    if k % 2 == 0:
                        f = {'kind': 'idmap', 'map': [[i, 'grp' + l] for i, l in zip(ids, seq)]}
                    else:
                        groups = {}
                        for i, l in zip(ids, seq):
                            groups.setdefault('grp' + l, []).append(i)
                        f = {'kind': 'grpmap', 'map': [[g, m] for g, m in groups.items()], 'tuple': bool(mgs % 2)}
                    yield {'op': 'collapse', 'spec': copy.deepcopy(spec), 'axis': axis, 'f': f, 'norm': norm,
                           'min_group_size': mgs, 'include_md': True, 'mode': 'add'}


def gen(rng, tier):
    for c in size_order_block():
        yield c
    n = 400 if tier == 'quick' else 4000
    for _ in range(n):
        yield gen_partition(rng)
    for _ in range(n):
        yield gen_collapse(rng)
    for _ in range(n):
        yield gen_o2m(rng)


# ---------------------------------------------------------------- implementation
def _lcm(case, ids, md):
    k = 1
    for pairs, _ in o2m_yields(case, ids, md):
        if pairs:
            k = k * len(pairs) // math.gcd(k, len(pairs))
    return k


def val(n, d):
    """the float the implementation computes for numerator n (in 1/64) and divisor d"""
    return (n / T.SCALE) / d


def _snap_to_grid(snap, k):
    out = []
    for row in snap['mat']:
        r = []
        for v in row:
            n = v * T.SCALE * k
            rn = round(n)
            r.append(val(rn, k) if abs(n - rn) <= 1e-6 * max(1.0, abs(rn)) else v)
        out.append(r)
    snap['mat'] = out
    return snap


def build_case(case):
    """the table under test: built from its spec and layout recipe, then (history) possibly itself the result of a
    one-to-one collapse, so that it already carries collapsed_ids metadata / collapsed labels as ids"""
    t = T.build(case['spec'])
    pre = case.get('pre')
    if pre:
        t = t.collapse(make_f(pre['f']), norm=False, include_collapsed_metadata=pre['include_md'], axis=pre['axis'])
    return t


def source(case):
    """content of the table under test in snapshot form (the reference the oracle compares with)"""
    if case.get('pre'):
        return T.snapshot(build_case(case))
    return T.spec_content(case['spec'])


def run_impl(case):
    try:
        t = build_case(case)
    except Exception as e:
        return ['crash-build', type(e).__name__, str(e)[:200]]
    _INFO[id(case)] = T.layout_info(t)
    axis = case['axis']
    try:
        if case['op'] == 'partition':
            parts = list(t.partition(make_f(case['f']), axis=axis, remove_empty=case['remove_empty'],
                                     ignore_none=case['ignore_none']))
            return ['ok', [[T.plain(lab), T.norm_snap(T.snapshot(p))] for lab, p in parts]]
        if case['op'] == 'collapse':
            r = t.collapse(make_f(case['f']), norm=case['norm'], min_group_size=case['min_group_size'],
                           include_collapsed_metadata=case['include_md'], one_to_many_mode=case['mode'], axis=axis)
            return ['ok', T.norm_snap(T.snapshot(r))]
        r = t.collapse(make_gen(case), norm=case['norm'], one_to_many=True, one_to_many_mode=case['mode'],
                       one_to_many_md_key=case['md_key'], strict=case['strict'],
                       include_collapsed_metadata=case['include_md'], axis=axis)
        s = T.norm_snap(T.snapshot(r))
        if case['mode'] == 'divide':
            ids, md = _axis_items(T.snapshot(t), axis)
            s = _snap_to_grid(s, _lcm(case, ids, md))
        return ['ok', s]
    except Exception as e:
        return ['err', T.err_code(e)]


# ---------------------------------------------------------------- wire
class LabelCoder:
    """labels of a partition <-> small codes; equal dict keys share a code, None is 0"""

    def __init__(self):
        self.codes, self.rep = {None: 0}, {0: None}

    def code(self, lab):
        lab = _hashable(lab)
        if lab not in self.codes:
            self.codes[lab] = len(self.codes)
            self.rep[self.codes[lab]] = lab
        return self.codes[lab]


def _universe(case):
    u = T.spec_universe(case['spec'])
    if case.get('pre'):
        u += T.spec_universe(source(case))
    if case['op'] == 'collapse':
        d = case['f']
        if d['kind'] in ('idmap', 'badmap'):
            u += [v for _, v in d['map']] + [k for k, _ in d['map']]
        elif d['kind'] == 'grpmap':
            u += [g for g, _ in d['map'] if g is not None] + [i for _, m in d['map'] for i in m]
        else:
            snap = source(case)
            ids, md = _axis_items(snap, case['axis'])
            try:
                u += [x for x in labels_for(d, ids, md) if isinstance(x, str)]
            except Exception:
                pass
    elif case['op'] == 'o2m':
        g = case['gen']
        if g['kind'] == 'byid':
            u += [p[1] for v in g['assign'].values() for p in v]
        else:
            u += [x for p in PATHS for x in p]
            for key in ('omd', 'smd'):
                for m in case['spec'][key] or []:
                    for pw in ((m or {}).get(g['key']) or []):
                        u += [x for x in pw if isinstance(x, str)]
    elif case['f']['kind'] in ('idmap', 'badmap'):
        u += [k for k, _ in case['f']['map']]
    elif case['f']['kind'] == 'grpmap':
        u += [i for _, m in case['f']['map'] for i in m]
    return u


def _prep(case):
    """coder, label coder, content of the built table, encoded labelling"""
    cd = T.Coder(_universe(case))
    snap = T.snapshot(build_case(case))
    ids, md = _axis_items(snap, case['axis'])
    lc = LabelCoder()
    enc = None
    if case['op'] in ('partition', 'collapse'):
        d = case['f']
        code = lc.code if case['op'] == 'partition' else (lambda x: 0 if x is None else cd.id(x))
        if d['kind'] == 'idmap':
            enc = [1, [[cd.id(k), code(v)] for k, v in dict(d['map']).items()]]
        elif d['kind'] == 'grpmap':
            enc = [2, [[code(g), [cd.id(i) for i in m]] for g, m in make_f(d).items()]]
        elif d['kind'] == 'badmap':
            enc = [3]
        elif d['kind'] == 'emptymap':
            enc = [4]
        else:
            enc = [0, [code(x) for x in labels_for(d, ids, md)]]
    return cd, lc, snap, ids, md, enc


def encode(case):
    cd, lc, snap, ids, md, enc = _prep(case)
    tab = cd.table(snap)
    ax = AXES.index(case['axis'])
    if case['op'] == 'partition':
        return [0, tab, ax, enc, int(case['ignore_none']), int(case['remove_empty'])]
    mode = {'add': 0, 'divide': 1}.get(case['mode'], 2)
    if case['op'] == 'collapse':
        return [1, tab, ax, enc, int(case['norm']), case['min_group_size'], int(case['include_md']), mode]
    ys = o2m_yields(case, ids, md)
    return [2, tab, ax, [[[T.md_tree(pw), cd.id(g)] for pw, g in pairs] for pairs, _ in ys],
            [int(b) for _, b in ys], int(case['strict']), list(case['md_key'].encode('utf-8')),
            int(case['norm']), int(case['include_md']), mode]


def _md_untree(t, cd):
    if t[0] == 7:
        return {'collapsed_ids': [cd.unid(c) for c in t[1]]}
    return T.md_untree(t)


def _unid(cd, c):
    return 'None' if c == 0 else cd.unid(c)     # a None label becomes the id None; snapshots render it 'None'


def _untable(tr, cd, divs=None):
    def md(m):
        return None if not m else [_md_untree(x, cd) for x in m[0]]
    rows = tr[2]
    if divs is None:
        mat = [[cd.unval(k) for k in row] for row in rows]
    else:
        mat = None
    return {'oids': [_unid(cd, c) for c in tr[0]], 'sids': [_unid(cd, c) for c in tr[1]], 'mat': mat,
            'omd': md(tr[3]), 'smd': md(tr[4]), 'type': cd.untype(tr[5])}


def decode(tree, case):
    if tree[0] == -1:
        return ['err', tree[1]]
    cd, lc, snap, ids, md, enc = _prep(case)
    if case['op'] == 'partition':
        return ['ok', [[T.plain(lc.rep.get(lab, '<label %d>' % lab)), T.norm_snap(_untable(p, cd))] for lab, p in tree[1]]]
    tr, divs = tree[1]
    s = _untable(tr, cd, divs)
    if case['axis'] == 'observation':
        s['mat'] = [[val(k, d) for k in row] for row, d in zip(tr[2], divs)]
    else:
        s['mat'] = [[val(k, d) for k, d in zip(row, divs)] for row in tr[2]]
    return ['ok', T.norm_snap(s)]


# ---------------------------------------------------------------- oracle (the property text)
def _mat(snap, axis):
    M = np.array(snap['mat'], dtype=float).reshape(len(snap['oids']), len(snap['sids']))
    return M if axis == 'observation' else M.T


def _keys(axis):
    return (('oids', 'sids', 'omd', 'smd') if axis == 'observation' else ('sids', 'oids', 'smd', 'omd'))


def oracle_partition(case, obs):
    fails = []
    src = source(case)
    axis = case['axis']
    ax, ot, axmd, otmd = _keys(axis)
    d = case['f']
    if d['kind'] in ('badmap', 'emptymap'):
        return [] if obs[0] == 'err' else ['a mapping in neither accepted form was not refused']
    if obs[0] != 'ok':
        return ['partition raised: %s' % obs]
    labels = labels_for(d, src[ax], src[axmd])
    M = _mat(src, axis)
    want = {}
    for n, (i, lab) in enumerate(zip(src[ax], labels)):
        if case['ignore_none'] and lab is None:
            continue
        want.setdefault(lab, []).append(n)
    got_labels = [_hashable(l) for l, _ in obs[1]]
    if len(set(got_labels)) != len(got_labels):
        fails.append('a label is yielded twice: %s' % got_labels)
    if set(got_labels) != set(want):
        fails.append('labels yielded %s, expected %s' % (got_labels, list(want)))
        return fails
    seen = []
    for lab, p in obs[1]:
        rows = want[_hashable(lab)]
        P = _mat(p, axis)
        if case['remove_empty']:
            sub = M[rows, :]
            keep_r = [r for k, r in enumerate(rows) if np.any(sub[k, :] != 0)]
            keep_c = [c for c in range(M.shape[1]) if np.any(sub[:, c] != 0)]
        else:
            keep_r, keep_c = rows, list(range(M.shape[1]))
        exp_ids = [src[ax][r] for r in keep_r]
        if p[ax] != exp_ids:
            fails.append('part %r has %s ids %s, expected %s' % (lab, axis, p[ax], exp_ids))
            continue
        exp_ot = [src[ot][c] for c in keep_c]
        if p[ot] != exp_ot:
            fails.append('part %r has other-axis ids %s, expected %s' % (lab, p[ot], exp_ot))
            continue
        seen += p[ax]
        if P.shape != (len(keep_r), len(keep_c)) or not np.array_equal(P, M[np.ix_(keep_r, keep_c)] if keep_r and keep_c else P):
            fails.append('part %r does not carry the vectors unchanged' % (lab,))
        for k, r in enumerate(keep_r):
            a = p[axmd][k] if p[axmd] is not None else None
            b = src[axmd][r] if src[axmd] is not None else None
            if (a or {}) != (b or {}):
                fails.append('part %r: metadata of %s is %r, was %r' % (lab, src[ax][r], a, b))
        for k, c in enumerate(keep_c):
            a = p[otmd][k] if p[otmd] is not None else None
            b = src[otmd][c] if src[otmd] is not None else None
            if (a or {}) != (b or {}):
                fails.append('part %r: other-axis metadata of %s is %r, was %r' % (lab, src[ot][c], a, b))
        if p['type'] != src['type']:
            fails.append('part %r: type %r, was %r' % (lab, p['type'], src['type']))
    if not case['remove_empty'] and not fails:
        exp = [i for i, lab in zip(src[ax], labels) if not (case['ignore_none'] and lab is None)]
        if sorted(seen) != sorted(exp):
            fails.append('the parts do not cover every id exactly once: %s vs %s' % (sorted(seen), sorted(exp)))
    return fails[:4]


def oracle_collapse(case, obs):
    fails = []
    src = source(case)
    axis = case['axis']
    ax, ot, axmd, otmd = _keys(axis)
    if case['mode'] not in ('add', 'divide'):
        return [] if obs[0] == 'err' else ['an unknown one_to_many_mode was not refused']
    labels = labels_for(case['f'], src[ax], src[axmd])
    M = _mat(src, axis)
    groups = {}
    for n, lab in enumerate(labels):
        groups.setdefault(lab, []).append(n)
    want = {('None' if lab is None else lab): rows for lab, rows in groups.items() if len(rows) >= case['min_group_size']}
    if obs[0] != 'ok':
        return ['collapse raised: %s' % obs]
    r = obs[1]
    if sorted(r[ax]) != sorted(want):
        return ['collapsed ids %s, expected one per label of size >= %d: %s' % (r[ax], case['min_group_size'], sorted(want))]
    if r[ot] != src[ot]:
        return ['other axis ids changed: %s vs %s' % (r[ot], src[ot])]
    if not want:
        return fails
    R = _mat(r, axis)
    for k, lab in enumerate(r[ax]):
        rows = want[lab]
        vec = M[rows, :].sum(axis=0)
        if case['norm']:
            vec = vec / len(rows)
        if not np.array_equal(R[k, :], vec):
            fails.append('vector of %r is %s, expected the %s of its members %s'
                         % (lab, R[k, :].tolist(), 'mean' if case['norm'] else 'sum', vec.tolist()))
        if case['include_md']:
            got = (r[axmd][k] or {}).get('collapsed_ids') if r[axmd] is not None else None
            if got != [src[ax][i] for i in rows]:
                fails.append('collapsed_ids of %r is %s, members are %s' % (lab, got, [src[ax][i] for i in rows]))
        elif r[axmd] is not None:
            fails.append('metadata present although include_collapsed_metadata is off')
    if not case['norm'] and case['min_group_size'] <= 1 and not np.array_equal(R.sum(axis=0), M.sum(axis=0)):
        fails.append('other-axis totals not conserved: %s vs %s' % (R.sum(axis=0).tolist(), M.sum(axis=0).tolist()))
    for c in range(len(src[ot])):
        a = r[otmd][c] if r[otmd] is not None else None
        b = src[otmd][c] if src[otmd] is not None else None
        if (a or {}) != (b or {}):
            fails.append('other-axis metadata of %s is %r, was %r' % (src[ot][c], a, b))
    if r['type'] != src['type']:
        fails.append('type %r, was %r' % (r['type'], src['type']))
    return fails[:4]


def oracle_o2m(case, obs):
    fails = []
    src = source(case)
    axis = case['axis']
    ax, ot, axmd, otmd = _keys(axis)
    if case['mode'] not in ('add', 'divide') or case['norm']:
        return [] if obs[0] == 'err' else ['an unsupported combination was not refused']
    if src[axmd] is None:
        return []                 # outside the property's domain (the axis carries no metadata)
    ys = o2m_yields(case, src[ax], src[axmd])
    if case['strict'] and any(b for _, b in ys):
        return [] if obs[0] == 'err' else ['strict: an incomplete pathway was not refused']
    if obs[0] != 'ok':
        return ['one-to-many collapse raised: %s' % obs]
    r = obs[1]
    groups = sorted(set(g for pairs, _ in ys for _, g in pairs))
    if sorted(r[ax]) != groups:
        return ['collapsed ids %s, expected the groups %s' % (r[ax], groups)]
    if r[ot] != src[ot]:
        return ['other axis ids changed']
    if not groups:
        return fails
    R = _mat(r, axis)
    M = _mat(src, axis)
    k = 1
    for pairs, _ in ys:
        if pairs:
            k = k * len(pairs) // math.gcd(k, len(pairs))
    for gi, g in enumerate(r[ax]):
        for c in range(M.shape[1]):
            tot = Fraction(0)
            for n, (pairs, _) in enumerate(ys):
                mult = sum(1 for _, gg in pairs if gg == g)
                if mult:
                    tot += Fraction(M[n, c]) * mult / (len(pairs) if case['mode'] == 'divide' else 1)
            if R[gi, c] != float(tot):
                fails.append('value of (%s, %s) is %r, expected %s' % (g, src[ot][c], R[gi, c], tot))
        if case['include_md']:
            got = (r[axmd][gi] or {}).get(case['md_key']) if r[axmd] is not None else None
            if got not in [pw for pairs, _ in ys for pw, gg in pairs if gg == g]:
                fails.append('metadata of group %s is %r, not one of its pathways' % (g, got))
    if case['mode'] == 'divide' and all(pairs for pairs, _ in ys):
        for c in range(M.shape[1]):
            tot = sum(Fraction(round(R[gi, c] * T.SCALE * k), T.SCALE * k) for gi in range(len(groups)))
            if tot != sum(Fraction(M[n, c]) for n in range(M.shape[0])):
                fails.append("'divide' does not conserve the total of %s: %s vs %s"
                             % (src[ot][c], tot, sum(Fraction(M[n, c]) for n in range(M.shape[0]))))
    return fails[:4]


def oracle(case, obs):
    if obs[0].startswith('crash'):
        return ['could not build the table: %s' % obs]
    if case['op'] == 'partition':
        return oracle_partition(case, obs)
    if case['op'] == 'collapse':
        return oracle_collapse(case, obs)
    return oracle_o2m(case, obs)


def nontrivial(case):
    ax, ot, axmd, otmd = _keys(case['axis'])
    try:
        src = source(case)    # a case built through a first collapse: the library may raise there (run_impl reports it)
        if case['op'] == 'o2m':
            return sum(len(p) for p, _ in o2m_yields(case, src[ax], src[axmd])) >= 2
        if case['f']['kind'] in ('badmap', 'emptymap'):
            return True
        labs = labels_for(case['f'], src[ax], src[axmd])
        return len(set(labs)) >= 2 or len(labs) >= 2
    except Exception:
        return False


def classify(case):
    tags = ['op:' + case['op'], 'axis:' + case['axis'], 'layout:' + _INFO.get(id(case), '?')]
    if case.get('pre'):
        tags.append('history:collapsed-before(md=%d,%s-axis)' % (case['pre']['include_md'], 'same' if case['pre']['axis'] == case['axis'] else 'other'))
    if case['op'] == 'o2m':
        tags += ['gen:' + case['gen']['kind'], 'mode:' + case['mode'], 'strict:%d' % case['strict']]
    else:
        tags.append('f:' + case['f']['kind'])
    if case['op'] == 'partition':
        tags.append('flags:ignore_none=%d,remove_empty=%d' % (case['ignore_none'], case['remove_empty']))
    if case['op'] == 'collapse':
        tags.append('norm:%d' % case['norm'])
        tags.append('min_group_size:%d' % case['min_group_size'])
    return tags


def shrink(case):
    s = case['spec']
    if s['layout'] != ['dense']:
        c = copy.deepcopy(case); c['spec']['layout'] = ['dense']; yield c
    if s['type'] is not None:
        c = copy.deepcopy(case); c['spec']['type'] = None; yield c
    other_md = 'smd' if case['axis'] == 'observation' else 'omd'
    if s[other_md] is not None:
        c = copy.deepcopy(case); c['spec'][other_md] = None; yield c
    if len(s['oids']) > 1:
        for r in range(len(s['oids'])):
            c = copy.deepcopy(case); t = c['spec']
            del t['oids'][r]; del t['mat'][r]
            if t['omd'] is not None:
                del t['omd'][r]
            t['layout'] = ['dense']
            yield c
    if len(s['sids']) > 1:
        for k in range(len(s['sids'])):
            c = copy.deepcopy(case); t = c['spec']
            del t['sids'][k]
            for row in t['mat']:
                del row[k]
            if t['smd'] is not None:
                del t['smd'][k]
            t['layout'] = ['dense']
            yield c
    for flag in ('ignore_none', 'remove_empty', 'norm', 'strict'):
        if case.get(flag):
            c = copy.deepcopy(case); c[flag] = False; yield c


SIGNATURES = {}
