"""regenerate() hook for the reader-mode translator tools/py2v_h5r (sibling of harness/regen.py,
regen_dyn.py, regen_eq.py): re-translate the listed targets from the source tree under test (BIOM_REPO)
at the start of a check and record the run in the evidence.  A refusal is a broken tie.
    from . import regen_h5r as _regen_h5r
    regenerate = _regen_h5r.hook(TRUSTED, ['h5read'], 'coq/Model/Hdf5.v', 'coq/Proofs/GenBridgeHdf5ReadProofs.v')"""
import os
import re

from . import core


def hook(trusted, targets, model, bridges, vocab='coq/Gen/H5ReadPrelude.v'):
    base = list(trusted)

    def regenerate():
        rc, out = core.sh([os.path.join(core.ROOT, 'tools', 'regen_h5r.sh')] + list(targets), timeout=300)
        del trusted[:]
        trusted.extend(base)
        refused = [ln.split('REFUSED', 1)[1].strip() for ln in out.split('\n') if 'REFUSED' in ln]
        for m in re.finditer(r'py2v_h5r: (\S+) -> (\S+) (written|unchanged) \(source sha256 ([0-9a-f]+)\)', out):
            trusted.append('%s regenerated from %s by tools/py2v_h5r on this run (%s; sha256 of source %s); tied to the '
                           'hand-written model %s by the *_is_source theorems (%s); trusted: the translator, its '
                           'signature files tools/py2v_h5r/sigs/*.json and the vocabulary %s'
                           % (m.group(2), m.group(1), m.group(3), m.group(4), model, bridges, vocab))
        if rc != 0:
            trusted.append('translator py2v_h5r REFUSED a source on this run (%s); the generated file is stale'
                           % '; '.join(refused))
            raise core.Broken('translator rejected %s' % ('; '.join(refused) or 'rc=%d' % rc), out[-3000:])
    return regenerate
