"""C17: all accepted construction inputs agree; malformed input is always rejected.

Three kinds of cases:
  forms  one matrix from tables.rand_spec encoded in several accepted input forms -> every table must hold
         exactly the matrix, and the tables must compare equal with ==;
  ctor   one constructor call from the malformed stream (duplicate ids, too few / many ids, metadata too
         short / long / with non-mappings), for each input form, under the default or a changed error profile;
  adj / uc  record lists for Table.from_adjacency, parse_uc and biom.cli.uc_processor._from_uc.
Inputs are described by JSON-able descriptors; run_impl builds the Python objects from them, encode the trees."""
import io
import json

import numpy as np
from scipy.sparse import bsr_matrix, coo_matrix, csc_matrix, csr_matrix, dok_matrix, lil_matrix

import biom.err as E
from biom import Table
from biom.cli.uc_processor import _from_uc
from biom.exception import TableException
from biom.parse import parse_uc

from . import tables as T
from .core import enc_str

ID = 'C17'
RULE = ('fixed: the malformed sweep (too few / too many ids per axis and on both) on all-zero 2x3 / 3x1 / 1x1 matrices in every form that states a shape '
        '(ndarray float64/int64/bool/float32/uint8, nested lists, row arrays, sparse / dok / mixed rows and all six scipy layouts without stored entries); '
        'forms: matrices from tables.rand_spec (dims 1..4, all value kinds incl. 0/1 and integer matrices) encoded in '
        '3-5 of 24 input variants {ndarray float/int/bool, nested dense lists, triples (non-zero only / with explicit '
        'zeros / with a value split over duplicate entries, shuffled), coordinate dict (with / without zeros), list of '
        'row arrays float/int, list of row dicts keyed (0, col) (with / without zeros), list of sparse rows (stored zeros, '
        'unsorted), scipy csr/csc (raw arrays with stored zeros and unsorted indices)/coo (shuffled, explicit zeros, '
        'duplicates)/lil/dok/bsr each also WITH explicitly stored zeros, lists of dok rows (a dok_matrix is a dict: another converter), '
        'mixed-layout row lists with a dok or a non-dok first row}; every form that carries a dtype (ndarray, row arrays, every scipy layout, '
        'sparse / dok / mixed rows) in a random dtype that represents its values exactly: float64/32/16, int8..64, uint8..64, bool (row lists also with a different dtype per row, narrow first or last); of every constructed table the queries that look at '
        'stored entries are asked before anything reads nnz: matrix_data.nnz, nonzero(), min per axis and overall, against the plain '
        'non-zero cells and against a twin built from the float64 dense array, with which it must also compare == / != in both directions, hold float64 and export to_json; then the table is transformed in place and the untouched input object must construct the described table again; ctor: the same forms with ids duplicated anywhere on an axis, one id too '
        'few / too many, an explicit zero at a coordinate without an id as the only fault, metadata too short / too long / all-empty of the wrong size / holding a non-mapping (truthy or '
        'falsy), under the default profile (a quarter after an errstate block left by an exception) or with 1-2 kinds set to ignore/warn; adj: 1-8 records over <= 3x3 ids with '
        'repeated pairs, zero and negative values, with / without the header, with comment / blank / short lines, as '
        'list / text / file; uc: 1-10 H/S/L/N/C/comment/blank records over <= 3 seeds and <= 3 samples whose ids contain '
        'underscores, labels with descriptions, queries without underscore, through parse_uc (file / list), _from_uc and the real '
        '`biom from-uc` click command in process (files on disk, result read back) '
        'with and without a representative-set fasta (complete, incomplete, colliding); '
        'non-trivial = forms case with >= 2 distinct variants and a matrix that is neither 1x1 nor all-zero, a ctor case '
        'that is malformed, an adj/uc case with a repeated pair; distinct by case hash')
TRUSTED = ['hand-written model coq/Model/Construct.v tied to biom/table.py, biom/parse.py, biom/cli/uc_processor.py by this run',
           'scipy coo->csr conversion sums duplicate entries and rejects out-of-range indices (modelled by its denotation)',
           'numpy astype(float) is value preserving for bool and for integers below 2**53',
           'extraction (ExtrOcamlBasic only) + ocaml/driver_tail.ml, cross-checked against vm_compute on a sample']
from . import regen_uc as _regen_uc
# py2v_uc: regenerate coq/Gen/UcGen.v (biom/parse.py parse_uc, the loop turn and the function) from the source first
regenerate = _regen_uc.hook(TRUSTED, ['uc'], 'coq/Model/UcText.v + coq/Model/Construct.v', 'coq/Proofs/GenBridgeUcProofs.v')
ASSUMPTIONS = ['list-of-row-dicts is keyed (0, column) (the first key component is ignored in row mode but drives the '
               'orientation heuristic; absolute row keys misread tall matrices)',
               'sparse inputs carry no duplicate entries except COO (which sums them)',
               'adjacency values are printed as Python float reprs of multiples of 1/64']

HEADER = '#OTU ID\tSampleID\tvalue'
SPARSE_LAYOUTS = ['csr', 'csc', 'coo', 'lil', 'dok', 'bsr']


# ---------------------------------------------------------------- input descriptors -> python objects
DTYPES = ['float64', 'float32', 'float16', 'int8', 'int16', 'int32', 'int64', 'uint8', 'uint16', 'uint32', 'uint64', 'bool']
_ALIAS = {'float': 'float64', 'int': 'int64'}


def np_dtype(name):
    return np.dtype(_ALIAS.get(name, name))


def dtype_fits(name, values, sparse=False):
    """the values are exactly representable in the dtype (and scipy.sparse supports it)"""
    dt = np_dtype(name)
    if sparse and dt == np.float16:
        return False
    a = np.array(list(values), dtype=float)
    if dt.kind == 'b':
        return bool(np.all((a == 0) | (a == 1)))
    if dt.kind in 'iu':
        if not np.all(a == np.floor(a)):
            return False
        info = np.iinfo(dt)
        return bool(np.all(a >= info.min) and np.all(a <= min(info.max, 2 ** 53)))
    with np.errstate(over='ignore'):
        return bool(np.all(a.astype(dt).astype(float) == a))


def pick_dtype(rng, values, sparse=False):
    ok = [d for d in DTYPES if dtype_fits(d, values, sparse)]
    return 'float64' if rng.random() < 0.35 else rng.choice(ok)


def _arr(rows, nr, nc, dtype):
    return np.array(rows, dtype=float).reshape(nr, nc).astype(np_dtype(dtype))


def _raw(fmt, nr, nc, entries, dtype):
    """CSR / CSC arrays holding the entries in the given order (explicit zeros and unsorted indices stay)"""
    maj = nr if fmt == 'csr' else nc
    segs = [[] for _ in range(maj)]
    for r, c, v in entries:
        (segs[r] if fmt == 'csr' else segs[c]).append((c if fmt == 'csr' else r, v))
    indptr, indices, data = [0], [], []
    for s in segs:
        indices += [i for i, _ in s]
        data += [v for _, v in s]
        indptr.append(len(indices))
    arrs = (np.array(data, dtype=float).astype(np_dtype(dtype)), np.array(indices, dtype=np.int32),
            np.array(indptr, dtype=np.int32))
    return csr_matrix(arrs, shape=(nr, nc)) if fmt == 'csr' else csc_matrix(arrs, shape=(nr, nc))


def make_input(inp):
    k = inp[0]
    if k == 'array':
        _, dtype, nr, nc, rows = inp
        return _arr(rows, nr, nc, dtype), {}
    if k == 'lists':
        return [list(r) for r in inp[1]], {'input_is_dense': True}
    if k == 'triples':
        return [[r, c, v] for r, c, v in inp[1]], {}
    if k == 'dict':
        return {(r, c): v for r, c, v in inp[1]}, {}
    if k == 'rowarrays':
        _, dtype, rows = inp
        dts = dtype if isinstance(dtype, list) else [dtype] * len(rows)
        return [_arr(r, 1, len(r), d).reshape(len(r)) for r, d in zip(rows, dts)], {}
    if k == 'rowdicts':
        return [{(a, j): v for a, j, v in row} for row in inp[1]], {}
    if k == 'sparserows':
        out = []
        dts = inp[2] if len(inp) > 2 else 'float64'
        dts = dts if isinstance(dts, list) else [dts] * len(inp[1])
        for (w, cv), dt in zip(inp[1], map(np_dtype, dts)):
            arrs = (np.array([v for _, v in cv], dtype=float).astype(dt), np.array([c for c, _ in cv], dtype=np.int32),
                    np.array([0, len(cv)], dtype=np.int32))
            out.append(csr_matrix(arrs, shape=(1, w)))
        return out, {}
    if k in ('dokrows', 'mixedrows'):
        # list of 1 x w sparse rows in the layouts named per row ('dok' first for 'dokrows')
        out = []
        dts = inp[2] if len(inp) > 2 else 'float64'
        dts = dts if isinstance(dts, list) else [dts] * len(inp[1])
        for (lay, w, cv), dt in zip(inp[1], map(np_dtype, dts)):
            arrs = (np.array([v for _, v in cv], dtype=float).astype(dt), np.array([c for c, _ in cv], dtype=np.int32),
                    np.array([0, len(cv)], dtype=np.int32))
            m = csr_matrix(arrs, shape=(1, w))
            if lay == 'dok':
                d = dok_matrix((1, w), dtype=dt)
                for c, v in cv:
                    if v != 0:
                        d[0, c] = v
                    else:
                        dict.__setitem__(d._dict if hasattr(d, '_dict') else d, (0, c), dt.type(0))
                m = d
            elif lay != 'csr':
                m = m.asformat(lay)
            out.append(m)
        return out, {}
    if k == 'sparse':
        _, layout, dtype, nr, nc, entries = inp
        if layout in ('csr', 'csc'):
            return _raw(layout, nr, nc, entries, dtype), {}
        coo = coo_matrix((np.array([v for _, _, v in entries], dtype=float).astype(np_dtype(dtype)),
                          (np.array([r for r, _, _ in entries], dtype=int), np.array([c for _, c, _ in entries], dtype=int))),
                         shape=(nr, nc))
        if layout == 'coo':
            return coo, {}
        zeros = [(r, c) for r, c, v in entries if v == 0]
        nzc = coo_matrix((np.array([v for _, _, v in entries if v != 0], dtype=float).astype(np_dtype(dtype)),
                          (np.array([r for r, _, v in entries if v != 0], dtype=int),
                           np.array([c for _, c, v in entries if v != 0], dtype=int))), shape=(nr, nc))
        if layout == 'bsr':
            # a BSR matrix made from CSR arrays that hold explicit zeros keeps them inside its blocks
            return _raw('csr', nr, nc, sorted(entries), dtype).tobsr(blocksize=(1, 1)), {}
        return _with_stored_zeros({'lil': lil_matrix, 'dok': dok_matrix}[layout](nzc), zeros), {}
    raise ValueError(k)


def input_tree(inp, cd):
    k = inp[0]
    ent = lambda es: [[r, c, cd.val(v)] for r, c, v in es]
    if k == 'array':
        _, dtype, nr, nc, rows = inp
        return [0, nr, nc, [[cd.val(v) for v in r] for r in rows]]
    if k == 'lists':
        return [1, [[cd.val(v) for v in r] for r in inp[1]]]
    if k == 'triples':
        return [2, ent(inp[1])]
    if k == 'dict':
        return [3, ent(inp[1])]
    if k == 'rowarrays':
        return [4, [[cd.val(v) for v in r] for r in inp[2]]]
    if k == 'rowdicts':
        return [5, [ent(row) for row in inp[1]]]
    if k == 'sparserows':
        return [6, [[w, [[c, cd.val(v)] for c, v in cv]] for w, cv in inp[1]]]
    if k == 'dokrows':
        return [8, [[w, [[c, cd.val(v)] for c, v in cv]] for lay, w, cv in inp[1]]]
    if k == 'mixedrows':        # a non-dok first row: list_sparse_to_sparse, whatever the layouts
        return [6, [[w, [[c, cd.val(v)] for c, v in cv]] for lay, w, cv in inp[1]]]
    if k == 'sparse':
        _, layout, dtype, nr, nc, entries = inp
        return [7, nr, nc, ent(entries)]
    raise ValueError(k)


def md_in_tree(md):
    if md is None:
        return []
    out = []
    for m in md:
        if m is None:
            out.append([0])
        elif isinstance(m, dict):
            out.append([1, T.md_tree(m)[1]])
        else:
            out.append([2, int(bool(m)), T.md_tree(m)])
    return [out]


# ---------------------------------------------------------------- encodings of a matrix (generation)
def _with_stored_zeros(m, zeros):
    """put explicitly stored zeros into a lil / dok / bsr matrix (their constructors drop them)"""
    fmt = m.format
    if fmt == 'lil':
        for r, c in zeros:
            if c not in m.rows[r]:
                k = sum(1 for x in m.rows[r] if x < c)
                m.rows[r].insert(k, c)
                m.data[r].insert(k, 0.0)
    elif fmt == 'dok':
        for r, c in zeros:
            if (r, c) not in m.keys():
                dict.__setitem__(m._dict if hasattr(m, '_dict') else m, (r, c), 0.0)
    return m


VARIANTS = ['array_float', 'array_int', 'array_bool', 'lists', 'triples', 'triples_zeros', 'triples_dups',
            'dict', 'dict_zeros', 'rowarrays', 'rowarrays_int', 'rowdicts', 'rowdicts_zeros', 'sparserows',
            'sparserows_zeros_unsorted', 'csr', 'csc', 'coo', 'lil', 'dok', 'bsr', 'csr_zeros_unsorted',
            'csc_zeros_unsorted', 'coo_dups_zeros', 'csr_int', 'lil_zeros', 'dok_zeros', 'bsr_zeros', 'sparserows_zeros',
            'dokrows', 'dokrows_zeros', 'mixedrows_csr_first', 'mixedrows_dok_first']


def applicable(v, M):
    integral = all(x == int(x) and abs(x) < 2 ** 50 for row in M for x in row)
    if v in ('array_int', 'rowarrays_int', 'csr_int'):
        return integral
    if v == 'array_bool':
        return all(x in (0.0, 1.0) for row in M for x in row)
    return True


def input_dtype(inp):
    k = inp[0]
    d = None
    if k in ('array', 'rowarrays'):
        d = inp[1]
    elif k == 'sparse':
        d = inp[2]
    elif k in ('sparserows', 'dokrows', 'mixedrows'):
        d = inp[2] if len(inp) > 2 else 'float64'
    if isinstance(d, list):
        return 'per-row:' + ('narrow-first' if np_dtype(d[0]) != np.float64 else 'wide-first')
    return _ALIAS.get(d, d) if d else None


def encode_matrix(rng, v, M):
    """the matrix M in input variant v; every form that carries a dtype gets one in which all its values
    (and the cell sums) are exactly representable: float64/32/16, int8..64, uint8..64, bool"""
    inp = _encode_matrix(rng, v, M)
    k = inp[0]
    if k not in ('array', 'rowarrays', 'sparse', 'sparserows', 'dokrows', 'mixedrows'):
        return inp
    if v in ('array_int', 'array_bool', 'rowarrays_int', 'csr_int') and rng.random() < 0.5:
        return inp
    if k in ('rowarrays', 'sparserows', 'dokrows', 'mixedrows') and len(M) > 1 and rng.random() < 0.45:
        # rows of DIFFERENT dtypes: a narrow one that holds its own row exactly, float64 for the others;
        # narrow first (the first row must not decide for the others) or last
        sparse = k != 'rowarrays'
        es = entries_of(inp)
        per = []
        for i in range(len(M)):
            rv = [e[2] for e in es if e[0] == i] + ([x for x in M[i]] if not sparse else [])
            ok = [d for d in DTYPES if d != 'float64' and dtype_fits(d, rv or [0.0], sparse)]
            per.append(rng.choice(ok) if ok else 'float64')
        n_narrow = rng.randint(1, len(M) - 1)
        if rng.random() < 0.6:
            # prefer a first dtype that could NOT hold the later rows
            rv0 = [e[2] for e in es if e[0] == 0] + ([x for x in M[0]] if not sparse else [])
            later = [e[2] for e in es if e[0] != 0] + [x for row in M[1:] for x in row]
            clash = [d for d in DTYPES if d != 'float64' and dtype_fits(d, rv0 or [0.0], sparse) and not dtype_fits(d, later, sparse)]
            if clash and rng.random() < 0.8:
                per[0] = rng.choice(clash)
            dts = per[:n_narrow] + ['float64'] * (len(M) - n_narrow)
        else:
            dts = ['float64'] * (len(M) - n_narrow) + per[len(M) - n_narrow:]
        inp = list(inp)
        if k == 'rowarrays':
            inp[1] = dts
        else:
            inp = inp[:2] + [dts]
        return inp
    vals = [e[2] for e in entries_of(inp)] + [x for row in M for x in row]
    dt = pick_dtype(rng, vals, sparse=k not in ('array', 'rowarrays'))
    inp = list(inp)
    if k in ('array', 'rowarrays'):
        inp[1] = dt
    elif k == 'sparse':
        inp[2] = dt
    else:
        inp = inp[:2] + [dt]
    return inp


def _encode_matrix(rng, v, M):
    """the matrix M (list of rows of floats, at least 1x1) in input variant v"""
    nr, nc = len(M), len(M[0])
    cells = [(i, j, M[i][j]) for i in range(nr) for j in range(nc)]
    nz = [e for e in cells if e[2] != 0]

    def some_zeros():
        z = [e for e in cells if e[2] == 0]
        rng.shuffle(z)
        return z[:rng.randint(1, 3)]
    if v in ('array_float', 'array_int', 'array_bool'):
        return ['array', v.split('_')[1], nr, nc, M]
    if v == 'lists':
        return ['lists', M]
    if v == 'triples':
        es = list(nz)
        rng.shuffle(es)
        return ['triples', es]
    if v == 'triples_zeros':
        es = nz + some_zeros()
        rng.shuffle(es)
        return ['triples', es]
    if v == 'triples_dups':
        es = []
        for i, j, x in nz + some_zeros():
            if rng.random() < 0.5:
                a = rng.choice([1.0, -2.0, 0.5, x])
                es += [(i, j, a), (i, j, x - a)]
            else:
                es.append((i, j, x))
        rng.shuffle(es)
        return ['triples', es]
    if v == 'dict':
        return ['dict', nz]
    if v == 'dict_zeros':
        es = nz + some_zeros()
        rng.shuffle(es)
        return ['dict', es]
    if v in ('rowarrays', 'rowarrays_int'):
        return ['rowarrays', 'int' if v.endswith('int') else 'float', M]
    if v in ('rowdicts', 'rowdicts_zeros'):
        rows = [[(0, j, M[i][j]) for j in range(nc) if M[i][j] != 0] for i in range(nr)]
        if v == 'rowdicts_zeros':
            for i, j, x in some_zeros():
                rows[i].append((0, j, x))
        return ['rowdicts', rows]
    if v in ('sparserows', 'sparserows_zeros_unsorted', 'sparserows_zeros'):
        rows = []
        for i in range(nr):
            cv = [(j, M[i][j]) for j in range(nc) if M[i][j] != 0]
            if v != 'sparserows':
                cv += [(j, 0.0) for j in range(nc) if M[i][j] == 0][:rng.randint(1, 2)]
                cv.sort()
            if v == 'sparserows_zeros_unsorted':
                rng.shuffle(cv)
            rows.append([nc, cv])
        return ['sparserows', rows]
    if v in ('dokrows', 'dokrows_zeros', 'mixedrows_csr_first', 'mixedrows_dok_first'):
        rows = []
        for i in range(nr):
            cv = [(j, M[i][j]) for j in range(nc) if M[i][j] != 0]
            if v == 'dokrows_zeros':
                cv += [(j, 0.0) for j in range(nc) if M[i][j] == 0][:1]
            lay = 'dok' if v.startswith('dokrows') else rng.choice(['dok', 'csr', 'lil', 'coo', 'csc'])
            rows.append([lay, nc, cv])
        if v == 'mixedrows_csr_first':
            rows[0][0] = rng.choice(['csr', 'lil', 'coo'])
            if nr > 1:
                rows[rng.randrange(1, nr)][0] = 'dok'
            return ['mixedrows', rows]
        rows[0][0] = 'dok'
        if v == 'mixedrows_dok_first' and nr > 1:
            rows[rng.randrange(1, nr)][0] = rng.choice(['csr', 'lil', 'coo'])
        return ['dokrows', rows]
    if v in SPARSE_LAYOUTS:
        return ['sparse', v, 'float', nr, nc, nz]
    if v == 'csr_int':
        return ['sparse', 'csr', 'int', nr, nc, nz]
    if v in ('csr_zeros_unsorted', 'csc_zeros_unsorted'):
        es = nz + some_zeros()
        rng.shuffle(es)
        return ['sparse', v[:3], 'float', nr, nc, es]
    if v in ('lil_zeros', 'dok_zeros', 'bsr_zeros'):
        es = nz + some_zeros()
        return ['sparse', v[:3], 'float', nr, nc, es]
    if v == 'coo_dups_zeros':
        return ['sparse', 'coo', 'float', nr, nc, _encode_matrix(rng, 'triples_dups', M)[1]]
    raise ValueError(v)


def carries_shape(inp):
    """the shape the input itself states: (rows or None, columns or None)"""
    k = inp[0]
    if k == 'array':
        return inp[2], inp[3]
    if k == 'lists':
        return len(inp[1]), len(inp[1][0]) if inp[1] else 0
    if k == 'rowarrays':
        return len(inp[2]), len(inp[2][0]) if inp[2] else 0
    if k == 'rowdicts':
        return len(inp[1]), None
    if k == 'sparserows':
        return len(inp[1]), inp[1][0][0] if inp[1] else 0
    if k in ('dokrows', 'mixedrows'):
        return len(inp[1]), inp[1][0][1] if inp[1] else 0
    if k == 'sparse':
        return inp[3], inp[4]
    return None, None


def entries_of(inp):
    """plain reference: the (row, col, value) entries an input describes"""
    k = inp[0]
    if k == 'array':
        return [(i, j, v) for i, r in enumerate(inp[4]) for j, v in enumerate(r)]
    if k == 'lists':
        return [(i, j, v) for i, r in enumerate(inp[1]) for j, v in enumerate(r)]
    if k in ('triples', 'dict'):
        return [tuple(e) for e in inp[1]]
    if k == 'rowarrays':
        return [(i, j, v) for i, r in enumerate(inp[2]) for j, v in enumerate(r)]
    if k == 'rowdicts':
        return [(i, j, v) for i, row in enumerate(inp[1]) for _, j, v in row]
    if k == 'sparserows':
        return [(i, c, v) for i, (w, cv) in enumerate(inp[1]) for c, v in cv]
    if k in ('dokrows', 'mixedrows'):
        return [(i, c, v) for i, (lay, w, cv) in enumerate(inp[1]) for c, v in cv]
    if k == 'sparse':
        return [tuple(e) for e in inp[5]]
    raise ValueError(k)


# ---------------------------------------------------------------- implementation
def _ctor(inp, oids, sids, omd, smd, ty):
    data, kw = make_input(inp)
    return Table(data, list(oids), list(sids), _md(omd), _md(smd), type=ty, **kw)


def _md(md):
    return None if md is None else [dict(m) if isinstance(m, dict) else m for m in md]


def _res(f):
    try:
        t = f()
    except Exception as e:
        return ['err', T.err_code(e) if not isinstance(e, (IndexError, AssertionError)) else 9]
    return ['ok', T.norm_snap(T.snapshot(t))]


def zero_queries(t):
    """the queries that look at STORED entries, asked before anything reads .nnz (which would
    eliminate explicit zeros): stored-entry count, nonzero(), min per axis and overall"""
    stored = int(t.matrix_data.nnz)
    nz = sorted([str(o), str(s)] for o, s in t.nonzero())

    def mn(ax):
        try:
            r = t.min(ax)
        except ValueError:
            return 'no-entry'            # a vector without any non-zero entry
        return [float(x) for x in np.atleast_1d(r)]
    return [stored, nz, [mn('observation'), mn('sample'), mn('whole')]]


def freeze(x):
    """deep, comparable picture of an input object (arrays, lists, dicts, scipy matrices of any layout)"""
    if isinstance(x, np.ndarray):
        return ['nd', str(x.dtype), list(x.shape), x.tolist()]
    if isinstance(x, dict) and not hasattr(x, 'format'):
        return ['dict', sorted([list(k), float(v)] for k, v in x.items())]
    if isinstance(x, (list, tuple)):
        return ['list', [freeze(v) for v in x]]
    if hasattr(x, 'format'):
        f = x.format
        if f in ('csr', 'csc', 'bsr'):
            body = [x.indptr.tolist(), x.indices.tolist(), x.data.tolist()]
        elif f == 'coo':
            body = [x.row.tolist(), x.col.tolist(), x.data.tolist()]
        elif f == 'lil':
            body = [[list(r) for r in x.rows], [list(d) for d in x.data]]
        elif f == 'dok':
            body = sorted([list(map(int, k)), float(v)] for k, v in x.items())
        else:
            body = x.toarray().tolist()
        return ['sp', f, str(x.dtype), list(x.shape), body]
    return x


def reuse_check(data, kw, t, oids, sids, omd, smd, ty, before, snap):
    """the table owns its data: work on it in place, then the caller's input object must be unchanged
    and must construct the described table once more -> [input untouched, second table as described]"""
    t.transform(lambda v, i, m: v * 8 + 1, axis='observation', inplace=True)
    t.transform(lambda v, i, m: v * 2, axis='sample', inplace=True)
    untouched = int(freeze(data) == before)
    again = Table(data, list(oids), list(sids), _md(omd), _md(smd), type=ty, **kw)
    return [untouched, int(T.norm_snap(T.snapshot(again)) == snap)]


def _ctor_obs(inp, oids, sids, omd, smd, ty, full=True):
    """construct; ask the zero-sensitive queries of the fresh table and of a twin built from the plain
    dense array of the described values -> observable, table"""
    data, kw = make_input(inp)
    before = freeze(data)
    t = Table(data, list(oids), list(sids), _md(omd), _md(smd), type=ty, **kw)
    t._c17_reuse = (data, kw, before)
    if not full or t.shape != (len(oids), len(sids)) or len(set(oids)) != len(oids) or len(set(sids)) != len(sids):
        # (possibly) accepted only because the profile was changed: per-id queries make no sense, no well-formed twin
        stored = int(t.matrix_data.nnz)
        t._c17_reuse = None
        return ['ok', T.norm_snap(T.snapshot(t)), [stored, 1, 1, 1, int(str(t.matrix_data.dtype) == 'float64'), 1, 1]], t
    zq = zero_queries(t)
    snap = T.norm_snap(T.snapshot(t))
    dense = np.array(snap['mat'], dtype=float).reshape(t.shape)
    twin = Table(dense, list(oids), list(sids), _md(omd), _md(smd), type=ty)
    zt = zero_queries(twin)
    cells = sorted([str(oids[i]), str(sids[j])] for i in range(dense.shape[0]) for j in range(dense.shape[1]) if dense[i, j] != 0)
    dtype_ok = int(str(t.matrix_data.dtype) == 'float64')
    eq_twin = int(bool(t == twin) and bool(twin == t) and not bool(t != twin) and not bool(twin != t))
    try:
        json.loads(t.to_json('c17'))
        json_ok = 1
    except Exception:
        json_ok = 0
    return ['ok', snap, [zq[0], int(zq[1] == cells), int(zq[2] == zt[2]), int(zq == zt), dtype_ok, eq_twin, json_ok]], t


def reset_profile():
    E.seterr(empty='ignore', obssize='raise', sampsize='raise', obsdup='raise', sampdup='raise',
             obsmdsize='raise', sampmdsize='raise')


def render_adj(lines):
    out = []
    for ln in lines:
        if ln[0] == 'hdr':
            out.append(HEADER)
        elif ln[0] == 'rec':
            out.append('%s\t%s\t%s' % (ln[1], ln[2], repr(float(ln[3]))))
        else:
            out.append(ln[1])
    return out


def render_uc(recs):
    out = []
    for k, q, t, desc in recs:
        if k == '#':
            out.append('# ' + q)
        elif k == '':
            out.append('')
        else:
            # desc is a bit mask (True == 1): 1 = the query label carries a description, 2 = the target label does
            d = int(desc)
            qq = q + (' some description' if d & 1 else '')
            tt = t + (' seed description 2' if d & 2 and t != '*' else '')
            out.append('\t'.join([k, '0', '100', '98.5', '+', '0', '0', '100M', qq, tt]))
    return out


def uc_lines(c):
    """the text of a uc case: the rendered records, or (key 'raw') those with one H/S/L line damaged: a field
    missing or blank, which only the text-level model (coq/Model/UcText.v uc_record) can see"""
    lines = render_uc(c['recs'])
    raw = c.get('raw')
    if raw is not None:
        j, how = raw
        f = lines[j].split('\t')
        if how == 0:
            f = f[:9]
        elif how == 1:
            f = f[:5]
        elif how == 2:
            f[8] = '  '
        else:
            f[9] = ' '
        lines[j] = '\t'.join(f)
    return lines


def render_fasta(pairs):
    out = []
    for new, old in pairs:
        out.append('>%s %s extra' % (new, old))
        out.append('ACGT')
    return out


class _Marker(Exception):
    pass


def _run_cli_from_uc(uc_lines, fasta_lines):
    """`biom from-uc -i in.uc -o out.biom [--rep-set-fp rep.fna]` through the real click group, in process.
    The group's close callback closes fd 1: the standard descriptors are saved and restored around the call."""
    import os
    import shutil
    import tempfile
    from biom import load_table
    from biom.cli import cli
    d = tempfile.mkdtemp(prefix='biomv-c17-')
    try:
        inp, out, fa = os.path.join(d, 'in.uc'), os.path.join(d, 'out.biom'), os.path.join(d, 'rep.fna')
        with open(inp, 'w', encoding='utf-8') as f:
            f.write('\n'.join(uc_lines) + '\n')
        args = ['from-uc', '-i', inp, '-o', out]
        if fasta_lines is not None:
            with open(fa, 'w', encoding='utf-8') as f:
                f.write('\n'.join(fasta_lines) + '\n')
            args += ['--rep-set-fp', fa]
        saved = [os.dup(k) for k in (0, 1, 2)]
        try:
            try:
                cli.main(args=args, standalone_mode=False)
                err = None
            except BaseException as e:      # click may raise SystemExit / Abort
                err = e
        finally:
            for k, fd in enumerate(saved):
                os.dup2(fd, k)
                os.close(fd)
        if err is not None:
            if isinstance(err, Exception):
                raise err
            raise RuntimeError('command left with %r' % (err,))
        return load_table(out)
    finally:
        shutil.rmtree(d, ignore_errors=True)


def run_impl(c):
    reset_profile()
    try:
        return _run_impl(c)
    except Exception as e:  # pragma: no cover
        return ['crash', type(e).__name__, str(e)[:200]]
    finally:
        reset_profile()


def _run_impl(c):
    k = c['kind']
    if k == 'forms':
        s = c['spec']
        tabs, obs = [], []
        for inp in c['inputs']:
            try:
                o, t = _ctor_obs(inp, s['oids'], s['sids'], s['omd'], s['smd'], s['type'])
                tabs.append(t)
                obs.append(o)
            except Exception as e:
                tabs.append(None)
                obs.append(['err', T.err_code(e)])
        eq = [[int(a is not None and b is not None and bool(a == b) and not bool(a != b)) for b in tabs] for a in tabs]
        reuse = []
        for t, o in zip(tabs, obs):
            if t is None or not getattr(t, '_c17_reuse', None):
                reuse.append([1, 1])
            else:
                data, kw, before = t._c17_reuse
                reuse.append(reuse_check(data, kw, t, s['oids'], s['sids'], s['omd'], s['smd'], s['type'], before, o[1]))
        return ['forms', obs, eq, reuse]
    if k == 'ctor':
        if c.get('after_errstate'):
            # an errstate block that was left by an exception: the rejection must not depend on that history
            try:
                with E.errstate(**dict(c['after_errstate'])):
                    raise _Marker()
            except _Marker:
                pass
        if c.get('profile'):
            E.seterr(**dict(c['profile']))
        import warnings
        with warnings.catch_warnings():
            warnings.simplefilter('ignore')
            try:
                o, t = _ctor_obs(c['inp'], c['oids'], c['sids'], c['omd'], c['smd'], c['type'], full=not c.get('profile'))
            except Exception as e:
                return ['err', T.err_code(e)]
            if getattr(t, '_c17_reuse', None) and not c.get('profile'):
                data, kw, before = t._c17_reuse
                o.append(reuse_check(data, kw, t, c['oids'], c['sids'], c['omd'], c['smd'], c['type'], before, o[1]))
            else:
                o.append([1, 1])
            return o
    if k == 'adj':
        lines = render_adj(c['lines'])
        via = c['via']
        if via == 'list':
            arg = [x + '\n' for x in lines[:-1]] + lines[-1:] if lines else []
        elif via == 'tuple':
            arg = tuple(lines)
        elif via == 'text':
            arg = '\n'.join(lines) + ('\n' if lines and lines[-1] == '' else '')
        else:
            arg = io.StringIO('\n'.join(lines) + ('\n' if lines else ''))
        return _res(lambda: Table.from_adjacency(arg))
    if k == 'uc':
        lines = uc_lines(c)
        via = c['via']
        if via == 'parse_list':
            return _uc(lambda: parse_uc([x + '\n' for x in lines]))
        if via == 'parse_file':
            return _uc(lambda: parse_uc(io.StringIO('\n'.join(lines) + '\n')))
        if via == 'cli':
            return _uc(lambda: _run_cli_from_uc(lines, None if c.get('fasta') is None else render_fasta(c['fasta'])))
        fasta = None if c.get('fasta') is None else io.StringIO('\n'.join(render_fasta(c['fasta'])) + '\n')
        return _uc(lambda: _from_uc(io.StringIO('\n'.join(lines) + '\n'), fasta))
    raise ValueError(k)


def _uc(f):
    try:
        t = f()
    except Exception as e:
        return ['err', T.err_code(e)]
    d = t.matrix_data.toarray()
    return ['ok', [str(x) for x in t.ids(axis='observation')], [str(x) for x in t.ids()],
            [[float(v) for v in row] for row in d.tolist()] if len(t.ids()) else [[] for _ in t.ids(axis='observation')],
            [t.metadata(axis='observation') is None, t.metadata() is None, t.type is None]]


# ---------------------------------------------------------------- wire
def _universe(c):
    if c['kind'] == 'forms':
        return list(c['spec']['oids']) + list(c['spec']['sids'])
    if c['kind'] == 'ctor':
        return list(c['oids']) + list(c['sids'])
    if c['kind'] == 'adj':
        return [x for ln in c['lines'] if ln[0] == 'rec' for x in (ln[1], ln[2])]
    return []


def enc_profile(p):
    return [[enc_str(k), enc_str(v)] for k, v in (p or [])]


def encode(c):
    cd = T.Coder(_universe(c))
    k = c['kind']
    if k == 'forms':
        s = c['spec']
        return [9, [[0, [], input_tree(inp, cd), [cd.id(i) for i in s['oids']], [cd.id(i) for i in s['sids']],
                     md_in_tree(s['omd']), md_in_tree(s['smd']), cd.ttype(s['type'])] for inp in c['inputs']]]
    if k == 'ctor':
        return [0, enc_profile(c.get('profile')), input_tree(c['inp'], cd), [cd.id(i) for i in c['oids']],
                [cd.id(i) for i in c['sids']], md_in_tree(c['omd']), md_in_tree(c['smd']), cd.ttype(c['type'])]
    if k == 'adj':
        ls = []
        for ln in c['lines']:
            if ln[0] == 'hdr':
                ls.append([0])
            elif ln[0] == 'rec':
                ls.append([1, cd.id(ln[1]), cd.id(ln[2]), cd.val(ln[3])])
            else:
                ls.append([2, int(ln[2])])
        return [1, [], ls]
    kinds = {'H': 0, 'S': 1, 'L': 2}
    recs = [[kinds.get(kk, 3), enc_str(q), enc_str(t)] for kk, q, t, _ in c['recs']]
    fa = c.get('fasta') if c['via'] in ('from_uc', 'cli') else None
    # the lines as the importer reads them; mode 0: the records above are these lines (the model is run at both
    # levels and must agree with itself), 1: a damaged line, the text-level model alone
    return [2, recs, [] if fa is None else [[[enc_str(old), enc_str(new)] for new, old in fa]],
            [enc_str(x + '\n') for x in uc_lines(c)], 0 if c.get('raw') is None else 1]


def dec_result(tree, cd, zq=False):
    if tree[0] == -1:
        return ['err', tree[1]]
    raw = cd.untable(tree[1])
    snap = T.norm_snap(raw)
    if not zq:
        return ['ok', snap]
    # every converter ends with eliminate_zeros (the constructor does it for a scipy matrix): the
    # table holds exactly the non-zero cells of the model's matrix and answers like its dense twin
    return ['ok', snap, [sum(1 for row in raw['mat'] for v in row if v != 0), 1, 1, 1, 1, 1, 1]] + ([[1, 1]] if zq == 'ctor' else [])


def decode(tree, c):
    cd = T.Coder(_universe(c))
    k = c['kind']
    if k == 'forms':
        obs = [dec_result(t, cd, True) for t in tree]
        eq = [[int(a[0] == 'ok' and b[0] == 'ok' and a == b) for b in obs] for a in obs]
        return ['forms', obs, eq, [[1, 1] for _ in obs]]
    if k == 'ctor':
        return dec_result(tree, cd, 'ctor')
    if k == 'adj':
        return dec_result(tree, cd)
    if tree == [77]:
        return ['model-levels-disagree', 'from_uc on the records != from_uc_text on the lines']
    if tree[0] == -1:
        return ['err', tree[1]]
    o, s, m = tree[1]
    return ['ok', [bytes(x).decode('utf-8') for x in o], [bytes(x).decode('utf-8') for x in s],
            [[float(v) for v in row] for row in m] if s else [[] for _ in o], [True, True, True]]


# ---------------------------------------------------------------- generation
def gen_forms(rng):
    vk = rng.choice([None, None, 'small', 'counts'])
    spec = T.rand_spec(rng, layout=False, values=vk)
    if rng.random() < 0.15:
        spec['mat'] = [[float(rng.random() < 0.5) for _ in r] for r in spec['mat']]
    spec['layout'] = []
    M = spec['mat']
    rowlists = False
    if len(M) > 1 and rng.random() < 0.12:
        # a first row of 0/1 (fits bool, uint8, int8 ...) above rows with fractions, negatives and counts
        M[0] = [float(rng.random() < 0.6) for _ in M[0]]
        for i in range(1, len(M)):
            M[i] = [rng.choice([0.0, 0.25, 5.75, -3.0, 40.0, 300.0]) for _ in M[i]]
        rowlists = True
    vs = [v for v in VARIANTS if applicable(v, M)]
    n = rng.randint(3, 5)
    picks = [rng.choice(vs) for _ in range(n)]
    if rowlists:
        picks[0] = 'rowarrays'
        picks[1] = rng.choice(['sparserows', 'rowarrays', 'mixedrows_csr_first', 'dokrows'])
    return {'kind': 'forms', 'spec': spec, 'variants': picks, 'inputs': [encode_matrix(rng, v, M) for v in picks]}


NONMAPPINGS = ['zz', 5, [1, 2], 1.5, True]
FALSY_NONMAPPINGS = ['', 0, [], False]


def gen_ctor(rng):
    spec = T.rand_spec(rng, layout=False, max_r=3, max_c=3, alphabet=rng.choice(['short', 'short', 'punct', 'cjk']))
    M = spec['mat']
    vs = [v for v in VARIANTS if applicable(v, M)]
    v = rng.choice(vs)
    inp = encode_matrix(rng, v, M)
    oids, sids = list(spec['oids']), list(spec['sids'])
    omd, smd = spec['omd'], spec['smd']
    mal = []
    n = rng.choice([1, 1, 1, 2])
    for _ in range(n):
        m = rng.choice(['dup', 'dup', 'few', 'many', 'zero_beyond', 'md_short', 'md_long', 'md_empty_wrong', 'md_nonmap',
                        'md_nonmap_falsy', 'md_all_falsy', 'md_empty_list', 'none'])
        ax = rng.choice(['o', 's'])
        ids = oids if ax == 'o' else sids
        if m == 'dup':
            if len(ids) >= 2:
                i, j = rng.sample(range(len(ids)), 2)
                ids[j] = ids[i]
            elif ids:
                ids.append(ids[0])
        elif m == 'few':
            if len(ids) > 1 or (ids and rng.random() < 0.3):
                ids.pop(rng.randrange(len(ids)))
            else:
                m = 'none'
        elif m == 'many':
            ids.insert(rng.randint(0, len(ids)), 'extra%d' % rng.randint(0, 9))
        elif m == 'zero_beyond':
            # the ONLY thing wrong: an explicitly given zero at a coordinate that has no id
            if inp[0] not in ('triples', 'dict', 'rowdicts'):
                v = rng.choice(['triples', 'triples_zeros', 'triples_dups', 'dict', 'dict_zeros', 'rowdicts', 'rowdicts_zeros'])
                inp = encode_matrix(rng, v, M)
            if inp[0] in ('triples', 'dict'):
                r_, c_ = (len(oids) + rng.randint(0, 1), rng.randrange(max(1, len(sids)))) if ax == 'o' else \
                    (rng.randrange(max(1, len(oids))), len(sids) + rng.randint(0, 1))
                inp = [inp[0], [list(e) for e in inp[1]] + [[r_, c_, 0.0]]]
                rng.shuffle(inp[1])
            elif inp[0] == 'rowdicts' and inp[1]:
                rows = [[list(e) for e in row] for row in inp[1]]
                rows[rng.randrange(len(rows))].append([0, len(sids) + rng.randint(0, 1), 0.0])
                inp = ['rowdicts', rows]
            else:
                m = 'none'
        elif m.startswith('md_') and not ids:
            m = 'none'
        elif m.startswith('md_'):
            n_ids = len(ids)
            base = [{'k': 'v%d' % i} for i in range(n_ids)]
            if m == 'md_short':
                md = base[:-1] if n_ids > 1 else []
            elif m == 'md_long':
                md = base + [{'k': 'more'}]
            elif m == 'md_empty_wrong':
                md = [rng.choice([{}, None]) for _ in range(n_ids + rng.choice([-1, 1, 2]))] if n_ids > 1 else [{}, None]
            elif m == 'md_nonmap':
                md = list(base)
                md[rng.randrange(n_ids)] = rng.choice(NONMAPPINGS)
            elif m == 'md_nonmap_falsy':
                md = list(base)
                if n_ids > 1:
                    md[rng.randrange(n_ids)] = rng.choice(FALSY_NONMAPPINGS)
                else:
                    md = [rng.choice(NONMAPPINGS)]
            elif m == 'md_all_falsy':
                md = [rng.choice(FALSY_NONMAPPINGS + [None, {}]) for _ in range(n_ids)]
                if all(x is None or x == {} and isinstance(x, dict) for x in md):
                    md[0] = ''
            else:
                md = []
            if ax == 'o':
                omd = md
            else:
                smd = md
        mal.append(m + ':' + ax)
    profile = None
    if rng.random() < 0.2:
        kinds = rng.sample(['empty', 'obssize', 'sampsize', 'obsdup', 'sampdup', 'obsmdsize', 'sampmdsize'], rng.randint(1, 2))
        profile = [[kk, rng.choice(['ignore', 'ignore', 'warn', 'raise'])] for kk in kinds]
    after = None
    if profile is None and rng.random() < 0.25:
        kinds = rng.sample(['obssize', 'sampsize', 'obsdup', 'sampdup', 'obsmdsize', 'sampmdsize'], rng.randint(1, 3))
        after = [['all', 'ignore']] if rng.random() < 0.3 else [[kk, 'ignore'] for kk in kinds]
    return {'kind': 'ctor', 'variant': v, 'inp': inp, 'oids': oids, 'sids': sids, 'omd': omd, 'smd': smd,
            'type': spec['type'], 'mal': mal, 'profile': profile, 'after_errstate': after}


def gen_adj(rng):
    alpha = rng.choice([['a', 'b', 'c'], ['o1', 'o10', 'o2'], ['Z', 'a', '_'], ['é', 'e', 'f'], ['x y', 'x', 'y']])
    obs = rng.sample(alpha, rng.randint(1, 3))
    smp = [s + '.s' for s in rng.sample(alpha, rng.randint(1, 3))]
    lines = []
    for _ in range(rng.randint(1, 8)):
        lines.append(['rec', rng.choice(obs), rng.choice(smp), rng.choice([0.0, 1.0, 1.0, 2.0, 3.5, -1.0, 0.015625, 40.0, -3.5])])
    if rng.random() < 0.5:
        lines.insert(0, ['hdr'])
    r = rng.random()
    if r < 0.08:
        lines.insert(rng.randint(0, len(lines)), ['junk', '# a comment', False])
    elif r < 0.14:
        lines.insert(rng.randint(1, len(lines)), ['junk', '', False])
    elif r < 0.18:
        lines.insert(rng.randint(0, len(lines)), ['junk', 'a\tb\tnot-a-number', True])
    elif r < 0.21:
        lines.insert(rng.randint(1, len(lines)), ['hdr'])
    elif r < 0.24:
        lines = [ln for ln in lines if ln[0] == 'hdr'][:1]
    return {'kind': 'adj', 'lines': lines, 'via': rng.choice(['list', 'tuple', 'text', 'file'])}


def gen_uc(rng):
    samples = rng.sample(['s1', 's2', 'a_b', 'a', 'x_y_z'], rng.randint(1, 3))
    seeds = []
    recs = []
    n = rng.randint(1, 10)
    seq = [0]

    def query():
        seq[0] += 1
        if rng.random() < 0.04:
            return 'nounderscore%d' % seq[0]
        return '%s_%d' % (rng.choice(samples), seq[0])
    for _ in range(n):
        r = rng.random()
        if r < 0.3 or not seeds:
            if rng.random() < 0.15:
                q = 'lib%d' % len(seeds) if rng.random() < 0.5 else 'lib_%d' % len(seeds)
                recs.append(['L', q, '*', False])
            else:
                q = query()
                recs.append(['S', q, '*', rng.random() < 0.2])
            seeds.append(q)
        elif r < 0.75:
            recs.append(['H', query(), rng.choice(seeds), rng.choice([0, 0, 0, 0, 1, 2, 2, 3])])
        elif r < 0.82:
            recs.append(['N', query(), '*', False])
        elif r < 0.88:
            recs.append(['C', rng.choice(seeds), '*', False])
        elif r < 0.94:
            recs.append(['#', 'comment %d' % seq[0], '', False])
        else:
            recs.append(['', '', '', False])
    via = rng.choice(['parse_list', 'parse_file', 'from_uc', 'from_uc', 'cli', 'cli'])
    fasta = None
    if via in ('from_uc', 'cli') and rng.random() < 0.7:
        seedset = []
        for s in seeds:
            if s not in seedset:
                seedset.append(s)
        fasta = [['otu%d' % i, s] for i, s in enumerate(seedset)]
        r = rng.random()
        if r < 0.15 and fasta:
            fasta.pop(rng.randrange(len(fasta)))
        elif r < 0.3 and len(fasta) > 1:
            fasta[1][0] = fasta[0][0]
        elif r < 0.4 and fasta:
            fasta.append(['otuX', fasta[0][1]])
        elif r < 0.5:
            fasta.append(['otuY', 'unrelated_9'])
    c = {'kind': 'uc', 'recs': recs, 'via': via, 'fasta': fasta}
    live = [j for j, r in enumerate(recs) if r[0] in ('H', 'S', 'L')]
    if live and rng.random() < 0.08:
        c['raw'] = [rng.choice(live), rng.randrange(4)]
    return c


def fixed_zero_cases():
    """the malformed sweep on ALL-ZERO matrices, at the head of every run: every form that states a shape
    (dense ndarray in several dtypes, nested lists, row arrays, and every sparse form WITHOUT stored entries),
    with too few / too many ids on each axis and on both; the id counts decide nothing, the shape does"""
    out = []
    for nr, nc in ((2, 3), (3, 1), (1, 1)):
        Z = [[0.0] * nc for _ in range(nr)]
        forms = [('array_%s' % dt, ['array', dt, nr, nc, Z]) for dt in ('float64', 'int64', 'bool', 'float32', 'uint8')]
        forms += [('lists', ['lists', Z]), ('rowarrays', ['rowarrays', 'float64', Z]), ('rowarrays_int', ['rowarrays', 'int8', Z]),
                  ('sparserows', ['sparserows', [[nc, []] for _ in range(nr)]]),
                  ('dokrows', ['dokrows', [['dok', nc, []] for _ in range(nr)]]),
                  ('mixedrows_csr_first', ['mixedrows', [['csr' if i == 0 else 'dok', nc, []] for i in range(nr)]]),
                  ('rowdicts', ['rowdicts', [[] for _ in range(nr)]]),
                  ('csr_int', ['sparse', 'csr', 'int32', nr, nc, []])]
        forms += [(lay, ['sparse', lay, 'float64', nr, nc, []]) for lay in SPARSE_LAYOUTS]
        obs = ['o%d' % i for i in range(nr)]
        smp = ['s%d' % j for j in range(nc)]
        idsets = [(obs, smp, []),
                  (obs[:-1], smp, ['few:o']), (obs + ['oX'], smp, ['many:o']),
                  (obs, smp[:-1], ['few:s']), (obs, smp + ['sX'], ['many:s']),
                  (obs + ['oX'], smp + ['sX'], ['many:o', 'many:s']), (obs[:-1], smp + ['sX'], ['few:o', 'many:s']),
                  (obs + ['oX', 'oY'], smp[:-1], ['many:o', 'few:s']),
                  # as many ids on both axes as the LONGER side of the matrix (a 2 x 3 matrix with 3 and 3 ids)
                  (['o%d' % i for i in range(max(nr, nc))], ['s%d' % j for j in range(max(nr, nc))], ['square-ids'])]
        for variant, inp in forms:
            for oids, sids, mal in idsets:
                if not oids or not sids:
                    continue
                out.append({'kind': 'ctor', 'variant': variant, 'inp': inp, 'oids': list(oids), 'sids': list(sids), 'omd': None,
                            'smd': None, 'type': None, 'mal': list(mal) + ['all-zero'], 'profile': None, 'after_errstate': None})
    return out


def gen(rng, tier):
    for c in fixed_zero_cases():
        yield c
    k = 1 if tier == 'quick' else 10
    for _ in range(800 * k):
        yield gen_forms(rng)
    for _ in range(1600 * k):
        yield gen_ctor(rng)
    for _ in range(600 * k):
        yield gen_adj(rng)
    for _ in range(600 * k):
        yield gen_uc(rng)


# ---------------------------------------------------------------- oracle (property text, plain python / numpy)
def expected_dense(inp, nr, nc):
    d = np.zeros((nr, nc))
    for r, c, v in entries_of(inp):
        d[r, c] += v
    return d.tolist()


def is_malformed(c):
    """the property's notion, for a description of a non-empty table; None = not in the property's domain"""
    oids, sids = c['oids'], c['sids']
    sr, sc = carries_shape(c['inp'])
    if sr is not None and sc is not None:
        if sr == 0 or sc == 0:           # an empty matrix (it takes the shape of the ids)
            return None
    elif not oids or not sids:           # no shape of its own and no ids on an axis: an empty table
        return None
    es = entries_of(c['inp'])
    why = []
    if len(set(oids)) != len(oids) or len(set(sids)) != len(sids):
        why.append('duplicate ids')
    if sr is not None and sr != len(oids):
        why.append('observation id count differs from the matrix')
    if sc is not None and sc != len(sids):
        why.append('sample id count differs from the matrix')
    if sr is None and any(e[0] >= len(oids) for e in es):
        why.append('a row index has no observation id')
    if sc is None and any(e[1] >= len(sids) for e in es):
        why.append('a column index has no sample id')
    for md, ids in ((c['omd'], oids), (c['smd'], sids)):
        if md is not None:
            if len(md) != len(ids):
                why.append('metadata count differs from the id count')
            if any(m is not None and not isinstance(m, dict) for m in md):
                why.append('metadata entry is not a mapping')
    return why


def reuse_fails(v, r):
    fails = []
    if not r[0]:
        fails.append('input form %s: the caller\'s input object was changed by constructing a table from it and working on that table in place' % v)
    if not r[1]:
        fails.append('input form %s: after in-place work on the first table, the same input object no longer yields the described table' % v)
    return fails


def zero_fails(v, o, mat):
    """a table built from any form stores exactly the non-zero cells and answers the queries that look at
    stored entries (nonzero, min, stored count) like the table built from the plain dense array"""
    fails = []
    if len(o) < 3:
        return fails
    stored, nz_ok, min_ok, all_ok, dtype_ok, eq_twin, json_ok = o[2]
    if not dtype_ok:
        fails.append('input form %s: the matrix of the table is not float64' % v)
    if not eq_twin:
        fails.append('input form %s: the table does not compare equal (==, != in both directions) to the table built from the float64 dense array' % v)
    if not json_ok:
        fails.append('input form %s: to_json of the constructed table fails' % v)
    want = sum(1 for row in mat for x in row if x != 0)
    if stored != want:
        fails.append('input form %s: the fresh table stores %d entries for %d non-zero cells (explicit zeros kept)' % (v, stored, want))
    if not nz_ok:
        fails.append('input form %s: nonzero() does not list exactly the non-zero cells' % v)
    if not min_ok:
        fails.append('input form %s: min() differs from the table built from the dense array' % v)
    return fails[:3]


def oracle(c, obs):
    if obs and obs[0] == 'crash':
        return ['implementation crashed: %s' % (obs,)]
    k = c['kind']
    fails = []
    if k == 'forms':
        want = T.norm_snap(T.spec_content(c['spec']))
        from .core import canon
        want = canon(want)
        for v, o in zip(c['variants'], obs[1]):
            if o[0] != 'ok':
                fails.append('accepted input form %s was refused (error %s)' % (v, o[1]))
            elif o[1] != want:
                fails.append('input form %s does not yield the described table' % v)
            else:
                fails += zero_fails(v, o, c['spec']['mat'])
        for v, r in zip(c['variants'], obs[3] if len(obs) > 3 else []):
            fails += reuse_fails(v, r)
        for i, row in enumerate(obs[2]):
            for j, e in enumerate(row):
                if not e and obs[1][i][0] == 'ok' and obs[1][j][0] == 'ok':
                    fails.append('tables built from forms %s and %s do not compare equal' % (c['variants'][i], c['variants'][j]))
        return fails[:3]
    if k == 'ctor':
        if c.get('profile'):
            return []
        why = is_malformed(c)
        if why is None:
            return []
        if why:
            if obs != ['err', 1]:
                fails.append('malformed input (%s) was %s' % ('; '.join(why), 'accepted' if obs[0] == 'ok'
                                                               else 'refused with error %s instead of TableException' % obs[1]))
        else:
            nr, nc = len(c['oids']), len(c['sids'])
            if obs[0] != 'ok':
                fails.append('well-formed input (%s) was refused with error %s' % (c['variant'], obs[1]))
            else:
                from .core import canon
                if canon(obs[1]['mat']) != canon(expected_dense(c['inp'], nr, nc)):
                    fails.append('input form %s does not yield the described values' % c['variant'])
                else:
                    fails += zero_fails(c['variant'], obs, expected_dense(c['inp'], nr, nc))
                    if len(obs) > 3:
                        fails += reuse_fails(c['variant'], obs[3])
        return fails
    if k == 'adj':
        recs = [ln for ln in c['lines'] if ln[0] == 'rec']
        clean = all(ln[0] == 'rec' for ln in c['lines'][1:]) and c['lines'] and c['lines'][0][0] in ('hdr', 'rec') and recs
        if not clean:
            if obs[0] == 'ok':
                fails.append('adjacency input with a comment / blank / malformed line or without records produced a table')
            return fails
        if obs[0] != 'ok':
            return ['well-formed adjacency input refused (error %s)' % obs[1]]
        oids = sorted({r[1] for r in recs})
        sids = sorted({r[2] for r in recs})
        want = [[sum(r[3] for r in recs if r[1] == o and r[2] == s) for s in sids] for o in oids]
        t = obs[1]
        if t['oids'] != oids or t['sids'] != sids:
            fails.append('adjacency ids are not the sorted id sets')
        elif [[float(v) for v in row] for row in t['mat']] != [[float(v) for v in row] for row in want]:
            fails.append('adjacency cell is not the sum of the records naming that pair')
        if t['omd'] is not None or t['smd'] is not None:
            fails.append('adjacency table carries metadata')
        return fails
    # uc
    live = [r for r in c['recs'] if r[0] in ('H', 'S', 'L')]
    bad = any(r[0] in ('H', 'S') and '_' not in r[1] for r in live)
    obs_ids, samp_ids, counts = [], [], {}
    for kk, q, t, _ in live:
        o = q if t == '*' else t
        if o not in obs_ids:
            obs_ids.append(o)
        if kk in ('H', 'S') and '_' in q:
            s = q[:q.rindex('_')]
            if s not in samp_ids:
                samp_ids.append(s)
            counts[(o, s)] = counts.get((o, s), 0) + 1
    if c.get('raw') is not None:
        if obs[0] == 'ok':
            fails.append('uc input with an H/S/L line that lacks the query or the target field produced a table')
        return fails
    if bad:
        if obs[0] == 'ok':
            fails.append('uc input with a query label without underscore produced a table')
        return fails
    fa = c.get('fasta') if c['via'] in ('from_uc', 'cli') else None
    if fa is not None:
        mp = {}
        for new, old in fa:
            mp[old] = new
        if any(o not in mp for o in obs_ids) or len({mp[o] for o in obs_ids}) != len(obs_ids):
            if obs[0] == 'ok':
                fails.append('from-uc with an incomplete or colliding representative set produced a table')
            return fails
        names = [mp[o] for o in obs_ids]
    else:
        names = obs_ids
    if obs[0] != 'ok':
        return ['well-formed uc input refused (error %s)' % obs[1]]
    want = [[float(counts.get((o, s), 0)) for s in samp_ids] for o in obs_ids]
    if obs[1] != names or obs[2] != samp_ids:
        fails.append('uc ids are not the seeds / sample prefixes in order of first appearance')
    elif [[float(v) for v in row] for row in obs[3]] != want:
        fails.append('uc cell is not the number of H/S records of that (seed, sample)')
    return fails


def nontrivial(c):
    k = c['kind']
    if k == 'forms':
        M = c['spec']['mat']
        return len(set(c['variants'])) >= 2 and len(M) * len(M[0]) > 1 and any(v for r in M for v in r)
    if k == 'ctor':
        return bool(is_malformed(c))
    if k == 'adj':
        pairs = [(ln[1], ln[2]) for ln in c['lines'] if ln[0] == 'rec']
        return len(pairs) != len(set(pairs))
    pairs = [(r[1][:r[1].rindex('_')] if '_' in r[1] else r[1], r[1] if r[2] == '*' else r[2]) for r in c['recs'] if r[0] in ('H', 'S')]
    return len(pairs) != len(set(pairs))


def classify(c):
    k = c['kind']
    tags = ['kind:' + k]
    if k == 'forms':
        tags += ['form:' + v for v in c['variants']]
        tags += ['dtype:' + d for d in (input_dtype(i) for i in c['inputs']) if d]
    elif k == 'ctor':
        tags.append('form:' + c['variant'])
        if input_dtype(c['inp']):
            tags.append('dtype:' + input_dtype(c['inp']))
        tags += ['malformed:' + m.split(':')[0] for m in c['mal']]
        if c.get('profile'):
            tags.append('profile:changed')
        if c.get('after_errstate'):
            tags.append('history:errstate-left-by-exception')
        why = is_malformed(c)
        tags.append('domain:outside' if why is None else ('domain:malformed' if why else 'domain:wellformed'))
    elif k == 'adj':
        tags.append('via:' + c['via'])
        tags.append('header:%s' % (bool(c['lines']) and c['lines'][0][0] == 'hdr'))
        if any(ln[0] == 'junk' for ln in c['lines']):
            tags.append('junk-line')
    else:
        tags.append('via:' + c['via'])
        tags += ['rec:' + (r[0] or 'blank') for r in c['recs']]
        if c.get('fasta') is not None and c['via'] in ('from_uc', 'cli'):
            tags.append('fasta')
    return tags


def shrink(c):
    k = c['kind']
    if k == 'forms':
        for i in range(len(c['inputs'])):
            if len(c['inputs']) > 1:
                yield dict(c, inputs=c['inputs'][:i] + c['inputs'][i + 1:], variants=c['variants'][:i] + c['variants'][i + 1:])
        s = c['spec']
        if s.get('omd') or s.get('smd'):
            yield dict(c, spec=dict(s, omd=None, smd=None))
    elif k == 'ctor':
        if c.get('profile'):
            yield dict(c, profile=None)
        if c['omd'] is not None:
            yield dict(c, omd=None)
        if c['smd'] is not None:
            yield dict(c, smd=None)
    elif k == 'adj':
        ls = c['lines']
        for i in range(len(ls)):
            yield dict(c, lines=ls[:i] + ls[i + 1:])
    else:
        rs = c['recs']
        for i in range(len(rs)):
            yield dict(c, recs=rs[:i] + rs[i + 1:])
        if c.get('fasta'):
            yield dict(c, fasta=None)


# no known findings: F29, F31, F32 were repaired (their witnesses stay in corpus/C17 as regression cases)
SIGNATURES = {}
