"""C03: classic tab-separated export / import round trip.

Three kinds of cases
  rt    a table (spec + layout recipe) is exported with Table.to_tsv / `_convert(to_tsv=True)`,
        the text is fed back as list of lines / handle / path / gzip path / through
        `_convert(... process_obs_metadata=...)` (thorough: `biom convert` subprocesses);
        observable = the exported lines + the table read back (ids in order, matrix, the
        re-imported observation-metadata column)
  text  raw lines (valid text mutated: blank lines, comments, missing '#', short/long rows, bad
        values, duplicate ids, kept terminators) fed to Table.from_tsv: reader vs model
  contract  the number-text contract on 20 000 random doubles and the white-space / line-break
        character classes of the model compared with CPython over every code point
The model side is coq/Run/RunC03.v (extracted)."""
import codecs
import copy
import gzip
import io
import json
import math
import os
import pathlib
import shutil
import struct
import subprocess
import sys
import tempfile

import numpy as np

from biom import Table, load_table
from biom.parse import parse_biom_table
from biom.cli.table_converter import _convert

from . import tables
from .clirun import biom as run_biom
from .core import REPO

ID = 'C03'
RULE = ('rt: tables.rand_spec (1..4 x 1..4, every layout recipe, id alphabets short/long/punct(quotes, inner '
        'blanks)/latin1/cjk/astral, density 0..1 incl. all-zero and single row/column) with values drawn from '
        'counts, 1e-07, 17-digit fractions, 1e+300, negatives; optionally one taxonomy (list) or text category '
        "exported through '; '.join / identity and re-imported through sc_separated / naive; read back as list of "
        'lines, handle, path, gzip path, _convert; plus a not-promised stream (id starting with #, edge blanks, '
        'numeric-looking metadata, missing category, header key without metadata). text: mutated valid texts. '
        'non-trivial = non-empty matrix text actually parsed (rt in the promised domain, or text with >= 1 data line); '
        'distinct by case hash')
TRUSTED = ['hand-written model coq/Model/Tsv.v tied to biom/table.py (delimited_self, _extract_data_from_tsv, from_tsv) '
           'by this correspondence run',
           'number text: str(numpy.float64) / float() are oracles of the model; their contract (float(str(x)) == x, '
           'no white space, no tab) is validated on 20 000 random doubles per run',
           'Python str.strip / str.isspace character class and universal-newline line iteration (validated against '
           'CPython over every code point per run)',
           'extraction (ExtrOcamlBasic only) + ocaml/driver_tail.ml, cross-checked against vm_compute on a sample']
from . import regen_tsv as _regen_tsv
# py2v_tsv: regenerate coq/Gen/TsvGen.v (Table.delimited_self) and coq/Gen/TsvReadGen.v (header search of _extract_data_from_tsv) from the source first
regenerate = _regen_tsv.hook(TRUSTED, ['tsv', 'tsvread', 'tsvread2'], 'coq/Model/Tsv.v', 'coq/Proofs/GenBridgeTsvProofs.v, coq/Proofs/GenBridgeTsvReadProofs.v, coq/Proofs/GenBridgeTsvRead2Proofs.v')
ASSUMPTIONS = ['-0.0 is not a table value (scipy drops it at construction)',
               'a carriage return counts as a newline (ids with CR are outside the domain)',
               'text reaches the reader through Python text-mode iteration (universal newlines) or str.split("\\n")']

SPACES = [9, 10, 11, 12, 13, 28, 29, 30, 31, 32, 133, 160, 5760] + list(range(8192, 8203)) + [8232, 8233, 8239, 8287, 12288]
LINEBREAKS = [10, 11, 12, 13, 28, 29, 30, 133, 8232, 8233]
VALUES = [1e-07, 1.2345678901234567, 1e+300, -2.5, -1e-07, 0.1, 3.0, 40.0, 123456789.0, 5e-324, 2.0 ** 53 + 2, -7.0]
FORMATTERS = {'sc_separated': lambda x: '; '.join(x), 'naive': lambda x: x}
PROCESSORS = {'sc_separated': lambda x: [e.strip() for e in x.split(';')], 'naive': lambda x: x}


# ------------------------------------------------------------------ text helpers
def cps(s):
    return [ord(ch) for ch in s]


def uncps(t):
    return ''.join(chr(c) for c in t)


def fval(v):
    v = float(v)
    return v if math.isfinite(v) else str(v)


def isfloat(s):
    try:
        float(s)
        return True
    except ValueError:
        return False


# ------------------------------------------------------------------ implementation side
def snap_back(t):
    md = t.metadata(axis='observation')
    return {'oids': [str(i) for i in t.ids(axis='observation')], 'sids': [str(i) for i in t.ids()],
            'mat': [[fval(v) for v in row] for row in np.asarray(t.matrix_data.todense(), dtype=float).reshape(t.shape).tolist()]
            if t.shape[0] and t.shape[1] else [[] for _ in range(t.shape[0])],
            'omd': None if md is None else [tables.plain(dict(m)) for m in md]}


def err(e):
    return ['err', tables.err_code(e)]


def run_rt(c):
    spec, o = c['spec'], c['opts']
    tmp = None
    try:
        t = build_case(c)
        fmt_name = o['fmt']
        try:
            if c['mode'] in ('convert', 'cli'):
                tmp = tempfile.mkdtemp(prefix='c03_')
            if c['mode'] == 'convert':
                p = os.path.join(tmp, c.get('fname', 't.tsv'))
                _convert(t, p, to_tsv=True, header_key=o['hk'], output_metadata_id=o['hv'],
                         tsv_metadata_formatter=fmt_name)
                with open(p, encoding='utf-8', newline='') as fh:
                    text = fh.read()
            elif c['mode'] == 'cli':
                text = cli_export(t, c, tmp)
            else:
                ocn = o.get('ocn', '#OTU ID')
                text = t.to_tsv(header_key=o['hk'], header_value=o['hv'], metadata_formatter=FORMATTERS[fmt_name],
                                observation_column_name=ocn)
                if c.get('direct'):
                    buf = io.StringIO()
                    t.to_tsv(header_key=o['hk'], header_value=o['hv'], metadata_formatter=FORMATTERS[fmt_name],
                             observation_column_name=ocn, direct_io=buf)
                    if buf.getvalue() != text + '\n':
                        return {'lines': ['direct_io output differs from the returned text'], 'back': None}
        except Exception as e:
            return {'lines': err(e), 'back': err(e)}
        obs = {'lines': text.split('\n')}
        proc = PROCESSORS[c['process']]
        try:
            mode = c['mode']
            if mode == 'lines':
                # the same list object is imported twice (second time through parse_biom_table when the
                # identity is wanted): the import must not consume or change the caller's list
                lst = text.split('\n')
                try:
                    t2 = Table.from_tsv(lst, None, None, proc)
                finally:
                    obs['list_unchanged'] = lst == text.split('\n')
                first = snap_back(t2)
                try:
                    t3 = parse_biom_table(lst) if c['process'] == 'naive' else Table.from_tsv(lst, None, None, proc)
                    obs['second_import_same'] = snap_back(t3) == first and lst == text.split('\n')
                except Exception as e:
                    obs['second_import_same'] = 'failed: %s' % type(e).__name__
            elif mode == 'handle':
                tmp = tmp or tempfile.mkdtemp(prefix='c03_')
                t2 = import_handle(c, t, text, proc, tmp)
            elif mode in ('path', 'gz'):
                tmp = tmp or tempfile.mkdtemp(prefix='c03_')
                # the file NAME is independent of the real compression: the reader has to look at the content
                if mode == 'path':
                    p = os.path.join(tmp, c.get('fname', 't.tsv'))
                    with open(p, 'w', encoding='utf-8', newline='') as fh:
                        fh.write(text)
                else:
                    p = os.path.join(tmp, c.get('fname', 't.tsv.gz'))
                    with gzip.open(p, 'wb') as fh:
                        fh.write(text.encode('utf-8'))
                # the path as str, pathlib.Path or bytes (os.fsencode): all three name a file
                pt = c.get('ptype', 'str')
                t2 = load_table(pathlib.Path(p) if pt == 'pathlib' else os.fsencode(p) if pt == 'bytes' else p)
                if c['process'] != 'naive':
                    # the path loader applies the identity; the inverse processing is `biom convert`'s
                    t2 = reprocess(t2, c['process'], tmp)
            elif mode == 'convert':
                p = os.path.join(tmp, c.get('fname', 't.tsv'))
                pt = c.get('ptype', 'str')
                t2 = reprocess(load_table(pathlib.Path(p) if pt == 'pathlib' else os.fsencode(p) if pt == 'bytes' else p),
                               c['process'] if o['hk'] else None, tmp)
            elif mode == 'cli':
                t2 = cli_import(os.path.join(tmp, c.get('fname', 't.tsv')), c, tmp)
                md = t2.metadata()
                obs['extra'] = {'type': t2.type, 'smd': None if md is None else [tables.plain(dict(m)) for m in md],
                                'file': c.pop('_written', None)}
            else:
                raise ValueError(mode)
            obs['back'] = snap_back(t2)
        except Exception as e:
            obs['back'] = err(e)
        return obs
    finally:
        c.pop('_written', None)
        if tmp:
            shutil.rmtree(tmp, ignore_errors=True)


class DuckHandle:
    """a reader that works by duck typing only (no io.IOBase in its ancestry)"""

    def __init__(self, text):
        self._f = io.StringIO(text)

    def read(self, n=-1):
        return self._f.read(n)

    def readline(self):
        return self._f.readline()

    def seek(self, pos, whence=0):
        return self._f.seek(pos, whence)

    def tell(self):
        return self._f.tell()

    def __iter__(self):
        return iter(self._f)


def import_handle(c, t, text, proc, tmp):
    """the text as a readable handle of one of several kinds, given to from_tsv / parse_biom_table / load_table"""
    kind, api = c.get('hkind', 'stringio'), c.get('api', 'from_tsv')
    o = c['opts']
    closers = []
    if kind == 'stringio':
        h = io.StringIO(text)
    elif kind == 'duck':
        h = DuckHandle(text)
    elif kind in ('namedtemp', 'namedtemp_direct'):
        h = tempfile.NamedTemporaryFile('w+', encoding='utf-8', newline='', dir=tmp)
        closers.append(h)
        if kind == 'namedtemp':
            h.write(text)
        else:
            t.to_tsv(header_key=o['hk'], header_value=o['hv'], metadata_formatter=FORMATTERS[o['fmt']],
                     observation_column_name=o.get('ocn', '#OTU ID'), direct_io=h)
        h.seek(0)
    elif kind == 'spooled':
        h = tempfile.SpooledTemporaryFile(max_size=1 << 20, mode='w+', encoding='utf-8', newline='')
        closers.append(h)
        h.write(text)
        h.seek(0)
    elif kind in ('codecs', 'file'):
        p = os.path.join(tmp, 'h.tsv')
        with open(p, 'w', encoding='utf-8', newline='') as fh:
            fh.write(text)
        h = codecs.open(p, encoding='utf-8') if kind == 'codecs' else open(p, encoding='utf-8')
        closers.append(h)
    else:
        raise ValueError(kind)
    try:
        if api == 'parse_biom_table':
            return parse_biom_table(h)
        if api == 'load_table':
            return load_table(h)
        return Table.from_tsv(h, None, None, proc)
    finally:
        for x in closers:
            x.close()


def build_case(c):
    """tables.build + optionally an explicitly stored zero: the cell zero_at is built non-zero and
    then overwritten with 0.0 through the public matrix_data object (scipy keeps the entry)"""
    spec = c['spec']
    z = c.get('zero_at')
    if not z:
        return tables.build(spec)
    i, j = z
    mat = [list(row) for row in spec['mat']]
    mat[i][j] = 7.0
    t = tables.build(dict(spec, mat=mat))
    t.matrix_data[i, j] = 0.0
    return t


def reprocess(t2, process, tmp):
    """TSV -> BIOM as `biom convert --process-obs-metadata` does it, then load the written file"""
    p = os.path.join(tmp, 'back.biom')
    if os.path.exists(p):
        os.remove(p)
    _convert(t2, p, to_json=True, process_obs_metadata=process)
    return load_table(p)


TABLE_TYPES = ['OTU table', 'Pathway table', 'Function table', 'Ortholog table', 'Gene table', 'Metabolite table',
               'Taxon table', 'Table']
SMAP_COLS = ['pH', 'site']


def plain_id(i):
    """an id a default mapping file can name: MetadataMap.from_file removes quotes and edge blanks"""
    return '"' not in i and i == i.strip() and not i.startswith('#') and i != ''


def smap_lines(c):
    sids = c['spec']['sids']
    return ['#SampleID\t' + '\t'.join(SMAP_COLS)] + ['%s\t%d.5\tsite %d' % (i, k, k) for k, i in enumerate(sids)]


def omap_lines(c):
    return ['#OTUID\tconf'] + ['%s\t0.%d' % (i, k) for k, i in enumerate(c['spec']['oids'])]


def cli_export(t, c, tmp):
    """`biom convert --to-tsv` on a JSON or HDF5 file of the table"""
    o, k = c['opts'], c['cli']
    src = os.path.join(tmp, 'src.biom')
    if k['src'] == 'json':
        with open(src, 'w', encoding='utf-8') as fh:
            fh.write(t.to_json('c03'))
    else:
        import h5py
        with h5py.File(src, 'w') as fh:
            t.to_hdf5(fh, 'c03')
    out = os.path.join(tmp, c.get('fname', 't.tsv'))
    args = ['convert', '-i', src, '-o', out, '--to-tsv', '--tsv-metadata-formatter', o['fmt']]
    if o['hk'] is not None:
        args += ['--header-key', o['hk'], '--output-metadata-id', o['hv']]
    run_biom(args, k['how'])
    with open(out, encoding='utf-8', newline='') as fh:
        return fh.read()


def cli_import(path, c, tmp):
    """`biom convert` of the TSV file back to JSON / HDF5 with every option the wrapper forwards"""
    o, k = c['opts'], c['cli']
    out = os.path.join(tmp, 'back.biom')
    args = ['convert', '-i', path, '-o', out, '--to-json' if k['back'] == 'json' else '--to-hdf5']
    if o['hk']:
        args += ['--process-obs-metadata', c['process']]
    if k['table_type']:
        args += ['--table-type', k['table_type']]
    if k['smap']:
        p = os.path.join(tmp, 'smap.txt')
        with open(p, 'w', encoding='utf-8', newline='') as fh:
            fh.write(''.join(x + '\n' for x in smap_lines(c)))
        args += ['-m', p]
    if k['omap']:
        p = os.path.join(tmp, 'omap.txt')
        with open(p, 'w', encoding='utf-8', newline='') as fh:
            fh.write(''.join(x + '\n' for x in omap_lines(c)))
        args += ['--observation-metadata-fp', p]
    if k['collapsed'] == 'samples':
        args.append('--collapsed-samples')
    if k['collapsed'] == 'observations':
        args.append('--collapsed-observations')
    run_biom(args, k['how'])
    import h5py
    c['_written'] = 'hdf5' if h5py.is_hdf5(out) else 'json'
    return load_table(out)


def cli_expected(c, omd):
    """what the options of the import command add to the re-imported table: (type, sample metadata,
    observation metadata), from the documentation of the options, in plain python"""
    k = c['cli']
    ttype = k['table_type'] or 'Table'
    smd = None
    if k['smap']:
        smd = [{'pH': '%d.5' % n, 'site': 'site %d' % n} if plain_id(i) else {} for n, i in enumerate(c['spec']['sids'])]
        if all(not e for e in smd):
            smd = None
    if k['omap'] and omd is not None:
        omd = [dict(e, conf='0.%d' % n) for n, e in enumerate(omd)]
    if k['collapsed'] == 'samples' and smd is not None:
        smd = [{'collapsed_ids': sorted(e)} for e in smd]
    if k['collapsed'] == 'observations' and omd is not None:
        omd = [{'collapsed_ids': sorted(e)} for e in omd]
    return ttype, smd, omd


def run_text(c):
    lst = list(c['lines'])
    try:
        first = {'back': snap_back(Table.from_tsv(lst, None, None, PROCESSORS[c['process']]))}
    except Exception as e:
        first = {'back': err(e)}
    try:
        again = {'back': snap_back(Table.from_tsv(lst, None, None, PROCESSORS[c['process']]))}
    except Exception as e:
        again = {'back': err(e)}
    first['list_unchanged'] = lst == list(c['lines'])
    first['second_import_same'] = again == {'back': first['back']}
    return first


def run_contract(c):
    if c['what'] == 'num':
        rng = np.random.default_rng(c['seed'])
        bits = rng.integers(0, 2 ** 64, size=c['n'], dtype=np.uint64)
        xs = bits.view(np.float64)
        xs = xs[np.isfinite(xs)]
        extra = np.array(VALUES + [float(k) for k in range(0, 50)] + [k / 64 for k in range(1, 200, 7)], dtype=np.float64)
        bad = 0
        n = 0
        for x in np.concatenate([xs, extra]):
            s = str(x)
            n += 1
            if not s or float(s) != x or s != s.strip() or any(ch.isspace() for ch in s) or '\t' in s:
                bad += 1
        return {'what': 'num', 'bad': bad, 'enough': bool(n >= c['n'] * 0.99)}
    ws = [k for k in range(sys.maxunicode + 1) if chr(k).isspace()]
    st = [k for k in range(sys.maxunicode + 1) if ('a' + chr(k)).strip() == 'a']
    lb = [k for k in range(sys.maxunicode + 1) if len(('a' + chr(k) + 'b').splitlines()) > 1]
    univ = [k for k in range(0, 0x3000) if len(list(io.TextIOWrapper(io.BytesIO(('a' + chr(k) + 'b').encode('utf-8')),
                                                                      encoding='utf-8'))) > 1]
    return {'what': 'ws', 'spaces': ws == SPACES and st == SPACES, 'linebreaks': lb == LINEBREAKS, 'universal': univ == [10, 13]}


def run_impl(c):
    try:
        if c['kind'] == 'rt':
            return run_rt(c)
        if c['kind'] == 'text':
            return run_text(c)
        return run_contract(c)
    except Exception as e:  # pragma: no cover
        return ['crash', type(e).__name__, str(e)[:200]]


# ------------------------------------------------------------------ wire
class Book:
    """per-case coding of doubles: 0 for zero, 1.. for the other values in order of appearance"""

    def __init__(self):
        self.code, self.back = {}, {0: 0.0}

    def of(self, v):
        v = float(v)
        if v == 0:
            return 0
        k = struct.pack('<d', v) if not math.isnan(v) else b'nan'
        if k not in self.code:
            self.code[k] = len(self.code) + 1
            self.back[self.code[k]] = v
        return self.code[k]


def md_tree(x):
    if x is None:
        return [0]
    if isinstance(x, str):
        return [4, cps(x)]
    if isinstance(x, (list, tuple)):
        return [5, [md_tree(v) for v in x]]
    return [9]


def md_untree(t):
    if t[0] == 0:
        return None
    if t[0] == 4:
        return uncps(t[1])
    if t[0] == 5:
        return [md_untree(v) for v in t[1]]
    return '<opaque>'


def book_for(c):
    """(book, parse table, fmt table) computed from the case alone"""
    b = Book()
    cand = []
    fmt = []
    if c['kind'] == 'rt':
        spec, o = c['spec'], c['opts']
        seen = set()
        for row in spec['mat']:
            for v in row:
                k = b.of(v)
                if k not in seen:
                    seen.add(k)
                    s = str(np.float64(v))
                    fmt.append([k, cps(s)])
                    cand.append(s)
        cand += list(spec['oids']) + list(spec['sids'])
        if o['hv'] is not None:
            cand.append(o['hv'])
        cand.append(o.get('ocn', '#OTU ID'))
        if o['hk'] and spec.get('omd'):
            for e in spec['omd']:
                try:
                    cand.append(FORMATTERS[o['fmt']]((e or {}).get(o['hk'])))
                except TypeError:
                    pass
        cand = [x for x in cand if isinstance(x, str)]
        cand = [p for x in cand for p in x.split('\t')]
    else:
        for line in c['lines']:
            cand += line.split('\t')
    texts = []
    for x in cand:
        for y in (x, x.strip()):
            if y not in texts:
                texts.append(y)
    parse = []
    for x in texts:
        try:
            parse.append([cps(x), b.of(float(x))])
        except ValueError:
            pass
    return b, parse, fmt


SPLITTER = {'lines': 0, 'handle': 0, 'path': 1, 'gz': 1, 'convert': 1, 'cli': 1}
KEEP = {'lines': 0, 'handle': 1, 'path': 1, 'gz': 1, 'convert': 1, 'cli': 1}


def encode(c):
    if c['kind'] == 'contract':
        return [1, [], [], [], 0]
    b, parse, fmt = book_for(c)
    if c['kind'] == 'text':
        return [1, parse, fmt, [cps(x) for x in c['lines']], 0 if c['process'] == 'naive' else 1]
    spec, o = c['spec'], c['opts']
    omd = spec.get('omd')
    if omd is not None and all(not m for m in omd):
        omd = None      # the constructor turns all-empty metadata into None (table.py:505-511)
    tab = [[cps(i) for i in spec['oids']], [cps(i) for i in spec['sids']],
           [[b.of(v) for v in row] for row in spec['mat']],
           [] if omd is None else [[[[cps(k), md_tree(v)] for k, v in (e or {}).items()] for e in omd]]]
    ot = [[] if o['hk'] is None else [cps(o['hk'])], [] if o['hv'] is None else [cps(o['hv'])],
          0 if o['fmt'] == 'sc_separated' else 1, cps(o.get('ocn', '#OTU ID'))]
    splitter = SPLITTER[c['mode']]
    if c['mode'] == 'handle' and c.get('hkind', 'stringio') in ('namedtemp', 'namedtemp_direct', 'spooled', 'codecs', 'file'):
        splitter = 1                  # a real text-mode file: universal newlines
    return [0, parse, fmt, tab, ot, 0 if c['process'] == 'naive' else 1, splitter, KEEP[c['mode']]]


def dec_table(t, b):
    oids, sids, mat, omd = t
    return {'oids': [uncps(x) for x in oids], 'sids': [uncps(x) for x in sids],
            'mat': [[fval(b.back.get(k, float('nan'))) for k in row] for row in mat] if oids and sids else [[] for _ in oids],
            'omd': None if not omd else [{uncps(k): md_untree(v) for k, v in e} for e in omd[0]]}


def dec_result(t, f):
    return ['err', t[1]] if t[0] == -1 else f(t[1])


def decode(tree, c):
    if c['kind'] == 'contract':
        if c['what'] == 'num':
            return {'what': 'num', 'bad': 0, 'enough': True}
        return {'what': 'ws', 'spaces': True, 'linebreaks': True, 'universal': True}
    b, _, _ = book_for(c)
    if c['kind'] == 'text':
        # the model is a function of the lines: importing twice gives the same, the list is a value
        return {'back': dec_result(tree[0], lambda t: dec_table(t, b)), 'list_unchanged': True, 'second_import_same': True}
    lines = dec_result(tree[0], lambda ls: [uncps(x) for x in ls])
    back = dec_result(tree[1], lambda t: dec_table(t, b))
    out = {'lines': lines, 'back': back}
    if c['mode'] == 'lines' and isinstance(lines, list) and (not lines or lines[0] != 'err'):
        out['list_unchanged'] = True
        if isinstance(back, dict):
            out['second_import_same'] = True
    if c['mode'] == 'cli' and isinstance(back, dict):
        # the options of the real command the Coq model does not know: reference values
        ttype, smd, omd = cli_expected(c, back['omd'])
        back['omd'] = omd
        out['extra'] = {'type': ttype, 'smd': smd, 'file': c['cli']['back']}
    return out


# ------------------------------------------------------------------ oracle (the property text)
def ws_edge(s):
    return s != s.strip()


def id_ok(s):
    return (len(s) > 0 and '\t' not in s and '\n' not in s and '\r' not in s and not s.startswith('#')
            and not ws_edge(s))


def promised(c):
    """is the case inside the property's domain?  ('rt' only)"""
    spec, o = c['spec'], c['opts']
    if not spec['oids'] or not spec['sids']:
        return False
    if not all(id_ok(i) for i in spec['oids'] + spec['sids']):
        return False
    if len(set(spec['oids'])) != len(spec['oids']) or len(set(spec['sids'])) != len(spec['sids']):
        return False
    if not all(math.isfinite(v) for row in spec['mat'] for v in row):
        return False
    ocn = o.get('ocn', '#OTU ID')
    if '\t' in ocn or '\n' in ocn or '\r' in ocn:
        return False
    if o['hk'] is None and o['hv'] is None:
        return True
    if not o['hk'] or not o['hv'] or spec.get('omd') is None:
        return False
    hv = o['hv']
    if '\t' in hv or '\n' in hv or '\r' in hv or hv != hv.rstrip():
        return False
    texts = []
    for e in spec['omd']:
        v = (e or {}).get(o['hk'])
        if o['fmt'] == 'sc_separated':
            if not (isinstance(v, list) and v and all(isinstance(x, str) for x in v)):
                return False
            s = '; '.join(v)
            inv = [x.strip() for x in s.strip().split(';')]
        else:
            if not isinstance(v, str):
                return False
            s = v
            inv = s.strip()
        if c['process'] != o['fmt'] or inv != v:
            return False                      # the processing function must invert the formatter
        if '\t' in s or '\n' in s or '\r' in s:
            return False
        texts.append(s)
    return any(not isfloat(s.strip()) for s in texts)


def oracle(c, obs):
    if isinstance(obs, list) and obs and obs[0] == 'crash':
        return ['harness/implementation crashed: %s' % obs]
    if c['kind'] == 'contract':
        if c['what'] == 'num':
            return [] if obs['bad'] == 0 and obs['enough'] else ['number-text contract broken: %s' % obs]
        return [] if obs['spaces'] and obs['linebreaks'] and obs['universal'] else ['character classes differ: %s' % obs]
    if c['kind'] == 'text':
        fails = []
        if obs.get('list_unchanged') is not True:
            fails.append('Table.from_tsv changed the list of lines it was given')
        if obs.get('second_import_same') is not True:
            fails.append('a second import from the same list of lines gave something else: %r' % (obs.get('second_import_same'),))
        return fails
    if c['mode'] == 'lines' and isinstance(obs, dict) and obs.get('list_unchanged') is False:
        return ['Table.from_tsv changed the list of lines it was given']
    if not promised(c):
        return []
    spec, o = c['spec'], c['opts']
    fails = []
    back = obs['back']
    if not isinstance(back, dict):
        return ['a table of the domain did not come back from its own TSV text (%s via %s)' % (back, c['mode'])]
    if c['mode'] == 'lines' and obs.get('second_import_same') is not True:
        fails.append('a second import from the same list of lines gave something else: %r' % (obs.get('second_import_same'),))
    if back['oids'] != list(spec['oids']):
        fails.append('observation ids %r came back as %r' % (spec['oids'], back['oids']))
    if back['sids'] != list(spec['sids']):
        fails.append('sample ids %r came back as %r' % (spec['sids'], back['sids']))
    want = [[fval(v) for v in row] for row in spec['mat']]
    if [[float(v) for v in row] for row in back['mat']] != [[float(v) for v in row] for row in want]:
        fails.append('matrix %r came back as %r' % (want, back['mat']))
    want_omd = None
    if o['hk']:
        got = back['omd']
        exp = [(e or {}).get(o['hk']) for e in spec['omd']]
        want_omd = [{o['hv']: v} for v in exp]
        collapsed = c['mode'] == 'cli' and c['cli']['collapsed'] == 'observations'
        if not collapsed and (got is None or [m.get(o['hv']) for m in got] != exp):
            fails.append('category %r exported as %r came back as %r, expected %r' % (o['hk'], o['hv'], got, exp))
    if c['mode'] == 'cli':
        ttype, smd, omd = cli_expected(c, want_omd)
        ex = obs.get('extra') or {}
        if ex.get('type') != ttype:
            fails.append('biom convert --table-type %r wrote type %r, expected %r' % (c['cli']['table_type'], ex.get('type'), ttype))
        if ex.get('file') != c['cli']['back']:
            fails.append('biom convert --to-%s wrote a %s file' % (c['cli']['back'], ex.get('file')))
        if ex.get('smd') != smd:
            fails.append('biom convert -m: sample metadata %r, expected %r' % (ex.get('smd'), smd))
        if (c['cli']['omap'] or c['cli']['collapsed'] == 'observations') and back['omd'] != omd:
            fails.append('biom convert --observation-metadata-fp/--collapsed-observations: observation metadata %r, expected %r'
                         % (back['omd'], omd))
    return fails[:3]


# ------------------------------------------------------------------ generation
EDGE_IDS = ['a b', 'x"y', "q'r", 'é1', '样本', 's t', 'a#b', 'o;1', 'p|q', '1', '2.5', 'nan', 'inf', '1e5', '-',
            'O\U0001d11e', 'a\x0cb', 's t', 'a\x85b', 'None', 'a,b', 'a\\b', '(k)']
TAXA = ['k__A', 'p__B', 'c__C d', 'g__é', 'x"y', 's__样', 'Root', '5', 'k__Bacteria']


def rand_values(rng, spec):
    kind = rng.choice(['keep', 'mixed', 'mixed', 'tiny', 'huge', 'neg'])
    if kind == 'keep':
        return
    pool = {'mixed': VALUES, 'tiny': [1e-07, -1e-07, 5e-324, 0.1], 'huge': [1e+300, 2.0 ** 53 + 2, 123456789.0],
            'neg': [-2.5, -7.0, -1e-07]}[kind]
    spec['mat'] = [[rng.choice(pool) if v != 0 else 0.0 for v in row] for row in spec['mat']]


def rand_tax(rng):
    tax = [rng.choice(TAXA) for _ in range(rng.randint(1, 3))]
    if rng.random() < 0.3:
        # an empty level in the middle, at the end or at the start of the hierarchy
        tax.insert(rng.choice([0, len(tax), rng.randint(0, len(tax))]), '')
        if rng.random() < 0.2:
            tax.append('')
    return tax


def gen_rt(rng, tier, promised_only=False):
    r = rng.random()
    shape = {}
    if r < 0.12:
        shape = dict(min_c=1, max_c=1)
    elif r < 0.24:
        shape = dict(min_r=1, max_r=1)
    spec = tables.rand_spec(rng, md='none', ttype=None, **shape)
    rand_values(rng, spec)
    if rng.random() < 0.25:
        # sprinkle edge ids (still TSV-safe)
        for ax in ('oids', 'sids'):
            ids = spec[ax]
            for i in range(len(ids)):
                if rng.random() < 0.4:
                    cand = rng.choice(EDGE_IDS)
                    if cand not in ids:
                        ids[i] = cand
    opts = {'hk': None, 'hv': None, 'fmt': 'sc_separated'}
    process = 'naive'
    r = rng.random()
    n = len(spec['oids'])
    if r < 0.3:
        key = rng.choice(['taxonomy', 'tax onomy', 'Tâxon'])
        spec['omd'] = [{key: rand_tax(rng)} for _ in range(n)]
        if rng.random() < 0.3:
            for e in spec['omd']:
                e['other'] = 'x'
        opts = {'hk': key, 'hv': rng.choice([key, 'taxonomy', 'Consensus Lineage', 'tâx']), 'fmt': 'sc_separated'}
        process = 'sc_separated'
    elif r < 0.42:
        key = 'note'
        spec['omd'] = [{key: rng.choice(['abc', 'x y', 'é;z', 'k__A; p__B', 'seven']) + str(i)} for i in range(n)]
        opts = {'hk': key, 'hv': rng.choice([key, 'Note X']), 'fmt': 'naive'}
        process = 'naive'
    elif r < 0.5:
        # metadata present but not exported
        spec['omd'] = [{'taxonomy': rand_tax(rng)} for _ in range(n)]
    modes = ['lines', 'lines', 'handle', 'handle', 'path', 'gz', 'convert']
    mode = rng.choice(modes)
    c = {'kind': 'rt', 'spec': spec, 'opts': opts, 'process': process, 'mode': mode}
    zeros = [(i, j) for i, row in enumerate(spec['mat']) for j, v in enumerate(row) if v == 0]
    if zeros and rng.random() < 0.3:
        c['zero_at'] = list(rng.choice(zeros))
    if mode in ('lines', 'handle', 'path', 'gz') and rng.random() < 0.35:
        # observation_column_name: the corner cell of the header line (R / pandas write an empty one)
        opts['ocn'] = rng.choice(['', '', ' ', 'Taxon', 'x y', '#', ' #x', 'OTU ID', '#NAME'])
    if mode == 'handle':
        # handles of several classes; most are NOT io.IOBase subclasses and work by duck typing only
        breaks = any(ch in i for i in spec['oids'] + spec['sids'] for ch in '\x0b\x0c\x1c\x1d\x1e\x85\u2028\u2029')
        kinds = ['stringio', 'duck', 'namedtemp', 'namedtemp_direct', 'spooled', 'file'] + ([] if breaks else ['codecs'])
        c['hkind'] = rng.choice(kinds)
        apis = ['from_tsv']
        if process == 'naive':
            apis += ['parse_biom_table', 'parse_biom_table']
            if c['hkind'] in ('stringio', 'file', 'spooled'):
                apis.append('load_table')          # load_table takes io.IOBase handles, everything else is a path
        c['api'] = rng.choice(apis)
    if mode in ('path', 'convert'):
        # plain text under any name, gzip under any name: the reader has to sniff the content
        c['fname'] = rng.choice(['t.tsv', 't.tsv', 't.tsv.gz', 't.gz', 't.txt', 't'])
    if mode == 'gz':
        c['fname'] = rng.choice(['t.tsv.gz', 't.tsv.gz', 't.tsv', 't.gz', 't'])
    if mode in ('path', 'gz', 'convert'):
        c['ptype'] = rng.choice(['str', 'pathlib', 'pathlib', 'bytes'])
    if mode in ('lines', 'handle') and rng.random() < 0.3:
        c['direct'] = True
    if c['mode'] not in ('lines', 'handle') and not promised(c):
        # e.g. a taxonomy made of numeric-looking names only: the file-based paths go through
        # `biom convert`, which refuses to process metadata that was read as a sample column
        c['mode'] = mode = rng.choice(['lines', 'handle'])
        c.pop('fname', None)
        c.pop('ptype', None)
    if promised_only or mode == 'convert' or rng.random() < 0.7:
        return c
    # ---- not-promised stream: the model must still agree with the code
    spec = c['spec']
    m = rng.choice(['hash_id', 'lead_blank', 'trail_blank_sid', 'numeric_md', 'mixed_md', 'md_edge_blank',
                    'missing_key', 'key_without_md', 'hv_only', 'empty_hv', 'wrong_process', 'linebreak_id', 'empty_id'])
    c['malformed'] = m
    if m == 'hash_id':
        spec['oids'][rng.randrange(len(spec['oids']))] = '#x%d' % rng.randint(0, 9)
    elif m == 'lead_blank':
        i = rng.randrange(len(spec['oids']))
        spec['oids'][i] = rng.choice([' ', ' ', '　']) + spec['oids'][i]
    elif m == 'trail_blank_sid':
        spec['sids'][-1] = spec['sids'][-1] + rng.choice([' ', ' ', '\x0c'])
    elif m == 'linebreak_id':
        i = rng.randrange(len(spec['sids']))
        spec['sids'][i] = spec['sids'][i][:1] + rng.choice(['\x0c', '\x0b', '\x1c', '\x85', ' ']) + spec['sids'][i][1:]
    elif m == 'empty_id':
        spec['sids'][rng.randrange(len(spec['sids']))] = ''
        if len(set(spec['sids'])) != len(spec['sids']):
            return gen_rt(rng, tier, True)
    elif m in ('numeric_md', 'mixed_md', 'md_edge_blank', 'missing_key', 'wrong_process'):
        key = 'taxonomy'
        if m == 'numeric_md':
            spec['omd'] = [{key: [rng.choice(['5', '1e3', '0.25', 'nan', '7'])]} for _ in range(n)]
        elif m == 'mixed_md':
            spec['omd'] = [{key: [rng.choice(['5', 'k__A'])] if i else ['k__B']} for i in range(n)]
        elif m == 'md_edge_blank':
            spec['omd'] = [{key: [' k__A', 'p__B ']} for _ in range(n)]
        elif m == 'wrong_process':
            spec['omd'] = [{key: rand_tax(rng)} for _ in range(n)]
        c['opts'] = {'hk': key, 'hv': key, 'fmt': 'sc_separated'}
        c['process'] = 'naive' if m == 'wrong_process' else 'sc_separated'
        if m == 'missing_key':
            spec['omd'] = [{key: 'abc%d' % i} if i else {'zzz': 'q'} for i in range(n)]
            c['opts'] = {'hk': key, 'hv': key, 'fmt': 'naive'}
            c['process'] = 'naive'
    elif m == 'key_without_md':
        spec['omd'] = None
        c['opts'] = {'hk': 'taxonomy', 'hv': 'taxonomy', 'fmt': 'naive'}
    elif m == 'hv_only':
        c['opts'] = {'hk': None, 'hv': 'taxonomy', 'fmt': 'naive'}
    elif m == 'empty_hv':
        spec['omd'] = [{'taxonomy': 'abc%d' % i} for i in range(n)]
        c['opts'] = {'hk': 'taxonomy', 'hv': '', 'fmt': 'naive'}
    if c['mode'] not in ('lines', 'handle'):
        c['mode'] = rng.choice(['lines', 'handle'])
    c['hkind'], c['api'] = 'stringio', 'from_tsv'
    c.pop('fname', None)
    c.pop('ptype', None)
    return c


def gen_text(rng):
    base = gen_rt(rng, 'quick', True)
    base['mode'] = 'lines'
    try:
        t = build_case(base)
        o = base['opts']
        lines = t.to_tsv(header_key=o['hk'], header_value=o['hv'], metadata_formatter=FORMATTERS[o['fmt']]).split('\n')
    except Exception:
        lines = ['#OTU ID\ts1\ts2', 'o1\t1.0\t2.0']
    lines = list(lines)
    for _ in range(rng.randint(1, 3)):
        m = rng.choice(['blank_end', 'blank_mid', 'blank_start', 'comment_mid', 'drop_first', 'no_hash', 'short_row',
                        'long_row', 'long_zero', 'bad_value', 'dup_id', 'nl', 'nl_all', 'special', 'only_header',
                        'space_value', 'second_header', 'ws_line'])
        if m == 'blank_end':
            lines.append(rng.choice(['', ' ', '\t']))
        elif m == 'blank_mid' and len(lines) > 2:
            lines.insert(rng.randint(2, len(lines)), '')
        elif m == 'blank_start':
            lines.insert(0, '')
        elif m == 'comment_mid':
            lines.insert(rng.randint(1, len(lines)), rng.choice(['# a comment', '#c\t1\t2', '#']))
        elif m == 'drop_first' and lines[0].startswith('# Constructed'):
            lines.pop(0)
        elif m == 'no_hash':
            lines = [x for x in lines if not x.startswith('# Constructed')]
            if lines and lines[0].startswith('#'):
                lines[0] = lines[0][1:]
        elif m == 'short_row' and len(lines) > 2:
            i = rng.randint(2, len(lines) - 1)
            lines[i] = '\t'.join(lines[i].split('\t')[:-1])
        elif m == 'long_row' and len(lines) > 2:
            i = rng.randint(2, len(lines) - 1)
            lines[i] += '\t' + rng.choice(['3.5', '7'])
        elif m == 'long_zero' and len(lines) > 2:
            i = rng.randint(2, len(lines) - 1)
            lines[i] += '\t0.0'
        elif m == 'bad_value' and len(lines) > 2:
            i = rng.randint(2, len(lines) - 1)
            f = lines[i].split('\t')
            if len(f) > 1:
                f[rng.randint(1, len(f) - 1)] = rng.choice(['x', '', '1,5', '--1'])
                lines[i] = '\t'.join(f)
        elif m == 'dup_id' and len(lines) > 2:
            lines.append(lines[-1])
        elif m == 'nl':
            lines = [x + '\n' for x in lines[:-1]] + [lines[-1]]
        elif m == 'nl_all':
            lines = [x + '\n' for x in lines]
        elif m == 'special' and len(lines) > 2:
            i = rng.randint(2, len(lines) - 1)
            f = lines[i].split('\t')
            if len(f) > 1:
                f[rng.randint(1, len(f) - 1)] = rng.choice(['nan', 'inf', '-inf', '1_0', ' 2.5 ', '1e400', '-0.0', '0x10', 'Infinity'])
                lines[i] = '\t'.join(f)
        elif m == 'only_header':
            lines = lines[:2]
        elif m == 'space_value' and len(lines) > 2:
            lines[-1] = lines[-1] + rng.choice([' ', '\r', ' \n'])
        elif m == 'second_header' and len(lines) > 2:
            lines.insert(2, '#OTU ID\tz1\tz2')
        elif m == 'ws_line':
            lines.insert(rng.randint(0, len(lines)), rng.choice([' \t ', ' ', '\x0c']))
    return {'kind': 'text', 'lines': lines, 'process': base['process']}


def gen_cli(rng, tier, how):
    """a promised table through the real `biom convert` command, both directions, options varied within
    what the file formats in between can carry (HDF5 pads ragged lists and wants uniform categories)"""
    for _ in range(50):
        c = gen_rt(rng, tier, True)
        if promised(c):
            break
    else:
        return c
    c.pop('direct', None)
    c['opts'].pop('ocn', None)        # the command has no option for the corner cell
    c['mode'] = 'cli'
    c.pop('hkind', None)
    c.pop('api', None)
    c.pop('ptype', None)
    c['fname'] = rng.choice(['t.tsv', 't.tsv', 't.tsv.gz', 't.gz', 't.txt', 't'])
    o, spec = c['opts'], c['spec']
    strings = o['hk'] is None or o['fmt'] == 'naive'
    all_plain_s = all(plain_id(i) for i in spec['sids'])
    all_plain_o = all(plain_id(i) for i in spec['oids'])
    k = {'how': how, 'src': 'json', 'back': 'json', 'table_type': rng.choice([None, None] + TABLE_TYPES),
         'smap': False, 'omap': False, 'collapsed': None}
    uniform = spec.get('omd') is None or len(set(tuple(sorted(e)) for e in spec['omd'])) == 1
    if uniform and (strings or o['hk'] == 'taxonomy') and rng.random() < 0.4:
        k['src'] = 'hdf5'
        if o['hk'] == 'taxonomy' and any(set(e) != {'taxonomy'} or '' in e['taxonomy'] for e in spec['omd']):
            k['src'] = 'json'          # HDF5 pads ragged taxonomy with '' and drops the padding on load
    if strings and rng.random() < 0.6:
        k['back'] = 'hdf5'
    if rng.random() < 0.5 and (k['back'] == 'json' or all_plain_s):
        k['smap'] = True
    if o['hk'] and all_plain_o and rng.random() < 0.4:
        k['omap'] = True
    if k['back'] == 'hdf5':
        r = rng.random()
        if r < 0.4 and k['smap']:
            k['collapsed'] = 'samples'
        elif r < 0.8 and o['hk']:
            k['collapsed'] = 'observations'
    c['cli'] = k
    return c


QUOTE_IDS = ['"Bacteroides" sp.', '"2 isolate', '"', '""x', '"a b"', '"o1', 'x"y"']
QUOTE_TEXTS = ['"k__A"; p__B', '"unbalanced; p__B', '"quoted"', '"']


def quote_cases():
    """fixed cases (in every tier, independent of the seed): observation ids, sample ids and exported
    metadata texts that START with a double quote, balanced and unbalanced, alone and next to ordinary
    rows, through every import and the convert command.  A reader that treats the fields as CSV
    (quote removal, a quoted field swallowing the rest of the line) changes ids or values."""
    def spec(oids, sids, mat, omd=None):
        return {'oids': oids, 'sids': sids, 'mat': mat, 'omd': omd, 'smd': None, 'type': None, 'layout': ['dense']}
    plain = {'hk': None, 'hv': None, 'fmt': 'sc_separated'}
    tables_ = [
        spec(['"Bacteroides" sp.', 'o2'], ['s1', 's2'], [[1.0, 2.5], [0.0, 3.0]]),
        spec(['"2 isolate'], ['s1', 's2', 's3'], [[1e-07, 0.0, -2.5]]),
        spec(['o1', '"', 'o3'], ['s1'], [[1.0], [2.0], [0.0]]),
        spec(['""x', '"a b"', 'x"y"', '"o1'], ['"s1"', '"s2'], [[1.0, 0.0], [0.0, 2.0], [3.0, 4.0], [0.0, 0.0]]),
    ]
    out = []
    for k, sp in enumerate(tables_):
        for mode in ('lines', 'handle', 'path', 'gz', 'convert', 'cli'):
            c = {'kind': 'rt', 'spec': copy.deepcopy(sp), 'opts': dict(plain), 'process': 'naive', 'mode': mode, 'fixed': 'quote-id'}
            out.append(c)
    # exported metadata whose text starts with a quote: a text category (naive) and a taxonomy (sc_separated)
    n_oids = ['o1', '"Bacteroides" sp.', 'o3', 'o4']
    notes = [{'note': x} for x in QUOTE_TEXTS]
    taxa = [{'taxonomy': ['"k__A"', 'p__B']}, {'taxonomy': ['"k__A', 'p__B']}, {'taxonomy': ['k__A', '"p__B"']}, {'taxonomy': ['"']}]
    mat = [[1.0, 0.0], [0.0, 2.0], [3.0, 4.0], [0.0, 0.0]]
    for mode in ('lines', 'handle', 'path', 'gz', 'convert', 'cli'):
        out.append({'kind': 'rt', 'spec': spec(list(n_oids), ['s1', 's2'], [list(r) for r in mat], copy.deepcopy(notes)),
                    'opts': {'hk': 'note', 'hv': 'note', 'fmt': 'naive'}, 'process': 'naive', 'mode': mode, 'fixed': 'quote-md'})
        out.append({'kind': 'rt', 'spec': spec(list(n_oids), ['s1', 's2'], [list(r) for r in mat], copy.deepcopy(taxa)),
                    'opts': {'hk': 'taxonomy', 'hv': 'taxonomy', 'fmt': 'sc_separated'}, 'process': 'sc_separated', 'mode': mode,
                    'fixed': 'quote-md'})
    for c in out:
        if c['mode'] == 'handle':
            c['hkind'], c['api'] = 'namedtemp', 'from_tsv'
        if c['mode'] == 'cli':
            c['cli'] = {'how': 'inproc', 'src': 'json', 'back': 'json', 'table_type': None, 'smap': False, 'omap': False,
                        'collapsed': None}
    # and the reader alone on lines whose fields start with a quote
    out.append({'kind': 'text', 'process': 'naive', 'fixed': 'quote-text',
                'lines': ['#OTU ID\ts1\ts2', '"Bacteroides" sp.\t1.0\t2.0', '"2 isolate\t3.0\t0.0', 'o3\t"4.0"\t5.0']})
    out.append({'kind': 'text', 'process': 'sc_separated', 'fixed': 'quote-text',
                'lines': ['#OTU ID\ts1\ttaxonomy', 'o1\t1.0\t"k__A"; p__B', 'o2\t3.0\t"k__A; p__B', '"o3"\t0.0\tRoot']})
    return out


def gen(rng, tier):
    for c in quote_cases():
        yield c
    yield {'kind': 'contract', 'what': 'num', 'seed': rng.randrange(2 ** 31), 'n': 20000}
    yield {'kind': 'contract', 'what': 'ws'}
    n = 300 if tier == 'quick' else 3000
    for _ in range(n):
        yield gen_rt(rng, tier)
    for _ in range(n // 2):
        yield gen_text(rng)
    # the real command (click wrapper + option forwarding): in process in every tier
    for _ in range(60 if tier == 'quick' else 300):
        yield gen_cli(rng, tier, 'inproc')
    if tier == 'thorough':
        for _ in range(40):
            yield gen_cli(rng, tier, 'subprocess')


def nontrivial(c):
    if c['kind'] == 'rt':
        return promised(c)
    if c['kind'] == 'text':
        return sum(1 for x in c['lines'] if x.strip() and not x.startswith('#')) >= 2
    return True


def classify(c):
    if c['kind'] == 'contract':
        return ['contract:' + c['what']]
    if c['kind'] == 'text':
        return ['text']
    spec = c['spec']
    tags = []
    if c['mode'] == 'cli':
        k = c['cli']
        tags += ['cli:' + k['how'], 'cli:src-' + k['src'], 'cli:back-' + k['back']]
        tags += ['cli:' + n for n in ('smap', 'omap') if k[n]]
        if k['table_type']:
            tags.append('cli:table-type')
        if k['collapsed']:
            tags.append('cli:collapsed-' + k['collapsed'])
    tags += ['rt', 'mode:' + c['mode'], 'promised' if promised(c) else 'not-promised:' + c.get('malformed', 'other')]
    r, k = len(spec['oids']), len(spec['sids'])
    if k == 1:
        tags.append('shape:single-sample')
    if r == 1:
        tags.append('shape:single-observation')
    if all(v == 0 for row in spec['mat'] for v in row):
        tags.append('shape:all-zero')
    tags.append('md:' + ('none' if c['opts']['hk'] is None else c['opts']['fmt']))
    if c.get('fixed'):
        tags.append('fixed:' + c['fixed'])
    if c['mode'] == 'handle':
        tags.append('handle:%s/%s' % (c.get('hkind', 'stringio'), c.get('api', 'from_tsv')))
    if c.get('ptype'):
        tags.append('path-as:' + c['ptype'])
    if c.get('fname'):
        tags.append('name:%s%s' % ('gzip-as-' if c['mode'] == 'gz' else 'plain-as-', c['fname']))
    if 'ocn' in c['opts']:
        tags.append('corner-cell:' + ('#' if c['opts']['ocn'].startswith('#') else 'no-#'))
    if c['opts']['hk'] and c['opts']['fmt'] == 'sc_separated' and \
            any(isinstance((e or {}).get(c['opts']['hk']), list) and '' in e[c['opts']['hk']] for e in spec.get('omd') or []):
        tags.append('md:empty-level')
    if any(ord(ch) > 127 for i in spec['oids'] + spec['sids'] for ch in i):
        tags.append('ids:non-ascii')
    try:
        tags.append('layout:' + tables.layout_info(build_case(c)))
    except Exception:
        tags.append('layout:unbuildable')
    return tags


def shrink(c):
    if c['kind'] == 'text':
        ls = c['lines']
        for i in range(len(ls)):
            yield dict(c, lines=ls[:i] + ls[i + 1:])
        return
    if c['kind'] != 'rt':
        return
    spec = c['spec']
    r, k = len(spec['oids']), len(spec['sids'])
    if spec.get('layout') and spec['layout'] != ['dense']:
        yield dict(c, spec=dict(spec, layout=['dense']))
    for i in range(r):
        if r > 1:
            s = dict(spec, oids=spec['oids'][:i] + spec['oids'][i + 1:], mat=spec['mat'][:i] + spec['mat'][i + 1:],
                     omd=None if spec.get('omd') is None else spec['omd'][:i] + spec['omd'][i + 1:], layout=['dense'])
            yield dict(c, spec=s)
    for j in range(k):
        if k > 1:
            s = dict(spec, sids=spec['sids'][:j] + spec['sids'][j + 1:], mat=[row[:j] + row[j + 1:] for row in spec['mat']],
                     layout=['dense'])
            yield dict(c, spec=s)
    if c['mode'] != 'lines':
        yield dict(c, mode='lines')


SIGNATURES = {}
